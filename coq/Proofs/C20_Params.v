(* C20: derived parameters stay in sync with updates; constraints are enforced on every assignment; specification-level
   statements about the calibration.  Definitions: Model/Params.v and the generated Gen/GenC20Params.v (constraint
   predicates, class-level guards, number of stored attributes, derived-field expressions translated twice: from __init__
   and from initialisation()). *)
From Coq Require Import ZArith QArith Qabs Bool List Lia Lqa.
From RV Require Import Base.QB Gen.GenC20Params Model.Params.
Import ListNotations.
Open Scope Q_scope.

(* ---------- the constraint predicates mean what their names say ---------- *)
Lemma cond_positive_spec x : cond_positive x = true <-> 0 <= x.
Proof. unfold cond_positive. apply Qle_bool_iff. Qed.
Lemma cond_negative_spec x : cond_negative x = true <-> x <= 0.
Proof. unfold cond_negative. apply Qle_bool_iff. Qed.
Lemma cond_strictly_positive_spec x : cond_strictly_positive x = true <-> 0 < x.
Proof. unfold cond_strictly_positive. apply Qltb_lt. Qed.
Lemma cond_strictly_negative_spec x : cond_strictly_negative x = true <-> x < 0.
Proof. unfold cond_strictly_negative. apply Qltb_lt. Qed.
Lemma cond_greater_than_spec a x : cond_greater_than a x = true <-> a <= x.
Proof. unfold cond_greater_than. apply Qle_bool_iff. Qed.
Lemma cond_strictly_greater_than_spec a x : cond_strictly_greater_than a x = true <-> a < x.
Proof. unfold cond_strictly_greater_than. apply Qltb_lt. Qed.
Lemma cond_less_than_spec a x : cond_less_than a x = true <-> x <= a.
Proof. unfold cond_less_than. apply Qle_bool_iff. Qed.
Lemma cond_strictly_less_than_spec a x : cond_strictly_less_than a x = true <-> x < a.
Proof. unfold cond_strictly_less_than. apply Qltb_lt. Qed.
Lemma cond_between_spec a b x : cond_between a b x = true <-> a <= x /\ x <= b.
Proof. unfold cond_between. rewrite andb_true_iff, !Qle_bool_iff. tauto. Qed.
Lemma cond_strictly_between_spec a b x : cond_strictly_between a b x = true <-> a < x /\ x < b.
Proof. unfold cond_strictly_between. rewrite andb_true_iff, !Qltb_lt. tauto. Qed.

Ltac split_valid H :=
  repeat match type of H with (_ && _ = true) => let H' := fresh "Hv" in apply andb_prop in H; destruct H as [H H'] end.
Ltac close_valid := repeat (apply andb_true_intro; split); assumption.

(* the class-level guards stay folded while the validity invariant is pushed through assignments (a guard may itself be a conjunction) *)
Opaque hem_guard_sigma hem_guard_p hem_guard_eta1 hem_guard_eta2 hem_guard_intensity merton_guard_sigma merton_guard_mu_j merton_guard_sigma_j merton_guard_intensity vg_guard_sigma vg_guard_nu vg_guard_theta cgmy_guard_c cgmy_guard_g cgmy_guard_m cgmy_guard_y bs_guard_sigma.

Section P.
Variable fsqrt : Q -> Q.
Variable fgamma : Q -> Q.
Variable fpow : Q -> Q -> Q.

(* ================================================================== hem *)
Lemma hem_init_eq_reinit sigma p eta1 eta2 intensity :
  hem_init_xi sigma p eta1 eta2 intensity = hem_reinit_xi sigma p eta1 eta2 intensity.
Proof. repeat split; reflexivity. Qed.
Lemma hem_initialisation_is_build r : hem_initialisation r = hem_build (h_sigma r) (h_p r) (h_eta1 r) (h_eta2 r) (h_intensity r).
Proof.
  unfold hem_initialisation, hem_build. pose proof (hem_init_eq_reinit (h_sigma r) (h_p r) (h_eta1 r) (h_eta2 r) (h_intensity r)) as E.
  f_equal; try (symmetry; apply E); try (symmetry; apply (proj1 E)); try (symmetry; apply (proj1 (proj2 E))); try (symmetry; apply (proj2 (proj2 E))).
Qed.
Lemma hem_fields_complete r : length (hem_fields r) = hem_nfields.
Proof. reflexivity. Qed.
Lemma hem_set_valid r f v : hem_valid r = true -> hem_valid (fst (hem_set r f v)) = true.
Proof.
  intro H. unfold hem_set. destruct (hem_guard f v) eqn:E; [|exact H].
  unfold hem_valid in *. split_valid H. destruct f; cbn [hem_guard hem_write h_sigma h_p h_eta1 h_eta2 h_intensity h_xi] in *; close_valid.
Qed.
Lemma hem_run_valid ops : forall r, hem_valid r = true -> hem_valid (hem_run ops r) = true.
Proof. induction ops as [|op ops IH]; intros r H; simpl; [exact H|]. apply IH, hem_set_valid, H. Qed.
Lemma hem_construct_valid sigma p eta1 eta2 intensity r :
  hem_construct sigma p eta1 eta2 intensity = Built r -> hem_valid r = true /\ hem_defined r = true /\ r = hem_build sigma p eta1 eta2 intensity.
Proof. unfold hem_construct. destruct (hem_valid _) eqn:E; [destruct (hem_defined _) eqn:D|]; intro H; inversion H; subst; auto. Qed.
Lemma hem_rebuild_valid r : hem_valid r = true -> hem_rebuild r = hem_initialisation_checked r.
Proof.
  intro H. unfold hem_rebuild, hem_construct, hem_initialisation_checked. rewrite <- hem_initialisation_is_build.
  change (hem_valid (hem_initialisation r)) with (hem_valid r). change (hem_defined (hem_initialisation r)) with (hem_defined r).
  rewrite H. reflexivity.
Qed.
Lemma hem_sync ops r0 : hem_valid r0 = true ->
  hem_rebuild (hem_run ops r0) = hem_initialisation_checked (hem_run ops r0).
Proof. intro H. apply hem_rebuild_valid, hem_run_valid, H. Qed.
Lemma hem_set_rejects r f v : hem_guard f v = false -> hem_set r f v = (r, false).
Proof. intro H. unfold hem_set. rewrite H. reflexivity. Qed.
Lemma hem_set_accepts r f v : hem_guard f v = true -> hem_set r f v = (hem_write f v r, true).
Proof. intro H. unfold hem_set. rewrite H. reflexivity. Qed.
(* the value of the objective at a trial value does not depend on the earlier trial values written into the same copy *)
Lemma hem_trial_absorbs r f x y : hem_guard f x = true -> hem_guard f y = true ->
  hem_initialisation (fst (hem_set (hem_initialisation (fst (hem_set r f y))) f x)) = hem_initialisation (fst (hem_set r f x)).
Proof. intros Hx Hy. unfold hem_set. rewrite Hx, Hy. destruct f; reflexivity. Qed.

(* ================================================================== merton *)
Lemma merton_initialisation_is_build r : merton_initialisation r = merton_build (m_sigma r) (m_mu_j r) (m_sigma_j r) (m_intensity r).
Proof. unfold merton_initialisation, merton_build. destruct r; reflexivity. Qed.
Lemma merton_fields_complete r : length (merton_fields r) = merton_nfields.
Proof. reflexivity. Qed.
Lemma merton_set_valid r f v : merton_valid r = true -> merton_valid (fst (merton_set r f v)) = true.
Proof.
  intro H. unfold merton_set. destruct (merton_guard f v) eqn:E; [|exact H].
  unfold merton_valid in *. split_valid H. destruct f; cbn [merton_guard merton_write m_sigma m_mu_j m_sigma_j m_intensity] in *; close_valid.
Qed.
Lemma merton_run_valid ops : forall r, merton_valid r = true -> merton_valid (merton_run ops r) = true.
Proof. induction ops as [|op ops IH]; intros r H; simpl; [exact H|]. apply IH, merton_set_valid, H. Qed.
Lemma merton_construct_valid sigma mu_j sigma_j intensity r :
  merton_construct sigma mu_j sigma_j intensity = Built r -> merton_valid r = true /\ merton_defined r = true /\ r = merton_build sigma mu_j sigma_j intensity.
Proof. unfold merton_construct. destruct (merton_valid _) eqn:E; [destruct (merton_defined _) eqn:D|]; intro H; inversion H; subst; auto. Qed.
Lemma merton_rebuild_valid r : merton_valid r = true -> merton_rebuild r = merton_initialisation_checked r.
Proof.
  intro H. unfold merton_rebuild, merton_construct, merton_initialisation_checked. rewrite <- merton_initialisation_is_build.
  change (merton_valid (merton_initialisation r)) with (merton_valid r). change (merton_defined (merton_initialisation r)) with (merton_defined r).
  rewrite H. reflexivity.
Qed.
Lemma merton_sync ops r0 : merton_valid r0 = true ->
  merton_rebuild (merton_run ops r0) = merton_initialisation_checked (merton_run ops r0).
Proof. intro H. apply merton_rebuild_valid, merton_run_valid, H. Qed.
Lemma merton_set_rejects r f v : merton_guard f v = false -> merton_set r f v = (r, false).
Proof. intro H. unfold merton_set. rewrite H. reflexivity. Qed.
Lemma merton_set_accepts r f v : merton_guard f v = true -> merton_set r f v = (merton_write f v r, true).
Proof. intro H. unfold merton_set. rewrite H. reflexivity. Qed.
(* the value of the objective at a trial value does not depend on the earlier trial values written into the same copy *)
Lemma merton_trial_absorbs r f x y : merton_guard f x = true -> merton_guard f y = true ->
  merton_initialisation (fst (merton_set (merton_initialisation (fst (merton_set r f y))) f x)) = merton_initialisation (fst (merton_set r f x)).
Proof. intros Hx Hy. unfold merton_set. rewrite Hx, Hy. destruct f; reflexivity. Qed.

(* ================================================================== vg *)
Lemma vg_init_eq_reinit sigma nu theta :
  vg_init_c fsqrt sigma nu theta = vg_reinit_c fsqrt sigma nu theta /\ vg_init_lambda_p fsqrt sigma nu theta = vg_reinit_lambda_p fsqrt sigma nu theta /\ vg_init_lambda_m fsqrt sigma nu theta = vg_reinit_lambda_m fsqrt sigma nu theta.
Proof. repeat split; reflexivity. Qed.
Lemma vg_initialisation_is_build r : vg_initialisation fsqrt r = vg_build fsqrt (v_sigma r) (v_nu r) (v_theta r).
Proof.
  unfold vg_initialisation, vg_build. pose proof (vg_init_eq_reinit (v_sigma r) (v_nu r) (v_theta r)) as E.
  f_equal; try (symmetry; apply E); try (symmetry; apply (proj1 E)); try (symmetry; apply (proj1 (proj2 E))); try (symmetry; apply (proj2 (proj2 E))).
Qed.
Lemma vg_fields_complete r : length (vg_fields r) = vg_nfields.
Proof. reflexivity. Qed.
Lemma vg_set_valid r f v : vg_valid r = true -> vg_valid (fst (vg_set r f v)) = true.
Proof.
  intro H. unfold vg_set. destruct (vg_guard f v) eqn:E; [|exact H].
  unfold vg_valid in *. split_valid H. destruct f; cbn [vg_guard vg_write v_sigma v_nu v_theta v_c v_lambda_p v_lambda_m] in *; close_valid.
Qed.
Lemma vg_run_valid ops : forall r, vg_valid r = true -> vg_valid (vg_run ops r) = true.
Proof. induction ops as [|op ops IH]; intros r H; simpl; [exact H|]. apply IH, vg_set_valid, H. Qed.
Lemma vg_construct_valid sigma nu theta r :
  vg_construct fsqrt sigma nu theta = Built r -> vg_valid r = true /\ vg_defined r = true /\ r = vg_build fsqrt sigma nu theta.
Proof. unfold vg_construct. destruct (vg_valid _) eqn:E; [destruct (vg_defined _) eqn:D|]; intro H; inversion H; subst; auto. Qed.
Lemma vg_rebuild_valid r : vg_valid r = true -> vg_rebuild fsqrt r = vg_initialisation_checked fsqrt r.
Proof.
  intro H. unfold vg_rebuild, vg_construct, vg_initialisation_checked. rewrite <- vg_initialisation_is_build.
  change (vg_valid (vg_initialisation fsqrt r)) with (vg_valid r). change (vg_defined (vg_initialisation fsqrt r)) with (vg_defined r).
  rewrite H. reflexivity.
Qed.
Lemma vg_sync ops r0 : vg_valid r0 = true ->
  vg_rebuild fsqrt (vg_run ops r0) = vg_initialisation_checked fsqrt (vg_run ops r0).
Proof. intro H. apply vg_rebuild_valid, vg_run_valid, H. Qed.
Lemma vg_set_rejects r f v : vg_guard f v = false -> vg_set r f v = (r, false).
Proof. intro H. unfold vg_set. rewrite H. reflexivity. Qed.
Lemma vg_set_accepts r f v : vg_guard f v = true -> vg_set r f v = (vg_write f v r, true).
Proof. intro H. unfold vg_set. rewrite H. reflexivity. Qed.
(* the value of the objective at a trial value does not depend on the earlier trial values written into the same copy *)
Lemma vg_trial_absorbs r f x y : vg_guard f x = true -> vg_guard f y = true ->
  vg_initialisation fsqrt (fst (vg_set (vg_initialisation fsqrt (fst (vg_set r f y))) f x)) = vg_initialisation fsqrt (fst (vg_set r f x)).
Proof. intros Hx Hy. unfold vg_set. rewrite Hx, Hy. destruct f; reflexivity. Qed.

(* ================================================================== cgmy *)
Lemma cgmy_init_eq_reinit c g m y :
  cgmy_init_CGammamY fgamma fpow c g m y = cgmy_reinit_CGammamY fgamma fpow c g m y /\ cgmy_init_MpowerY fgamma fpow c g m y = cgmy_reinit_MpowerY fgamma fpow c g m y /\ cgmy_init_GpowerY fgamma fpow c g m y = cgmy_reinit_GpowerY fgamma fpow c g m y.
Proof. repeat split; reflexivity. Qed.
Lemma cgmy_initialisation_is_build r : cgmy_initialisation fgamma fpow r = cgmy_build fgamma fpow (c_c r) (c_g r) (c_m r) (c_y r).
Proof.
  unfold cgmy_initialisation, cgmy_build. pose proof (cgmy_init_eq_reinit (c_c r) (c_g r) (c_m r) (c_y r)) as E.
  f_equal; try (symmetry; apply E); try (symmetry; apply (proj1 E)); try (symmetry; apply (proj1 (proj2 E))); try (symmetry; apply (proj2 (proj2 E))).
Qed.
Lemma cgmy_fields_complete r : length (cgmy_fields r) = cgmy_nfields.
Proof. reflexivity. Qed.
Lemma cgmy_set_valid r f v : cgmy_valid r = true -> cgmy_valid (fst (cgmy_set r f v)) = true.
Proof.
  intro H. unfold cgmy_set. destruct (cgmy_guard f v) eqn:E; [|exact H].
  unfold cgmy_valid in *. split_valid H. destruct f; cbn [cgmy_guard cgmy_write c_c c_g c_m c_y c_CGammamY c_MpowerY c_GpowerY] in *; close_valid.
Qed.
Lemma cgmy_run_valid ops : forall r, cgmy_valid r = true -> cgmy_valid (cgmy_run ops r) = true.
Proof. induction ops as [|op ops IH]; intros r H; simpl; [exact H|]. apply IH, cgmy_set_valid, H. Qed.
Lemma cgmy_construct_valid c g m y r :
  cgmy_construct fgamma fpow c g m y = Built r -> cgmy_valid r = true /\ cgmy_defined r = true /\ r = cgmy_build fgamma fpow c g m y.
Proof. unfold cgmy_construct. destruct (cgmy_valid _) eqn:E; [destruct (cgmy_defined _) eqn:D|]; intro H; inversion H; subst; auto. Qed.
Lemma cgmy_rebuild_valid r : cgmy_valid r = true -> cgmy_rebuild fgamma fpow r = cgmy_initialisation_checked fgamma fpow r.
Proof.
  intro H. unfold cgmy_rebuild, cgmy_construct, cgmy_initialisation_checked. rewrite <- cgmy_initialisation_is_build.
  change (cgmy_valid (cgmy_initialisation fgamma fpow r)) with (cgmy_valid r). change (cgmy_defined (cgmy_initialisation fgamma fpow r)) with (cgmy_defined r).
  rewrite H. reflexivity.
Qed.
Lemma cgmy_sync ops r0 : cgmy_valid r0 = true ->
  cgmy_rebuild fgamma fpow (cgmy_run ops r0) = cgmy_initialisation_checked fgamma fpow (cgmy_run ops r0).
Proof. intro H. apply cgmy_rebuild_valid, cgmy_run_valid, H. Qed.
Lemma cgmy_set_rejects r f v : cgmy_guard f v = false -> cgmy_set r f v = (r, false).
Proof. intro H. unfold cgmy_set. rewrite H. reflexivity. Qed.
Lemma cgmy_set_accepts r f v : cgmy_guard f v = true -> cgmy_set r f v = (cgmy_write f v r, true).
Proof. intro H. unfold cgmy_set. rewrite H. reflexivity. Qed.
(* the value of the objective at a trial value does not depend on the earlier trial values written into the same copy *)
Lemma cgmy_trial_absorbs r f x y : cgmy_guard f x = true -> cgmy_guard f y = true ->
  cgmy_initialisation fgamma fpow (fst (cgmy_set (cgmy_initialisation fgamma fpow (fst (cgmy_set r f y))) f x)) = cgmy_initialisation fgamma fpow (fst (cgmy_set r f x)).
Proof. intros Hx Hy. unfold cgmy_set. rewrite Hx, Hy. destruct f; reflexivity. Qed.

(* ================================================================== bs *)
Lemma bs_init_eq_reinit sigma :
  bs_init_variance sigma = bs_reinit_variance sigma.
Proof. repeat split; reflexivity. Qed.
Lemma bs_initialisation_is_build r : bs_initialisation r = bs_build (b_sigma r).
Proof.
  unfold bs_initialisation, bs_build. pose proof (bs_init_eq_reinit (b_sigma r)) as E.
  f_equal; try (symmetry; apply E); try (symmetry; apply (proj1 E)); try (symmetry; apply (proj1 (proj2 E))); try (symmetry; apply (proj2 (proj2 E))).
Qed.
Lemma bs_fields_complete r : length (bs_fields r) = bs_nfields.
Proof. reflexivity. Qed.
Lemma bs_set_valid r f v : bs_valid r = true -> bs_valid (fst (bs_set r f v)) = true.
Proof.
  intro H. unfold bs_set. destruct (bs_guard f v) eqn:E; [|exact H].
  unfold bs_valid in *. split_valid H. destruct f; cbn [bs_guard bs_write b_sigma b_variance] in *; close_valid.
Qed.
Lemma bs_run_valid ops : forall r, bs_valid r = true -> bs_valid (bs_run ops r) = true.
Proof. induction ops as [|op ops IH]; intros r H; simpl; [exact H|]. apply IH, bs_set_valid, H. Qed.
Lemma bs_construct_valid sigma r :
  bs_construct sigma = Built r -> bs_valid r = true /\ bs_defined r = true /\ r = bs_build sigma.
Proof. unfold bs_construct. destruct (bs_valid _) eqn:E; [destruct (bs_defined _) eqn:D|]; intro H; inversion H; subst; auto. Qed.
Lemma bs_rebuild_valid r : bs_valid r = true -> bs_rebuild r = bs_initialisation_checked r.
Proof.
  intro H. unfold bs_rebuild, bs_construct, bs_initialisation_checked. rewrite <- bs_initialisation_is_build.
  change (bs_valid (bs_initialisation r)) with (bs_valid r). change (bs_defined (bs_initialisation r)) with (bs_defined r).
  rewrite H. reflexivity.
Qed.
Lemma bs_sync ops r0 : bs_valid r0 = true ->
  bs_rebuild (bs_run ops r0) = bs_initialisation_checked (bs_run ops r0).
Proof. intro H. apply bs_rebuild_valid, bs_run_valid, H. Qed.
Lemma bs_set_rejects r f v : bs_guard f v = false -> bs_set r f v = (r, false).
Proof. intro H. unfold bs_set. rewrite H. reflexivity. Qed.
Lemma bs_set_accepts r f v : bs_guard f v = true -> bs_set r f v = (bs_write f v r, true).
Proof. intro H. unfold bs_set. rewrite H. reflexivity. Qed.
(* the value of the objective at a trial value does not depend on the earlier trial values written into the same copy *)
Lemma bs_trial_absorbs r f x y : bs_guard f x = true -> bs_guard f y = true ->
  bs_initialisation (fst (bs_set (bs_initialisation (fst (bs_set r f y))) f x)) = bs_initialisation (fst (bs_set r f x)).
Proof. intros Hx Hy. unfold bs_set. rewrite Hx, Hy. destruct f; reflexivity. Qed.

Transparent hem_guard_sigma hem_guard_p hem_guard_eta1 hem_guard_eta2 hem_guard_intensity merton_guard_sigma merton_guard_mu_j merton_guard_sigma_j merton_guard_intensity vg_guard_sigma vg_guard_nu vg_guard_theta cgmy_guard_c cgmy_guard_g cgmy_guard_m cgmy_guard_y bs_guard_sigma.
(* ---------- the predicate of every field of every class ---------- *)
Lemma hem_guard_spec v :
  (hem_guard HSigma v = true <-> 0 <= v) /\ (hem_guard HP v = true <-> 0 <= v /\ v <= 1) /\ (hem_guard HEta1 v = true <-> 0 < v)
  /\ (hem_guard HEta2 v = true <-> 0 < v) /\ (hem_guard HIntensity v = true <-> 0 <= v) /\ hem_guard HXi v = true.
Proof.
  simpl. unfold hem_guard_sigma, hem_guard_p, hem_guard_eta1, hem_guard_eta2, hem_guard_intensity.
  split; [apply cond_positive_spec|]. split; [apply cond_between_spec|]. split; [apply cond_strictly_positive_spec|].
  split; [apply cond_strictly_positive_spec|]. split; [apply cond_positive_spec | reflexivity].
Qed.
Lemma merton_guard_spec v :
  (merton_guard MSigma v = true <-> 0 <= v) /\ (merton_guard MMuJ v = true <-> 0 <= v)
  /\ (merton_guard MSigmaJ v = true <-> 0 < v) /\ (merton_guard MIntensity v = true <-> 0 <= v).
Proof.
  simpl. unfold merton_guard_sigma, merton_guard_mu_j, merton_guard_sigma_j, merton_guard_intensity.
  repeat split; try apply cond_positive_spec; try apply cond_strictly_positive_spec.
Qed.
(* only sigma is constrained in the code: nu and theta are plain attributes *)
Lemma vg_guard_spec v :
  (vg_guard VSigma v = true <-> 0 <= v) /\ vg_guard VNu v = true /\ vg_guard VTheta v = true
  /\ vg_guard VC v = true /\ vg_guard VLambdaP v = true /\ vg_guard VLambdaM v = true.
Proof. simpl. unfold vg_guard_sigma, vg_guard_nu, vg_guard_theta. repeat split; apply cond_positive_spec. Qed.
Lemma cgmy_guard_spec v :
  (cgmy_guard CC v = true <-> 0 < v) /\ (cgmy_guard CG v = true <-> 0 <= v) /\ (cgmy_guard CM v = true <-> 0 <= v)
  /\ (cgmy_guard CY v = true <-> v < 2) /\ cgmy_guard CCGammamY v = true /\ cgmy_guard CMpowerY v = true /\ cgmy_guard CGpowerY v = true.
Proof.
  simpl. unfold cgmy_guard_c, cgmy_guard_g, cgmy_guard_m, cgmy_guard_y.
  repeat split; try apply cond_positive_spec; try apply cond_strictly_positive_spec; try apply cond_strictly_less_than_spec.
Qed.
Lemma bs_guard_spec v : (bs_guard BSigma v = true <-> 0 <= v) /\ bs_guard BVariance v = true.
Proof. simpl. unfold bs_guard_sigma. split; [apply cond_positive_spec | reflexivity]. Qed.

(* where Python divides by zero *)
Lemma hem_defined_spec r : hem_defined r = true <-> ~ h_eta1 r == 1 /\ ~ h_eta2 r == -(1).
Proof.
  unfold hem_defined. rewrite andb_true_iff, !negb_true_iff. split.
  - intros [A B]. split; intro E.
    + assert (Qeq_bool (h_eta1 r - 1) 0 = true) by (apply Qeq_bool_iff; rewrite E; ring). congruence.
    + assert (Qeq_bool (h_eta2 r + 1) 0 = true) by (apply Qeq_bool_iff; rewrite E; ring). congruence.
  - intros [A B]. split.
    + destruct (Qeq_bool (h_eta1 r - 1) 0) eqn:E; auto. apply Qeq_bool_iff in E. exfalso. apply A. lra.
    + destruct (Qeq_bool (h_eta2 r + 1) 0) eqn:E; auto. apply Qeq_bool_iff in E. exfalso. apply B. lra.
Qed.
Lemma vg_defined_spec r : vg_defined r = true <-> ~ v_nu r == 0 /\ ~ v_sigma r == 0.
Proof.
  unfold vg_defined. rewrite andb_true_iff, !negb_true_iff. split.
  - intros [A B]. split; intro E.
    + assert (Qeq_bool (v_nu r) 0 = true) by (apply Qeq_bool_iff; exact E). congruence.
    + assert (Qeq_bool (v_sigma r ^ 2) 0 = true) by (apply Qeq_bool_iff; rewrite E; reflexivity). congruence.
  - intros [A B]. split.
    + destruct (Qeq_bool (v_nu r) 0) eqn:E; auto. apply Qeq_bool_iff in E. contradiction.
    + destruct (Qeq_bool (v_sigma r ^ 2) 0) eqn:E; auto. apply Qeq_bool_iff in E. exfalso. apply B.
      simpl in E. assert (H : v_sigma r * v_sigma r == 0) by exact E. apply Qmult_integral in H. tauto.
Qed.

End P.

(* ================================================================== calibration: heap model, specification of the root finder *)
Section CalibSpec.
  Variable Rec Field : Type.
  Variable set : Rec -> Field -> Q -> Rec * bool.
  Variable initialisation : Rec -> outcome Rec.
  Variable price : Rec -> Q.
  Variable dflt : Rec.
  Notation load := (load Rec dflt).
  Notation store := (store Rec).
  Notation deepcopy := (deepcopy Rec dflt).
  Notation assign_init := (assign_init Rec Field set initialisation).
  Notation run_trials := (run_trials Rec Field set initialisation price dflt).
  Notation calibrate := (calibrate_model_parameter Rec Field set initialisation price dflt).
  Notation run_default := (run_default_calibration Rec Field set initialisation price dflt).

  Lemma length_store h : forall p r, length (store h p r) = length h.
  Proof. induction h as [|x h IH]; intros [|p] r; simpl; auto. Qed.
  Lemma load_store_same h : forall p r, (p < length h)%nat -> load (store h p r) p = r.
  Proof. unfold Params.load. induction h as [|x h IH]; intros [|p] r H; simpl in *; try lia; auto. apply IH. lia. Qed.
  Lemma load_store_other h : forall p q r, p <> q -> load (store h q r) p = load h p.
  Proof.
    unfold Params.load. induction h as [|x h IH]; intros [|p] [|q] r H; simpl; auto; try congruence;
      try (apply IH; congruence).
  Qed.
  Lemma load_app_old h l p : (p < length h)%nat -> load (h ++ l) p = load h p.
  Proof. intro H. unfold Params.load. apply app_nth1, H. Qed.
  Lemma load_app_new h r : load (h ++ [r]) (length h) = r.
  Proof. unfold Params.load. rewrite app_nth2 by lia. rewrite Nat.sub_diag. reflexivity. Qed.

  (* the trials write only at q *)
  Lemma run_trials_frame q f m xs : forall st st', run_trials q f m st xs = Some st' ->
    length st' = length st /\ forall p, p <> q -> load st' p = load st p.
  Proof.
    induction xs as [|x xs IH]; intros st st' H; simpl in H.
    - inversion H; subst. auto.
    - unfold Params.calibration_fun in H. destruct (assign_init (load st q) f x) as [r''|]; [|discriminate].
      apply IH in H. destruct H as [HL HF]. rewrite length_store in HL. split; [exact HL|].
      intros p Hp. rewrite HF by exact Hp. apply load_store_other, Hp.
  Qed.
  (* a trial value on which the assignment or the re-initialisation raises aborts the calibration *)
  Lemma run_trials_rejected q f m x : (forall r, assign_init r f x = None) ->
    forall xs st, In x xs -> run_trials q f m st xs = None.
  Proof.
    intros Hrej xs. induction xs as [|y xs IH]; intros st Hin; [destruct Hin|]. simpl.
    unfold Params.calibration_fun. destruct (assign_init (load st q) f y) as [r''|] eqn:E; [|reflexivity].
    destruct Hin as [-> | Hin]; [|apply IH, Hin]. rewrite Hrej in E. discriminate.
  Qed.
  (* MUST SUCCEED: if every trial value is accepted and re-initialisable on the records that can occur (invariant Inv) *)
  Lemma run_trials_succeeds (Inv : Rec -> Prop) q f m xs :
    (forall y r, In y xs -> Inv r -> exists r', assign_init r f y = Some r' /\ Inv r') ->
    forall st, (q < length st)%nat -> Inv (load st q) -> exists st', run_trials q f m st xs = Some st' /\ Inv (load st' q) /\ length st' = length st.
  Proof.
    induction xs as [|x xs IH]; intros Hacc st Hq HI; simpl.
    - exists st. auto.
    - unfold Params.calibration_fun. destruct (Hacc x (load st q) (or_introl eq_refl) HI) as (r' & E & HI'). rewrite E.
      destruct (IH (fun y r Hy => Hacc y r (or_intror Hy)) (store st q r')) as (st' & A & B & C).
      + rewrite length_store. exact Hq.
      + rewrite load_store_same by exact Hq. exact HI'.
      + exists st'. rewrite length_store in C. auto.
  Qed.

  (* calibrate_model_parameter (with the deep copy): every object that existed before is untouched, whatever brentq tried *)
  Lemma calibrate_input_untouched h p f m xs h' : calibrate false h p f m xs = Some h' ->
    length h' = S (length h) /\ forall p', (p' < length h)%nat -> load h' p' = load h p'.
  Proof.
    unfold Params.calibrate_model_parameter, Params.deepcopy. intro H. apply run_trials_frame in H. destruct H as [HL HF].
    rewrite app_length in HL. simpl in HL. split; [lia|].
    intros p' Hp'. rewrite HF by lia. apply load_app_old, Hp'.
  Qed.
  Lemma calibrate_rejected h p f m x xs alias : (forall r, assign_init r f x = None) -> In x xs -> calibrate alias h p f m xs = None.
  Proof.
    intros Hrej Hin. unfold Params.calibrate_model_parameter. destruct alias; simpl; apply (run_trials_rejected _ _ _ x); assumption.
  Qed.

  Lemma run_default_spec h p f m xs x h' q : (p < length h)%nat -> run_default h p f m xs x = Some (h', q) ->
    (forall p', (p' < length h)%nat -> load h' p' = load h p')
    /\ (length h <= q)%nat
    /\ assign_init (load h p) f x = Some (load h' q).
  Proof.
    intros Hp H. unfold Params.run_default_calibration in H.
    destruct (calibrate false h p f m xs) as [h1|] eqn:E1; [|discriminate].
    apply calibrate_input_untouched in E1. destruct E1 as [L1 F1].
    unfold Params.deepcopy in H. rewrite load_app_new in H. rewrite (F1 p Hp) in H.
    destruct (assign_init (load h p) f x) as [r''|] eqn:E2; [|discriminate]. inversion H; subst. clear H.
    repeat split.
    - intros p' Hp'. rewrite load_store_other by lia. rewrite load_app_old by lia. apply F1, Hp'.
    - lia.
    - f_equal. symmetry. apply load_store_same. rewrite app_length. simpl. lia.
  Qed.
  Lemma run_default_rejected h p f m xs x : (forall r, assign_init r f x = None) -> run_default h p f m xs x = None.
  Proof.
    intro Hrej. unfold Params.run_default_calibration. destruct (calibrate false h p f m xs) as [h1|]; [|reflexivity].
    unfold Params.deepcopy. rewrite Hrej. reflexivity.
  Qed.
  (* MUST SUCCEED *)
  Lemma run_default_succeeds (Inv : Rec -> Prop) h p f m xs x : (p < length h)%nat -> Inv (load h p) ->
    (forall y r, In y (x :: xs) -> Inv r -> exists r', assign_init r f y = Some r' /\ Inv r') ->
    exists h' q, run_default h p f m xs x = Some (h', q).
  Proof.
    intros Hp HI Hacc. unfold Params.run_default_calibration, Params.calibrate_model_parameter, Params.deepcopy.
    destruct (run_trials_succeeds Inv (length h) f m xs (fun y r Hy => Hacc y r (or_intror Hy)) (h ++ [load h p])) as (h1 & E & _ & L).
    - rewrite app_length. simpl. lia.
    - rewrite load_app_new. exact HI.
    - rewrite E. rewrite load_app_new.
      pose proof (run_trials_frame _ _ _ _ _ _ E) as [_ F]. rewrite (F p) by lia. rewrite load_app_old by exact Hp.
      destruct (Hacc x (load h p) (or_introl eq_refl) HI) as (r' & E2 & _). rewrite E2. eauto.
  Qed.
End CalibSpec.

(* what the bracket promised by brentq gives for the residual, under a Lipschitz bound on the objective *)
Lemma brent_reprices (g : Q -> Q) (m a b delta x L : Q) :
  0 <= L -> Lipschitz g a b L -> BrentSpec (fun y => g y - m) a b delta x ->
  (a <= x /\ x <= b) /\ Qabs (g x - m) <= L * delta.
Proof.
  intros HL Hlip (x1 & x2 & H1 & H2 & H3 & H4 & H5 & H6).
  assert (Hx : a <= x /\ x <= b) by (split; lra).
  split; [exact Hx|].
  assert (B1 : Qabs (g x - g x1) <= L * Qabs (x - x1)) by (apply Hlip; lra).
  assert (B2 : Qabs (g x - g x2) <= L * Qabs (x - x2)) by (apply Hlip; lra).
  assert (A1 : Qabs (x - x1) <= delta). { apply Qabs_Qle_condition. lra. }
  assert (A2 : Qabs (x - x2) <= delta). { apply Qabs_Qle_condition. lra. }
  assert (C1 : Qabs (g x - g x1) <= L * delta). { eapply Qle_trans; [exact B1|]. nra. }
  assert (C2 : Qabs (g x - g x2) <= L * delta). { eapply Qle_trans; [exact B2|]. nra. }
  apply Qabs_Qle_condition in C1. apply Qabs_Qle_condition in C2. apply Qabs_Qle_condition.
  set (u := g x - m) in *. set (u1 := g x1 - m) in *. set (u2 := g x2 - m) in *.
  assert (E1 : g x - g x1 == u - u1) by (unfold u, u1; ring). assert (E2 : g x - g x2 == u - u2) by (unfold u, u2; ring).
  rewrite E1 in C1. rewrite E2 in C2. clearbody u u1 u2. clear - C1 C2 H6 HL.
  destruct (Qlt_le_dec 0 u1) as [P1|P1]; destruct (Qlt_le_dec 0 u2) as [P2|P2]; try lra.
  - exfalso. assert (0 < u1 * u2) by nra. lra.
  - destruct (Qlt_le_dec u1 0) as [N1|N1]; destruct (Qlt_le_dec u2 0) as [N2|N2]; try lra.
    exfalso. assert (0 < u1 * u2) by nra. lra.
Qed.

(* ------------------------------------------------------------------ assignment + checked re-initialisation per class *)
Section Assign.
Variable fsqrt : Q -> Q.
Variable fgamma : Q -> Q.
Variable fpow : Q -> Q -> Q.
(* the objective at a trial value does not depend on the values tried before on the same copy *)
Lemma hem_assign_absorbs r f x y r1 :
  assign_init HemRec HemField hem_set hem_initialisation_checked r f y = Some r1 ->
  assign_init HemRec HemField hem_set hem_initialisation_checked r1 f x = assign_init HemRec HemField hem_set hem_initialisation_checked r f x.
Proof.
  unfold assign_init, hem_set, hem_initialisation_checked. destruct (hem_guard f y) eqn:Gy; [|discriminate].
  destruct (hem_defined (hem_write f y r)) eqn:D; [|discriminate]. intro H; inversion H; subst; clear H.
  destruct (hem_guard f x); [|reflexivity]. destruct f; reflexivity.
Qed.
Lemma merton_assign_absorbs r f x y r1 :
  assign_init MertonRec MertonField merton_set merton_initialisation_checked r f y = Some r1 ->
  assign_init MertonRec MertonField merton_set merton_initialisation_checked r1 f x = assign_init MertonRec MertonField merton_set merton_initialisation_checked r f x.
Proof.
  unfold assign_init, merton_set, merton_initialisation_checked. destruct (merton_guard f y) eqn:Gy; [|discriminate].
  simpl. intro H; inversion H; subst; clear H. destruct (merton_guard f x); [|reflexivity]. destruct f; reflexivity.
Qed.
Lemma vg_assign_absorbs r f x y r1 :
  assign_init VgRec VgField vg_set (vg_initialisation_checked fsqrt) r f y = Some r1 ->
  assign_init VgRec VgField vg_set (vg_initialisation_checked fsqrt) r1 f x = assign_init VgRec VgField vg_set (vg_initialisation_checked fsqrt) r f x.
Proof.
  unfold assign_init, vg_set, vg_initialisation_checked. destruct (vg_guard f y) eqn:Gy; [|discriminate].
  destruct (vg_defined (vg_write f y r)) eqn:D; [|discriminate]. intro H; inversion H; subst; clear H.
  destruct (vg_guard f x); [|reflexivity]. destruct f; reflexivity.
Qed.
Lemma cgmy_assign_absorbs r f x y r1 :
  assign_init CgmyRec CgmyField cgmy_set (cgmy_initialisation_checked fgamma fpow) r f y = Some r1 ->
  assign_init CgmyRec CgmyField cgmy_set (cgmy_initialisation_checked fgamma fpow) r1 f x
  = assign_init CgmyRec CgmyField cgmy_set (cgmy_initialisation_checked fgamma fpow) r f x.
Proof.
  unfold assign_init, cgmy_set, cgmy_initialisation_checked. destruct (cgmy_guard f y) eqn:Gy; [|discriminate].
  simpl. intro H; inversion H; subst; clear H. destruct (cgmy_guard f x); [|reflexivity]. destruct f; reflexivity.
Qed.
Lemma bs_assign_absorbs r f x y r1 :
  assign_init BsRec BsField bs_set bs_initialisation_checked r f y = Some r1 ->
  assign_init BsRec BsField bs_set bs_initialisation_checked r1 f x = assign_init BsRec BsField bs_set bs_initialisation_checked r f x.
Proof.
  unfold assign_init, bs_set, bs_initialisation_checked. destruct (bs_guard f y) eqn:Gy; [|discriminate].
  simpl. intro H; inversion H; subst; clear H. destruct (bs_guard f x); [|reflexivity]. destruct f; reflexivity.
Qed.
(* when exactly the assignment + re-initialisation succeeds, and what it returns *)
Lemma hem_assign_spec r f x : assign_init HemRec HemField hem_set hem_initialisation_checked r f x
  = if hem_guard f x && hem_defined (hem_write f x r) then Some (hem_initialisation (hem_write f x r)) else None.
Proof. unfold assign_init, hem_set, hem_initialisation_checked. destruct (hem_guard f x); simpl; [|reflexivity]. destruct (hem_defined _); reflexivity. Qed.
Lemma vg_assign_spec r f x : assign_init VgRec VgField vg_set (vg_initialisation_checked fsqrt) r f x
  = if vg_guard f x && vg_defined (vg_write f x r) then Some (vg_initialisation fsqrt (vg_write f x r)) else None.
Proof. unfold assign_init, vg_set, vg_initialisation_checked. destruct (vg_guard f x); simpl; [|reflexivity]. destruct (vg_defined _); reflexivity. Qed.
Lemma merton_assign_spec r f x : assign_init MertonRec MertonField merton_set merton_initialisation_checked r f x
  = if merton_guard f x then Some (merton_write f x r) else None.
Proof. unfold assign_init, merton_set, merton_initialisation_checked. destruct (merton_guard f x); reflexivity. Qed.
Lemma cgmy_assign_spec r f x : assign_init CgmyRec CgmyField cgmy_set (cgmy_initialisation_checked fgamma fpow) r f x
  = if cgmy_guard f x then Some (cgmy_initialisation fgamma fpow (cgmy_write f x r)) else None.
Proof. unfold assign_init, cgmy_set, cgmy_initialisation_checked. destruct (cgmy_guard f x); reflexivity. Qed.
Lemma bs_assign_spec r f x : assign_init BsRec BsField bs_set bs_initialisation_checked r f x
  = if bs_guard f x then Some (bs_initialisation (bs_write f x r)) else None.
Proof. unfold assign_init, bs_set, bs_initialisation_checked. destruct (bs_guard f x); reflexivity. Qed.

(* MUST SUCCEED: the constructor builds an object exactly when every guard holds and no division by zero occurs *)
Lemma construct_iff_all :
  (forall sigma p eta1 eta2 intensity, let r := hem_build sigma p eta1 eta2 intensity in
     (hem_construct sigma p eta1 eta2 intensity = Built r <-> hem_valid r = true /\ hem_defined r = true)
     /\ (hem_construct sigma p eta1 eta2 intensity = RaisesValueError <-> hem_valid r = false)
     /\ (hem_construct sigma p eta1 eta2 intensity = RaisesZeroDivisionError <-> hem_valid r = true /\ hem_defined r = false))
  /\ (forall sigma mu_j sigma_j intensity, let r := merton_build sigma mu_j sigma_j intensity in
     (merton_construct sigma mu_j sigma_j intensity = Built r <-> merton_valid r = true)
     /\ (merton_construct sigma mu_j sigma_j intensity = RaisesValueError <-> merton_valid r = false))
  /\ (forall sigma nu theta, let r := vg_build fsqrt sigma nu theta in
     (vg_construct fsqrt sigma nu theta = Built r <-> vg_valid r = true /\ vg_defined r = true)
     /\ (vg_construct fsqrt sigma nu theta = RaisesValueError <-> vg_valid r = false)
     /\ (vg_construct fsqrt sigma nu theta = RaisesZeroDivisionError <-> vg_valid r = true /\ vg_defined r = false))
  /\ (forall c g m y, let r := cgmy_build fgamma fpow c g m y in
     (cgmy_construct fgamma fpow c g m y = Built r <-> cgmy_valid r = true)
     /\ (cgmy_construct fgamma fpow c g m y = RaisesValueError <-> cgmy_valid r = false))
  /\ (forall sigma, let r := bs_build sigma in
     (bs_construct sigma = Built r <-> bs_valid r = true) /\ (bs_construct sigma = RaisesValueError <-> bs_valid r = false)).
Proof.
  repeat apply conj; intros; subst r;
    unfold hem_construct, merton_construct, vg_construct, cgmy_construct, bs_construct, merton_defined, cgmy_defined, bs_defined; cbv zeta;
    repeat match goal with |- context [if ?b then _ else _] => destruct b eqn:? end;
    repeat split; intros; try discriminate; try congruence; try tauto;
    repeat match goal with H : _ /\ _ |- _ => destruct H end; try discriminate; try congruence.
Qed.
End Assign.

(* ------------------------------------------------------------------ statements as they appear in Properties/C20.v *)
Lemma init_eq_reinit_all : forall (fsqrt fgamma : Q -> Q) (fpow : Q -> Q -> Q),
  (forall sigma p eta1 eta2 intensity, hem_init_xi sigma p eta1 eta2 intensity = hem_reinit_xi sigma p eta1 eta2 intensity)
  /\ (forall sigma nu theta,
        vg_init_c fsqrt sigma nu theta = vg_reinit_c fsqrt sigma nu theta
        /\ vg_init_lambda_p fsqrt sigma nu theta = vg_reinit_lambda_p fsqrt sigma nu theta
        /\ vg_init_lambda_m fsqrt sigma nu theta = vg_reinit_lambda_m fsqrt sigma nu theta)
  /\ (forall c g m y,
        cgmy_init_CGammamY fgamma fpow c g m y = cgmy_reinit_CGammamY fgamma fpow c g m y
        /\ cgmy_init_MpowerY fgamma fpow c g m y = cgmy_reinit_MpowerY fgamma fpow c g m y
        /\ cgmy_init_GpowerY fgamma fpow c g m y = cgmy_reinit_GpowerY fgamma fpow c g m y)
  /\ (forall sigma, bs_init_variance sigma = bs_reinit_variance sigma).
Proof.
  intros. repeat apply conj.
  - exact hem_init_eq_reinit. - exact (vg_init_eq_reinit fsqrt). - exact (cgmy_init_eq_reinit fgamma fpow). - exact bs_init_eq_reinit.
Qed.

Lemma sync_after_any_history_all : forall (fsqrt fgamma : Q -> Q) (fpow : Q -> Q -> Q),
  (forall sigma p eta1 eta2 intensity r0 ops, hem_construct sigma p eta1 eta2 intensity = Built r0 ->
     hem_rebuild (hem_run ops r0) = hem_initialisation_checked (hem_run ops r0))
  /\ (forall sigma mu_j sigma_j intensity r0 ops, merton_construct sigma mu_j sigma_j intensity = Built r0 ->
     merton_rebuild (merton_run ops r0) = merton_initialisation_checked (merton_run ops r0))
  /\ (forall sigma nu theta r0 ops, vg_construct fsqrt sigma nu theta = Built r0 ->
     vg_rebuild fsqrt (vg_run ops r0) = vg_initialisation_checked fsqrt (vg_run ops r0))
  /\ (forall c g m y r0 ops, cgmy_construct fgamma fpow c g m y = Built r0 ->
     cgmy_rebuild fgamma fpow (cgmy_run ops r0) = cgmy_initialisation_checked fgamma fpow (cgmy_run ops r0))
  /\ (forall sigma r0 ops, bs_construct sigma = Built r0 ->
     bs_rebuild (bs_run ops r0) = bs_initialisation_checked (bs_run ops r0)).
Proof.
  intros. repeat apply conj; intros.
  - apply hem_sync. eapply hem_construct_valid; eassumption.
  - apply merton_sync. eapply merton_construct_valid; eassumption.
  - apply vg_sync. eapply vg_construct_valid; eassumption.
  - apply cgmy_sync. eapply cgmy_construct_valid; eassumption.
  - apply bs_sync. eapply bs_construct_valid; eassumption.
Qed.

(* where the formulas are defined both paths succeed with the same object; elsewhere both raise ZeroDivisionError;
   and `defined` means: no float division by zero *)
Lemma sync_outcomes_all : forall (fsqrt fgamma : Q -> Q) (fpow : Q -> Q -> Q),
  (forall r, hem_initialisation_checked r = (if hem_defined r then Built (hem_initialisation r) else RaisesZeroDivisionError))
  /\ (forall r, hem_defined r = true <-> ~ h_eta1 r == 1 /\ ~ h_eta2 r == -(1))
  /\ (forall r, vg_initialisation_checked fsqrt r = (if vg_defined r then Built (vg_initialisation fsqrt r) else RaisesZeroDivisionError))
  /\ (forall r, vg_defined r = true <-> ~ v_nu r == 0 /\ ~ v_sigma r == 0)
  /\ (forall r, merton_initialisation_checked r = Built r)
  /\ (forall r, cgmy_initialisation_checked fgamma fpow r = Built (cgmy_initialisation fgamma fpow r))
  /\ (forall r, bs_initialisation_checked r = Built (bs_initialisation r)).
Proof.
  intros. repeat apply conj; try reflexivity.
  - exact hem_defined_spec. - exact vg_defined_spec.
Qed.

Lemma constraints_all :
  (forall r f v, hem_guard f v = false -> hem_set r f v = (r, false))
  /\ (forall r f v, hem_guard f v = true -> hem_set r f v = (hem_write f v r, true))
  /\ (forall v, (hem_guard HSigma v = true <-> 0 <= v) /\ (hem_guard HP v = true <-> 0 <= v /\ v <= 1) /\ (hem_guard HEta1 v = true <-> 0 < v)
        /\ (hem_guard HEta2 v = true <-> 0 < v) /\ (hem_guard HIntensity v = true <-> 0 <= v) /\ hem_guard HXi v = true)
  /\ (forall r f v, merton_guard f v = false -> merton_set r f v = (r, false))
  /\ (forall r f v, merton_guard f v = true -> merton_set r f v = (merton_write f v r, true))
  /\ (forall v, (merton_guard MSigma v = true <-> 0 <= v) /\ (merton_guard MMuJ v = true <-> 0 <= v)
        /\ (merton_guard MSigmaJ v = true <-> 0 < v) /\ (merton_guard MIntensity v = true <-> 0 <= v))
  /\ (forall r f v, vg_guard f v = false -> vg_set r f v = (r, false))
  /\ (forall r f v, vg_guard f v = true -> vg_set r f v = (vg_write f v r, true))
  /\ (forall v, (vg_guard VSigma v = true <-> 0 <= v) /\ vg_guard VNu v = true /\ vg_guard VTheta v = true
        /\ vg_guard VC v = true /\ vg_guard VLambdaP v = true /\ vg_guard VLambdaM v = true)
  /\ (forall r f v, cgmy_guard f v = false -> cgmy_set r f v = (r, false))
  /\ (forall r f v, cgmy_guard f v = true -> cgmy_set r f v = (cgmy_write f v r, true))
  /\ (forall v, (cgmy_guard CC v = true <-> 0 < v) /\ (cgmy_guard CG v = true <-> 0 <= v) /\ (cgmy_guard CM v = true <-> 0 <= v)
        /\ (cgmy_guard CY v = true <-> v < 2) /\ cgmy_guard CCGammamY v = true /\ cgmy_guard CMpowerY v = true /\ cgmy_guard CGpowerY v = true)
  /\ (forall r f v, bs_guard f v = false -> bs_set r f v = (r, false))
  /\ (forall r f v, bs_guard f v = true -> bs_set r f v = (bs_write f v r, true))
  /\ (forall v, (bs_guard BSigma v = true <-> 0 <= v) /\ bs_guard BVariance v = true).
Proof.
  repeat apply conj.
  - exact hem_set_rejects. - exact hem_set_accepts. - exact hem_guard_spec.
  - exact merton_set_rejects. - exact merton_set_accepts. - exact merton_guard_spec.
  - exact vg_set_rejects. - exact vg_set_accepts. - exact vg_guard_spec.
  - exact cgmy_set_rejects. - exact cgmy_set_accepts. - exact cgmy_guard_spec.
  - exact bs_set_rejects. - exact bs_set_accepts. - exact bs_guard_spec.
Qed.

(* generic part: any record class with a setter, a CHECKED initialisation and a price *)
Lemma calibration_heap_all : forall (Rec Field : Type) (set : Rec -> Field -> Q -> Rec * bool) (initialisation : Rec -> outcome Rec)
    (price : Rec -> Q) (dflt : Rec) (h : list Rec) (p : nat) (f : Field) (market : Q) (xs : list Q) (x : Q),
  (p < length h)%nat ->
  (* calibrate_model_parameter leaves every pre-existing object as it was, whatever trial values the root finder used *)
  (forall h', calibrate_model_parameter Rec Field set initialisation price dflt false h p f market xs = Some h' ->
      forall p', (p' < length h)%nat -> load Rec dflt h' p' = load Rec dflt h p')
  (* a trial value on which the setter or the re-initialisation raises makes the whole calibration raise *)
  /\ (forall alias y, (forall r, assign_init Rec Field set initialisation r f y = None) -> In y xs ->
      calibrate_model_parameter Rec Field set initialisation price dflt alias h p f market xs = None)
  /\ ((forall r, assign_init Rec Field set initialisation r f x = None) ->
      run_default_calibration Rec Field set initialisation price dflt h p f market xs x = None)
  (* MUST SUCCEED: if every trial value and x are assignable and re-initialisable on the records that can occur *)
  /\ (forall Inv : Rec -> Prop, Inv (load Rec dflt h p) ->
      (forall y r, In y (x :: xs) -> Inv r -> exists r', assign_init Rec Field set initialisation r f y = Some r' /\ Inv r') ->
      exists h' q, run_default_calibration Rec Field set initialisation price dflt h p f market xs x = Some (h', q))
  (* run_default_calibration: input untouched; the result is a NEW object = checked initialisation(input with f := x) *)
  /\ (forall h' q, run_default_calibration Rec Field set initialisation price dflt h p f market xs x = Some (h', q) ->
      (forall p', (p' < length h)%nat -> load Rec dflt h' p' = load Rec dflt h p')
      /\ (length h <= q)%nat
      /\ assign_init Rec Field set initialisation (load Rec dflt h p) f x = Some (load Rec dflt h' q)
      (* IF brentq kept its promise (bracket of width delta with a sign change of the objective g - market) and the price g
         is L-Lipschitz in the calibrated parameter on [a,b], THEN x is in [a,b] and the returned model reprices within L*delta *)
      /\ (forall (g : Q -> Q) a b delta L, 0 <= L ->
            (forall y, a <= y /\ y <= b -> exists r', assign_init Rec Field set initialisation (load Rec dflt h p) f y = Some r' /\ price r' = g y) ->
            Lipschitz g a b L -> BrentSpec (fun y => g y - market) a b delta x ->
            (a <= x /\ x <= b) /\ Qabs (price (load Rec dflt h' q) - market) <= L * delta)).
Proof.
  intros Rec Field set initialisation price dflt h p f market xs x Hp. repeat apply conj.
  - intros h' H. eapply calibrate_input_untouched. exact H.
  - intros alias y Hrej Hin. eapply calibrate_rejected; eassumption.
  - apply run_default_rejected.
  - intros Inv HI Hacc. eapply run_default_succeeds; eassumption.
  - intros h' q H. destruct (run_default_spec _ _ _ _ _ _ _ _ _ _ _ _ _ _ Hp H) as (A & B & C).
    split; [exact A|]. split; [exact B|]. split; [exact C|].
    intros g a b delta L HL Hg Hlip Hb.
    destruct (brent_reprices g market a b delta x L HL Hlip Hb) as [Hx Hr]. split; [exact Hx|].
    destruct (Hg x Hx) as (r' & E & Ep). rewrite C in E. inversion E; subst. rewrite Ep. exact Hr.
Qed.

(* class-specific part: when assignment + re-initialisation succeeds and what it gives; the objective brentq sees on its working
   copy does not depend on the earlier trial values; the parameters of the returned model are what the constructor builds *)
Lemma calibration_classes_all : forall (fsqrt fgamma : Q -> Q) (fpow : Q -> Q -> Q),
  (forall r f x, assign_init HemRec HemField hem_set hem_initialisation_checked r f x
       = if hem_guard f x && hem_defined (hem_write f x r) then Some (hem_initialisation (hem_write f x r)) else None)
  /\ (forall r f x y r1, assign_init HemRec HemField hem_set hem_initialisation_checked r f y = Some r1 ->
       assign_init HemRec HemField hem_set hem_initialisation_checked r1 f x = assign_init HemRec HemField hem_set hem_initialisation_checked r f x)
  /\ (forall r f x, hem_valid r = true -> hem_rebuild (fst (hem_set r f x)) = hem_initialisation_checked (fst (hem_set r f x)))
  /\ (forall r f x, assign_init MertonRec MertonField merton_set merton_initialisation_checked r f x
       = if merton_guard f x then Some (merton_write f x r) else None)
  /\ (forall r f x y r1, assign_init MertonRec MertonField merton_set merton_initialisation_checked r f y = Some r1 ->
       assign_init MertonRec MertonField merton_set merton_initialisation_checked r1 f x
       = assign_init MertonRec MertonField merton_set merton_initialisation_checked r f x)
  /\ (forall r f x, merton_valid r = true -> merton_rebuild (fst (merton_set r f x)) = merton_initialisation_checked (fst (merton_set r f x)))
  /\ (forall r f x, assign_init VgRec VgField vg_set (vg_initialisation_checked fsqrt) r f x
       = if vg_guard f x && vg_defined (vg_write f x r) then Some (vg_initialisation fsqrt (vg_write f x r)) else None)
  /\ (forall r f x y r1, assign_init VgRec VgField vg_set (vg_initialisation_checked fsqrt) r f y = Some r1 ->
       assign_init VgRec VgField vg_set (vg_initialisation_checked fsqrt) r1 f x = assign_init VgRec VgField vg_set (vg_initialisation_checked fsqrt) r f x)
  /\ (forall r f x, vg_valid r = true -> vg_rebuild fsqrt (fst (vg_set r f x)) = vg_initialisation_checked fsqrt (fst (vg_set r f x)))
  /\ (forall r f x, assign_init CgmyRec CgmyField cgmy_set (cgmy_initialisation_checked fgamma fpow) r f x
       = if cgmy_guard f x then Some (cgmy_initialisation fgamma fpow (cgmy_write f x r)) else None)
  /\ (forall r f x y r1, assign_init CgmyRec CgmyField cgmy_set (cgmy_initialisation_checked fgamma fpow) r f y = Some r1 ->
       assign_init CgmyRec CgmyField cgmy_set (cgmy_initialisation_checked fgamma fpow) r1 f x
       = assign_init CgmyRec CgmyField cgmy_set (cgmy_initialisation_checked fgamma fpow) r f x)
  /\ (forall r f x, cgmy_valid r = true ->
       cgmy_rebuild fgamma fpow (fst (cgmy_set r f x)) = cgmy_initialisation_checked fgamma fpow (fst (cgmy_set r f x)))
  /\ (forall r f x, assign_init BsRec BsField bs_set bs_initialisation_checked r f x
       = if bs_guard f x then Some (bs_initialisation (bs_write f x r)) else None)
  /\ (forall r f x y r1, assign_init BsRec BsField bs_set bs_initialisation_checked r f y = Some r1 ->
       assign_init BsRec BsField bs_set bs_initialisation_checked r1 f x = assign_init BsRec BsField bs_set bs_initialisation_checked r f x)
  /\ (forall r f x, bs_valid r = true -> bs_rebuild (fst (bs_set r f x)) = bs_initialisation_checked (fst (bs_set r f x))).
Proof.
  intros. repeat apply conj.
  - exact hem_assign_spec. - exact hem_assign_absorbs. - intros r f x H. exact (hem_sync [(f, x)] r H).
  - exact merton_assign_spec. - exact merton_assign_absorbs. - intros r f x H. exact (merton_sync [(f, x)] r H).
  - exact (vg_assign_spec fsqrt). - exact (vg_assign_absorbs fsqrt). - intros r f x H. exact (vg_sync fsqrt [(f, x)] r H).
  - exact (cgmy_assign_spec fgamma fpow). - exact (cgmy_assign_absorbs fgamma fpow). - intros r f x H. exact (cgmy_sync fgamma fpow [(f, x)] r H).
  - exact bs_assign_spec. - exact bs_assign_absorbs. - intros r f x H. exact (bs_sync [(f, x)] r H).
Qed.

(* non-vacuity + the variant without the deep copy DOES modify the input *)
Lemma nonvacuous_c20 :
  match hem_construct (1#20) (3#5) 20 25 3 with
  | Built r0 =>
      let r := hem_run [(HEta1, 10); (HP, -1); (HXi, 7); (HP, 1#2)] r0 in
      snd (hem_set r0 HP (-1)) = false /\ h_p r = 1#2 /\ h_xi r = 7
      /\ Qeq_bool (h_xi (hem_initialisation r)) ((5#9) + (25#52) - 1) = true
      /\ hem_rebuild r = Built (hem_initialisation r)
      (* calibration on a one-object heap: with the deep copy the input survives two trials, without it it does not *)
      /\ (match calibrate_model_parameter HemRec HemField hem_set hem_initialisation_checked h_xi r0 false [r0] 0 HSigma 0 [1#2; 1#4] with
          | Some h' => Qeq_bool (h_sigma (load HemRec r0 h' 0)) (1#20) && Qeq_bool (h_sigma (load HemRec r0 h' 1)) (1#4) | None => false end = true)
      /\ (match calibrate_model_parameter HemRec HemField hem_set hem_initialisation_checked h_xi r0 true [r0] 0 HSigma 0 [1#2; 1#4] with
          | Some h' => Qeq_bool (h_sigma (load HemRec r0 h' 0)) (1#4) | None => false end = true)
      /\ calibrate_model_parameter HemRec HemField hem_set hem_initialisation_checked h_xi r0 false [r0] 0 HSigma 0 [1#2; -(1#4)] = None
      /\ calibrate_model_parameter HemRec HemField hem_set hem_initialisation_checked h_xi r0 false [r0] 0 HEta1 0 [2; 1] = None
  | _ => False
  end
  /\ hem_construct (1#20) (-1) 20 25 3 = RaisesValueError
  /\ hem_construct (1#20) (3#5) 1 25 3 = RaisesZeroDivisionError
  /\ vg_construct (fun x => x) 0 (1#10) 0 = RaisesZeroDivisionError
  /\ cgmy_construct (fun x => x) (fun x y => x) 1 15 20 2 = RaisesValueError
  /\ BrentSpec (fun y => y - (1#3)) 0 1 (1#100) (1#3) /\ Lipschitz (fun y => y) 0 1 1.
Proof.
  split. { vm_compute. repeat split. }
  split. { vm_compute. reflexivity. }
  split. { vm_compute. reflexivity. }
  split. { vm_compute. reflexivity. }
  split. { vm_compute. reflexivity. }
  split.
  - exists (33#100), (34#100). vm_compute. repeat split; discriminate.
  - intros y z _ _. assert (E : 1 * Qabs (y - z) == Qabs (y - z)) by ring. rewrite E. apply Qle_refl.
Qed.

(* TIE2 -- AliasMethod._draw_with_u regenerated from rpylib/distribution/variate/alias.py (Gen/GenTieAlias.v) is the hand
   model Alias.alias_draw that the C02 alias theorems are about.  np.uint(ku) is read as Qfloor ku, which is numpy's
   truncation for ku = K u >= 0: the lemma carries 0 <= u.  Python ints are Z in the generated code and nat in the hand
   model (K, the column x, the alias table J). *)
From Coq Require Import ZArith QArith Qround List Bool Lia.
From RV Require Import Base.QB Proofs.Tie_PyLoops Model.Alias Gen.GenTieAlias.
Import ListNotations.
Open Scope Q_scope.

Lemma qfloor_nonneg x : 0 <= x -> (0 <= Qfloor x)%Z.
Proof. intros H. change 0%Z with (Qfloor 0). now apply Qfloor_resp_le. Qed.

Theorem gen_draw_with_u_eq_model (K : nat) q (J : list nat) u : 0 <= u ->
  GenTieAlias.draw_with_u (Z.of_nat K) q (map Z.of_nat J) u = Z.of_nat (Alias.alias_draw K q J u).
Proof.
  intros Hu. unfold GenTieAlias.draw_with_u, Alias.alias_draw. cbv zeta.
  assert (H0 : (0 <= Qfloor (inject_Z (Z.of_nat K) * u))%Z).
  { apply qfloor_nonneg. apply Qmult_le_0_compat; [|assumption].
    change 0 with (inject_Z 0). rewrite <- Zle_Qle. lia. }
  set (f := Qfloor (inject_Z (Z.of_nat K) * u)) in *.
  rewrite Z2Nat.id by assumption.
  rewrite !py_nth_nonneg by assumption.
  destruct (Qltb _ _); [now rewrite Z2Nat.id|].
  change 0%Z with (Z.of_nat 0). now rewrite map_nth.
Qed.

(* non-vacuity: K = 4, u = 5/8: ku = 5/2, column 2, v = 1/2; q[2] = 1/4 sends the draw to the alias J[2] = 3,
   q[2] = 3/4 keeps column 2 *)
Example gen_draw_with_u_runs :
  GenTieAlias.draw_with_u 4 [1; 1; 1#4; 1] [0; 0; 3; 0]%Z (5#8) = 3%Z
  /\ GenTieAlias.draw_with_u 4 [1; 1; 3#4; 1] [0; 0; 3; 0]%Z (5#8) = 2%Z
  /\ Alias.alias_draw 4 [1; 1; 1#4; 1] [0; 0; 3; 0]%nat (5#8) = 3%nat.
Proof. repeat split; vm_compute; reflexivity. Qed.

(* TIE -- BinarySearchTree.sample_with_u regenerated from rpylib/distribution/variate/binarysearchtree.py
   (Gen/GenTieBst.v: the `while ptr <= self.K` descent as a fuelled py_while, fuel K + 1, error value -1) is equal to the
   hand model Model/Bst.v (bst_sample / bst_descend) that the C02 theorems are about; in particular the fuel the
   generated definition runs with is always sufficient (ptr at least doubles), so the error value is never returned. *)
From Coq Require Import ZArith QArith List Bool Lia.
From RV Require Import Base.QB Proofs.Tie_PyLoops Model.Bst Gen.GenTieBst.
Import ListNotations.
Open Scope Q_scope.

Definition gen_cond (k : nat) (ptr : Z) : bool := Z.leb ptr (Z.of_nat k).
Definition gen_body (bst : list Q) (u : Q) (ptr : Z) : Z :=
  if Qltb u (py_nth (0 # 1) bst (Z.sub ptr 1)) then Z.mul 2 ptr else Z.add (Z.mul 2 ptr) 1.

Lemma descend_loop k bst u : forall f p, (1 <= p)%nat -> (1 <= f)%nat -> (k + 2 <= f + p)%nat ->
  py_while f (gen_cond k) (gen_body bst u) (Z.of_nat p) = Some (Z.of_nat (bst_descend f k bst u p)).
Proof.
  induction f as [|f IH]; intros p Hp Hf Hk; [lia|].
  simpl py_while. simpl bst_descend. unfold gen_cond at 1.
  replace (Z.leb (Z.of_nat p) (Z.of_nat k)) with (Nat.leb p k)
    by (destruct (Nat.leb_spec p k); destruct (Z.leb_spec (Z.of_nat p) (Z.of_nat k)); try reflexivity; lia).
  destruct (Nat.leb_spec p k) as [Hle|Hgt]; [|reflexivity].
  unfold gen_body at 2.
  replace (Z.sub (Z.of_nat p) 1) with (Z.of_nat (p - 1)) by lia. rewrite py_nth_nat.
  destruct (Qltb u (nth (p - 1) bst 0)).
  - replace (Z.mul 2 (Z.of_nat p)) with (Z.of_nat (2 * p)) by lia. apply IH; lia.
  - replace (Z.add (Z.mul 2 (Z.of_nat p)) 1) with (Z.of_nat (2 * p + 1)) by lia. apply IH; lia.
Qed.

Theorem gen_sample_with_u_eq_model (k : nat) bst u :
  GenTieBst.sample_with_u (Z.of_nat k) bst u = Bst.bst_sample k bst u.
Proof.
  unfold GenTieBst.sample_with_u, Bst.bst_sample. cbv zeta. rewrite Nat2Z.id.
  change (py_while (S k) _ _ 1%Z) with (py_while (S k) (gen_cond k) (gen_body bst u) (Z.of_nat 1)).
  rewrite descend_loop by lia. reflexivity.
Qed.

(* the error value of the generated definition is never produced *)
Corollary gen_sample_with_u_fuel_suffices (k : nat) bst u :
  (- Z.of_nat k <= GenTieBst.sample_with_u (Z.of_nat k) bst u)%Z.
Proof.
  rewrite gen_sample_with_u_eq_model. unfold bst_sample.
  assert (H : forall f p, (1 <= p)%nat -> (p <= bst_descend f k bst u p)%nat).
  { induction f as [|f IH]; intros p Hp; simpl; [lia|].
    destruct (p <=? k)%nat; [|lia]. destruct (Qltb u _); (etransitivity; [|apply IH]); lia. }
  specialize (H (S k) 1%nat). lia.
Qed.

(* non-vacuity: K = 3 internal nodes over 4 states; the generated loop, run by vm_compute, selects the states the hand
   model selects, one per sub-interval *)
Example gen_sample_with_u_runs :
  let bst := [1#2; 1#4; 3#4] in
  map (GenTieBst.sample_with_u 3 bst) [1#8; 3#8; 5#8; 7#8] = [0; 1; 2; 3]%Z
  /\ map (GenTieBst.sample_with_u 3 bst) [1#8; 3#8; 5#8; 7#8] = map (Bst.bst_sample 3 bst) [1#8; 3#8; 5#8; 7#8].
Proof. split; vm_compute; reflexivity. Qed.

(* TIE -- the grid-cell helpers and the rate vector regenerated from the source (Gen/GenTieChain.v:
   CTMCGrid.left_point / right_point / middle(float, float) of rpylib/grid/spatial.py and create_q_vector of
   rpylib/distribution/samplingfactory.py, its numpy loop included) are equal to the hand models Model/Grid.v
   (left_point, right_point, amid) and Model/Chain.v (q_vector) that the C01 / C13 / C04 theorems are about.
   TIE2: compute_intensity_of_jumps specialised to a 1-d model (list comprehension, enumerate(zip(..)),
   itertools.product over the intervals, next(..) and the loop over the remaining blocks unrolled at translation time) is equal
   to Chain.intensity1, the total jump rate of the C01 / C19 theorems.
   Python ints are Z in the generated code and nat in the hand models: the lemmas are stated at Z.of_nat. *)
From Coq Require Import ZArith QArith List Bool Lia.
From RV Require Import Base.QB Proofs.Tie_PyLoops Model.Grid Model.Chain Gen.GenTieChain.
Import ListNotations.
Open Scope Q_scope.

Lemma gen_middle_eq_model x y : GenTieChain.middle x y = Grid.amid x y.
Proof. reflexivity. Qed.

Lemma gen_left_point_eq_model xs (k : nat) : GenTieChain.left_point xs (Z.of_nat k) = Grid.left_point xs k.
Proof.
  unfold GenTieChain.left_point, Grid.left_point, nthq.
  rewrite py_nth_nonneg by lia. f_equal. lia.
Qed.

Lemma gen_right_point_eq_model xs (k : nat) : GenTieChain.right_point xs (Z.of_nat k) = Grid.right_point xs k.
Proof.
  unfold GenTieChain.right_point, Grid.right_point, nthq, py_len.
  destruct xs as [|a r].
  - simpl length. destruct (Nat.min (0 - 1) (k + 1)); unfold py_nth; simpl;
      destruct (Z.min (0 - 1) (Z.of_nat k + 1) <? 0)%Z; try destruct (_ <? _)%Z; try reflexivity;
      destruct (Z.to_nat _); reflexivity.
  - rewrite py_nth_nonneg by (simpl length; lia). f_equal. simpl length. lia.
Qed.

(* wave 8 (audit5a X-d) -- the singledispatch variants the call sites dispatch to, regenerated from their own source text
   (spatial.py `@left_point.register _(coordinate: Coordinate1D)` etc., Grid.__getitem__, LevyModel.mass on 1-tuples), are the
   int variant / the plain index / the measure's integrate.  These are the lemmas that make "regenerated from the source" true of
   compute_intensity_of_jumps and of the coupling: an edit of a registered variant now changes a generated term and breaks them. *)
Lemma gen_left_point_c1d_eq_int xs c : GenTieChain.left_point_c1d xs c = GenTieChain.left_point xs c.
Proof. reflexivity. Qed.

Lemma gen_right_point_c1d_eq_int xs c : GenTieChain.right_point_c1d xs c = GenTieChain.right_point xs c.
Proof. reflexivity. Qed.

Lemma gen_getitem_c1d_eq_nth xs c : GenTieChain.getitem_c1d xs c = py_nth 0 xs c.
Proof. reflexivity. Qed.

Lemma gen_levymodel_mass_1d_eq_integrate (nu : Q -> Q -> Q) a b : GenTieChain.levymodel_mass_1d nu a b = nu a b.
Proof. reflexivity. Qed.

(* CoordinateND variants on two axes: left_point acts per axis; right_point clamps BOTH axes with len(axes[0]) (the FIXME of
   spatial.py); middle (tuple variant) is the float variant per component *)
Lemma gen_left_point_nd2_eq_per_axis xs ys c0 c1 :
  GenTieChain.left_point_nd2 xs ys c0 c1 = (GenTieChain.left_point xs c0, GenTieChain.left_point ys c1).
Proof. reflexivity. Qed.

Lemma gen_right_point_nd2_eq_first_axis_clamp xs ys c0 c1 :
  GenTieChain.right_point_nd2 xs ys c0 c1 =
  (GenTieChain.right_point xs c0, py_nth 0 ys (Z.min (py_len xs - 1) (c1 + 1))).
Proof. reflexivity. Qed.

Lemma gen_right_point_nd2_eq_per_axis xs ys c0 c1 :
  (Z.min (py_len xs - 1) (c1 + 1) = Z.min (py_len ys - 1) (c1 + 1))%Z ->
  GenTieChain.right_point_nd2 xs ys c0 c1 = (GenTieChain.right_point xs c0, GenTieChain.right_point ys c1).
Proof. intros H. rewrite gen_right_point_nd2_eq_first_axis_clamp. unfold GenTieChain.right_point. rewrite H. reflexivity. Qed.

Lemma gen_middle_nd2_eq_per_axis a b :
  GenTieChain.middle_nd2 a b = (GenTieChain.middle (fst a) (fst b), GenTieChain.middle (snd a) (snd b)).
Proof. reflexivity. Qed.

(* the clamp matters: origin on the last point of a SHORTER first axis -- the code's neighbour on the second axis is the origin
   itself, the per-axis reading (hand model Grid.right_point) gives the next state *)
Example gen_right_point_nd2_first_axis_clamp_differs :
  let xs := [-(2#1); -(1#1); 0] in
  let ys := [-(2#1); -(1#1); 0; 1#1; 2#1] in
  snd (GenTieChain.right_point_nd2 xs ys 2 2) = 0 /\ GenTieChain.right_point ys 2 = 1#1.
Proof. split; vm_compute; reflexivity. Qed.

(* create_q_vector: np.zeros + the enumerate loop with the conditional store = the list of the q_entry's *)
Theorem gen_create_q_vector_eq_model (mass mid : Q -> Q -> Q) xs (o : nat) :
  GenTieChain.create_q_vector mass mid xs (Z.of_nat o) = Chain.q_vector mid mass xs o.
Proof.
  unfold GenTieChain.create_q_vector, Chain.q_vector. cbv zeta.
  rewrite (fold_enumerate_seq 0).
  rewrite (fold_left_ext _
    (fun q k => if negb (Nat.eqb k o)
                then py_set q (Z.of_nat k) (mass (cell_lo mid xs k) (cell_hi mid xs k)) else q)).
  - unfold py_len. rewrite (fold_set_seq 0 (fun k => negb (Nat.eqb k o))).
    apply map_ext. intros k. unfold q_entry. destruct (Nat.eqb k o); reflexivity.
  - intros q k _. cbv beta iota zeta.
    replace (Z.eqb (Z.of_nat k) (Z.of_nat o)) with (Nat.eqb k o)
      by (destruct (Nat.eqb_spec k o); destruct (Z.eqb_spec (Z.of_nat k) (Z.of_nat o)); try reflexivity; lia).
    destruct (Nat.eqb k o); [reflexivity|]. simpl negb. cbv iota.
    unfold cell_lo, cell_hi. rewrite gen_left_point_eq_model, gen_right_point_eq_model. reflexivity.
Qed.

(* non-vacuity: a 5-point axis, origin at 2, the generated loop run by vm_compute gives the hand model's vector and
   it is not the zero vector *)
Example gen_create_q_vector_runs :
  let xs := [-(2#1); -(1#1); 0; 1#1; 3#1] in
  let mass := fun a b => b - a in
  GenTieChain.create_q_vector mass GenTieChain.middle xs 2 = Chain.q_vector Grid.amid mass xs 2
  /\ map Qred (GenTieChain.create_q_vector mass GenTieChain.middle xs 2) = [1#2; 1#1; 0; 3#2; 1#1].
Proof. split; vm_compute; reflexivity. Qed.

(* TIE2 -- compute_intensity_of_jumps, 1-d model: the two blocks [x_0, h_l], [h_r, x_n] that itertools.product leaves after
   next(..) dropped [h_l, h_r], their masses added from 0 in that order *)
Theorem gen_compute_intensity_of_jumps_1d_eq_model (mass mid : Q -> Q -> Q) xs (o : nat) :
  GenTieChain.compute_intensity_of_jumps_1d mass mid xs (Z.of_nat o) = Chain.intensity1 mid mass xs o.
Proof.
  unfold GenTieChain.compute_intensity_of_jumps_1d, Chain.intensity1, Chain.h_left, Chain.h_right. cbv zeta.
  rewrite !gen_levymodel_mass_1d_eq_integrate, gen_left_point_c1d_eq_int, gen_right_point_c1d_eq_int.
  rewrite gen_left_point_eq_model, gen_right_point_eq_model.
  change (Z.opp 1%Z) with (-1)%Z. rewrite py_nth_last, py_nth_head. reflexivity.
Qed.

(* non-vacuity: mass(a, b) = b - a on the 5-point axis: [x_0, h_l] = [-2, -1/2] and [h_r, x_n] = [1/2, 3] weigh 3/2 + 5/2 *)
Example gen_compute_intensity_of_jumps_1d_runs :
  let xs := [-(2#1); -(1#1); 0; 1#1; 3#1] in
  let mass := fun a b => b - a in
  GenTieChain.compute_intensity_of_jumps_1d mass GenTieChain.middle xs 2 = Chain.intensity1 Grid.amid mass xs 2
  /\ Qred (GenTieChain.compute_intensity_of_jumps_1d mass GenTieChain.middle xs 2) = 4#1.
Proof. split; vm_compute; reflexivity. Qed.

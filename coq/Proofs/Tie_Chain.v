(* TIE -- the grid-cell helpers and the rate vector regenerated from the source (Gen/GenTieChain.v:
   CTMCGrid.left_point / right_point / middle(float, float) of rpylib/grid/spatial.py and create_q_vector of
   rpylib/distribution/samplingfactory.py, its numpy loop included) are equal to the hand models Model/Grid.v
   (left_point, right_point, amid) and Model/Chain.v (q_vector) that the C01 / C13 / C04 theorems are about.
   TIE2: compute_intensity_of_jumps specialised to a 1-d model (list comprehension, enumerate(zip(..)),
   itertools.product over the intervals, next(..) and the loop over the remaining blocks unrolled at translation time) is equal
   to Chain.intensity1, the total jump rate of the C01 / C19 theorems.
   Python ints are Z in the generated code and nat in the hand models: the lemmas are stated at Z.of_nat. *)
From Coq Require Import ZArith QArith List Bool Lia.
From RV Require Import Base.QB Proofs.Tie_PyLoops Model.Grid Model.Chain Gen.GenTieChain.
Import ListNotations.
Open Scope Q_scope.

Lemma gen_middle_eq_model x y : GenTieChain.middle x y = Grid.amid x y.
Proof. reflexivity. Qed.

Lemma gen_left_point_eq_model xs (k : nat) : GenTieChain.left_point xs (Z.of_nat k) = Grid.left_point xs k.
Proof.
  unfold GenTieChain.left_point, Grid.left_point, nthq.
  rewrite py_nth_nonneg by lia. f_equal. lia.
Qed.

Lemma gen_right_point_eq_model xs (k : nat) : GenTieChain.right_point xs (Z.of_nat k) = Grid.right_point xs k.
Proof.
  unfold GenTieChain.right_point, Grid.right_point, nthq, py_len.
  destruct xs as [|a r].
  - simpl length. destruct (Nat.min (0 - 1) (k + 1)); unfold py_nth; simpl;
      destruct (Z.min (0 - 1) (Z.of_nat k + 1) <? 0)%Z; try destruct (_ <? _)%Z; try reflexivity;
      destruct (Z.to_nat _); reflexivity.
  - rewrite py_nth_nonneg by (simpl length; lia). f_equal. simpl length. lia.
Qed.

(* create_q_vector: np.zeros + the enumerate loop with the conditional store = the list of the q_entry's *)
Theorem gen_create_q_vector_eq_model (mass mid : Q -> Q -> Q) xs (o : nat) :
  GenTieChain.create_q_vector mass mid xs (Z.of_nat o) = Chain.q_vector mid mass xs o.
Proof.
  unfold GenTieChain.create_q_vector, Chain.q_vector. cbv zeta.
  rewrite (fold_enumerate_seq 0).
  rewrite (fold_left_ext _
    (fun q k => if negb (Nat.eqb k o)
                then py_set q (Z.of_nat k) (mass (cell_lo mid xs k) (cell_hi mid xs k)) else q)).
  - unfold py_len. rewrite (fold_set_seq 0 (fun k => negb (Nat.eqb k o))).
    apply map_ext. intros k. unfold q_entry. destruct (Nat.eqb k o); reflexivity.
  - intros q k _. cbv beta iota zeta.
    replace (Z.eqb (Z.of_nat k) (Z.of_nat o)) with (Nat.eqb k o)
      by (destruct (Nat.eqb_spec k o); destruct (Z.eqb_spec (Z.of_nat k) (Z.of_nat o)); try reflexivity; lia).
    destruct (Nat.eqb k o); [reflexivity|]. simpl negb. cbv iota.
    unfold cell_lo, cell_hi. rewrite gen_left_point_eq_model, gen_right_point_eq_model. reflexivity.
Qed.

(* non-vacuity: a 5-point axis, origin at 2, the generated loop run by vm_compute gives the hand model's vector and
   it is not the zero vector *)
Example gen_create_q_vector_runs :
  let xs := [-(2#1); -(1#1); 0; 1#1; 3#1] in
  let mass := fun a b => b - a in
  GenTieChain.create_q_vector mass GenTieChain.middle xs 2 = Chain.q_vector Grid.amid mass xs 2
  /\ map Qred (GenTieChain.create_q_vector mass GenTieChain.middle xs 2) = [1#2; 1#1; 0; 3#2; 1#1].
Proof. split; vm_compute; reflexivity. Qed.

(* TIE2 -- compute_intensity_of_jumps, 1-d model: the two blocks [x_0, h_l], [h_r, x_n] that itertools.product leaves after
   next(..) dropped [h_l, h_r], their masses added from 0 in that order *)
Theorem gen_compute_intensity_of_jumps_1d_eq_model (mass mid : Q -> Q -> Q) xs (o : nat) :
  GenTieChain.compute_intensity_of_jumps_1d mass mid xs (Z.of_nat o) = Chain.intensity1 mid mass xs o.
Proof.
  unfold GenTieChain.compute_intensity_of_jumps_1d, Chain.intensity1, Chain.h_left, Chain.h_right. cbv zeta.
  rewrite gen_left_point_eq_model, gen_right_point_eq_model.
  change (Z.opp 1%Z) with (-1)%Z. rewrite py_nth_last, py_nth_head. reflexivity.
Qed.

(* non-vacuity: mass(a, b) = b - a on the 5-point axis: [x_0, h_l] = [-2, -1/2] and [h_r, x_n] = [1/2, 3] weigh 3/2 + 5/2 *)
Example gen_compute_intensity_of_jumps_1d_runs :
  let xs := [-(2#1); -(1#1); 0; 1#1; 3#1] in
  let mass := fun a b => b - a in
  GenTieChain.compute_intensity_of_jumps_1d mass GenTieChain.middle xs 2 = Chain.intensity1 Grid.amid mass xs 2
  /\ Qred (GenTieChain.compute_intensity_of_jumps_1d mass GenTieChain.middle xs 2) = 4#1.
Proof. split; vm_compute; reflexivity. Qed.

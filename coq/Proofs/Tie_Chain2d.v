(* TIE2 -- compute_intensity_of_jumps of rpylib/distribution/samplingfactory.py read for a 2-d model on a product grid
   (Gen/GenTieChain2d.v: the list comprehension over enumerate(zip(h_left, h_right)), itertools.product over the three
   intervals per axis, next(..) dropping the central block and the loop over the 8 remaining blocks with zip over c_set,
   all unrolled at translation time) is the hand model Chain.intensity2 that C01's 2-d rate theorems and C19's default
   rate are about.  The generated sum is associated to the left from 0, the model's qsum to the right: the statement
   is ==, every rectangle mass being syntactically the same term on both sides. *)
From Coq Require Import ZArith QArith List Bool Lia.
From RV Require Import Base.QB Proofs.Tie_PyLoops Model.Grid Model.Chain Gen.GenTieChain Gen.GenTieChain2d Proofs.Tie_Chain.
Import ListNotations.
Open Scope Q_scope.

Theorem gen_compute_intensity_of_jumps_2d_eq_model (mass2 : Q * Q -> Q * Q -> Q) (mid : Q -> Q -> Q) xs ys (o : nat) :
  GenTieChain2d.compute_intensity_of_jumps_2d mass2 mid xs ys (Z.of_nat o) == Chain.intensity2 mid mass2 xs ys o.
Proof.
  unfold GenTieChain2d.compute_intensity_of_jumps_2d, Chain.intensity2, Chain.blocks, Chain.h_left, Chain.h_right. cbv zeta.
  rewrite !gen_left_point_eq_model, !gen_right_point_eq_model.
  change (Z.opp 1%Z) with (-1)%Z. rewrite !py_nth_last, !py_nth_head.
  fold (headq xs) (headq ys) (lastq xs) (lastq ys).
  cbn [flat_map map app tl fst snd]. unfold Chain.qsum. cbn [fold_right]. ring.
Qed.

(* non-vacuity: mass of a rectangle = its area; the 8 outer blocks of [-2,3] x [-1,2] around [-1/2,1/2] x [-1/2,1/2]
   weigh 5 * 3 - 1 = 14 *)
Example gen_compute_intensity_of_jumps_2d_runs :
  let xs := [-(2#1); -(1#1); 0; 1#1; 3#1] in
  let ys := [-(1#1); -(1#1); 0; 1#1; 2#1] in
  let area := fun (a b : Q * Q) => (fst b - fst a) * (snd b - snd a) in
  Qred (GenTieChain2d.compute_intensity_of_jumps_2d area GenTieChain.middle xs ys 2) = 14#1
  /\ Qred (Chain.intensity2 Grid.amid area xs ys 2) = 14#1.
Proof. split; vm_compute; reflexivity. Qed.

(* wave 8 (audit5a X-d) -- the 2-d intensity with h_left / h_right built from the TRANSLATED CoordinateND variants of
   left_point / right_point and the tuple variant of middle (Gen/GenTieChain.v: left_point_nd2, right_point_nd2, middle_nd2), i.e.
   what compute_intensity_of_jumps executes on a two-axis CTMCGrid.  It is syntactically the older definition (whose h_left /
   h_right are the per-axis terms WRITTEN IN THE SPEC, `static_values`) once right_point's clamp len(axes[0]) agrees with the
   second axis' own clamp at the origin -- in particular for axes of equal length, or an origin that is not the last point of either
   axis.  gen_compute_intensity_of_jumps_2d_eq_model above is therefore a statement about the spec's reading; the two below are the
   ones about the code. *)
Definition clamp_agrees (xs ys : list Q) (o : Z) : Prop :=
  (Z.min (py_len xs - 1) (o + 1) = Z.min (py_len ys - 1) (o + 1))%Z.

Lemma clamp_agrees_same_length xs ys o : length xs = length ys -> clamp_agrees xs ys o.
Proof. unfold clamp_agrees, py_len. intros ->. reflexivity. Qed.

Lemma clamp_agrees_inner xs ys (o : nat) : (o + 1 < length xs)%nat -> (o + 1 < length ys)%nat -> clamp_agrees xs ys (Z.of_nat o).
Proof. unfold clamp_agrees, py_len. lia. Qed.

Theorem gen_compute_intensity_of_jumps_2d_nd_eq_spec_reading (mass2 : Q * Q -> Q * Q -> Q) xs ys o :
  clamp_agrees xs ys o ->
  GenTieChain2d.compute_intensity_of_jumps_2d_nd mass2 xs ys o
  = GenTieChain2d.compute_intensity_of_jumps_2d mass2 GenTieChain.middle xs ys o.
Proof.
  intros H. unfold GenTieChain2d.compute_intensity_of_jumps_2d_nd, GenTieChain2d.compute_intensity_of_jumps_2d.
  rewrite !gen_middle_nd2_eq_per_axis, !gen_left_point_nd2_eq_per_axis, !(gen_right_point_nd2_eq_per_axis xs ys o o H).
  reflexivity.
Qed.

Theorem gen_compute_intensity_of_jumps_2d_nd_eq_model (mass2 : Q * Q -> Q * Q -> Q) xs ys (o : nat) :
  clamp_agrees xs ys (Z.of_nat o) ->
  GenTieChain2d.compute_intensity_of_jumps_2d_nd mass2 xs ys (Z.of_nat o) == Chain.intensity2 Grid.amid mass2 xs ys o.
Proof.
  intros H. rewrite (gen_compute_intensity_of_jumps_2d_nd_eq_spec_reading mass2 xs ys _ H).
  apply gen_compute_intensity_of_jumps_2d_eq_model.
Qed.

(* the hypothesis is needed: first axis shorter, origin on its last point -- the code's h_right on the second axis is 0, the
   right-hand blocks of that axis start AT the origin, and the total differs from the hand model's *)
Example gen_compute_intensity_of_jumps_2d_nd_clamp_refuted :
  let xs := [-(2#1); -(1#1); 0] in
  let ys := [-(2#1); -(1#1); 0; 1#1; 2#1] in
  let area := fun (a b : Q * Q) => (fst b - fst a) * (snd b - snd a) in
  ~ clamp_agrees xs ys 2
  /\ Qred (GenTieChain2d.compute_intensity_of_jumps_2d_nd area xs ys 2) = 31#4
  /\ Qred (Chain.intensity2 Grid.amid area xs ys 2) = 15#2.
Proof. split; [vm_compute; discriminate|split; vm_compute; reflexivity]. Qed.

(* non-vacuity of the agreeing case (the grids CTMCGrid builds: equal lengths, origin in the middle) *)
Example gen_compute_intensity_of_jumps_2d_nd_runs :
  let xs := [-(2#1); -(1#1); 0; 1#1; 3#1] in
  let ys := [-(1#1); -(1#1); 0; 1#1; 2#1] in
  let area := fun (a b : Q * Q) => (fst b - fst a) * (snd b - snd a) in
  clamp_agrees xs ys 2 /\ Qred (GenTieChain2d.compute_intensity_of_jumps_2d_nd area xs ys 2) = 14#1.
Proof. split; vm_compute; reflexivity. Qed.

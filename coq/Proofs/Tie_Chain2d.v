(* TIE2 -- compute_intensity_of_jumps of rpylib/distribution/samplingfactory.py read for a 2-d model on a product grid
   (Gen/GenTieChain2d.v: the list comprehension over enumerate(zip(h_left, h_right)), itertools.product over the three
   intervals per axis, next(..) dropping the central block and the loop over the 8 remaining blocks with zip over c_set,
   all unrolled at translation time) is the hand model Chain.intensity2 that C01's 2-d rate theorems and C19's default
   rate are about.  The generated sum is associated to the left from 0, the model's qsum to the right: the statement
   is ==, every rectangle mass being syntactically the same term on both sides. *)
From Coq Require Import ZArith QArith List Bool Lia.
From RV Require Import Base.QB Proofs.Tie_PyLoops Model.Grid Model.Chain Gen.GenTieChain Gen.GenTieChain2d Proofs.Tie_Chain.
Import ListNotations.
Open Scope Q_scope.

Theorem gen_compute_intensity_of_jumps_2d_eq_model (mass2 : Q * Q -> Q * Q -> Q) (mid : Q -> Q -> Q) xs ys (o : nat) :
  GenTieChain2d.compute_intensity_of_jumps_2d mass2 mid xs ys (Z.of_nat o) == Chain.intensity2 mid mass2 xs ys o.
Proof.
  unfold GenTieChain2d.compute_intensity_of_jumps_2d, Chain.intensity2, Chain.blocks, Chain.h_left, Chain.h_right. cbv zeta.
  rewrite !gen_left_point_eq_model, !gen_right_point_eq_model.
  change (Z.opp 1%Z) with (-1)%Z. rewrite !py_nth_last, !py_nth_head.
  fold (headq xs) (headq ys) (lastq xs) (lastq ys).
  cbn [flat_map map app tl fst snd]. unfold Chain.qsum. cbn [fold_right]. ring.
Qed.

(* non-vacuity: mass of a rectangle = its area; the 8 outer blocks of [-2,3] x [-1,2] around [-1/2,1/2] x [-1/2,1/2]
   weigh 5 * 3 - 1 = 14 *)
Example gen_compute_intensity_of_jumps_2d_runs :
  let xs := [-(2#1); -(1#1); 0; 1#1; 3#1] in
  let ys := [-(1#1); -(1#1); 0; 1#1; 2#1] in
  let area := fun (a b : Q * Q) => (fst b - fst a) * (snd b - snd a) in
  Qred (GenTieChain2d.compute_intensity_of_jumps_2d area GenTieChain.middle xs ys 2) = 14#1
  /\ Qred (Chain.intensity2 Grid.amid area xs ys 2) = 14#1.
Proof. split; vm_compute; reflexivity. Qed.

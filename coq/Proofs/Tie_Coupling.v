(* TIE -- CouplingSimulation.probability_to_right_jump and coupling_state regenerated from
   rpylib/process/coupling/couplingmarkovchain.py (Gen/GenTieCoupling.v, over the generated left_point / right_point of
   Gen/GenTieChain.v) against the hand model Model/Coupling1d.v (prob_right, coupling_state) of the C03 theorems.
   The hand model returns None where Python raises ZeroDivisionError (val_left + val_right = 0.0); the generated
   definition uses Coq's total division there.  The theorems say: for a position inside the axis the model's answer is
   None exactly in that case and is otherwise `Some` of the generated value. *)
From Coq Require Import ZArith QArith List Bool Lia.
From RV Require Import Base.QB Proofs.Tie_PyLoops Model.Grid Model.Chain Model.Coupling1d Gen.GenTieChain Gen.GenTieCoupling
  Proofs.Tie_Chain.
Import ListNotations.
Open Scope Q_scope.

Section TieCoupling.
  Variable mid mass : Q -> Q -> Q.

  Definition denom (xs : list Q) (p : nat) : Q := val_left mid mass xs p + val_right mid mass xs p.

  Lemma position_Z (o : nat) inc : (0 <= Z.of_nat o + inc)%Z -> (Z.of_nat o + inc)%Z = Z.of_nat (position o inc).
  Proof. unfold position. lia. Qed.

  Theorem gen_probability_to_right_jump_eq_model xs (o : nat) inc : (0 <= Z.of_nat o + inc)%Z ->
    prob_right mid mass xs o inc =
    if Qeq_bool (denom xs (position o inc)) 0 then None
    else Some (GenTieCoupling.probability_to_right_jump mass mid xs (Z.of_nat o) inc).
  Proof.
    intros H. unfold prob_right, prob_right_at, denom. cbv zeta.
    destruct (Qeq_bool _ 0); [reflexivity|]. f_equal.
    unfold GenTieCoupling.probability_to_right_jump. cbv zeta.
    rewrite !gen_getitem_c1d_eq_nth, gen_left_point_c1d_eq_int, gen_right_point_c1d_eq_int.   (* wave 8: the dispatched variants *)
    rewrite (position_Z o inc H). rewrite gen_left_point_eq_model, gen_right_point_eq_model, py_nth_nat.
    reflexivity.
  Qed.

  Theorem gen_coupling_state_eq_model xs (o : nat) inc u : (0 <= Z.of_nat o + inc)%Z ->
    Coupling1d.coupling_state mid mass xs o inc u =
    if Z.eqb (inc mod 2) 0 then Some (GenTieCoupling.coupling_state mass mid xs (Z.of_nat o) inc u)
    else if Qeq_bool (denom xs (position o inc)) 0 then None
    else Some (GenTieCoupling.coupling_state mass mid xs (Z.of_nat o) inc u).
  Proof.
    intros H. unfold Coupling1d.coupling_state, GenTieCoupling.coupling_state. cbv zeta.
    destruct (Z.eqb (inc mod 2) 0); simpl negb; cbv iota.
    - rewrite gen_getitem_c1d_eq_nth, (position_Z o inc H), py_nth_nat. reflexivity.
    - pose proof (gen_probability_to_right_jump_eq_model xs o inc H) as P. unfold prob_right in P. rewrite P.
      destruct (Qeq_bool (denom xs (position o inc)) 0); [reflexivity|]. f_equal.
      rewrite gen_left_point_c1d_eq_int, gen_right_point_c1d_eq_int.
      rewrite (position_Z o inc H), gen_left_point_eq_model, gen_right_point_eq_model. reflexivity.
  Qed.
End TieCoupling.

(* non-vacuity: refined 5-point axis, origin 2; increment +1 (odd: coupled by the uniform), -2 (even: copied) *)
Example gen_coupling_state_runs :
  let xs := [-(2#1); -(1#1); 0; 1#1; 2#1] in
  let mass := fun a b => b - a in
  Coupling1d.coupling_state amid mass xs 2 1 (1#4) = Some (GenTieCoupling.coupling_state mass amid xs 2 1 (1#4))
  /\ GenTieCoupling.coupling_state mass amid xs 2 1 (1#4) = 2#1
  /\ GenTieCoupling.coupling_state mass amid xs 2 1 (3#4) = 0
  /\ GenTieCoupling.coupling_state mass amid xs 2 (-2) (3#4) = -(2#1)
  /\ Qred (GenTieCoupling.probability_to_right_jump mass amid xs 2 1) = 1#2.
Proof. repeat split; vm_compute; reflexivity. Qed.

(* TIE -- compute_mu_h regenerated from rpylib/process/markovchain/markovchain.py (Gen/GenTieDrift.v: the enumerate loop
   with its two accumulators mu_h and mid_point_left as a fold_left) is equal to the hand model Model/Drift.v
   (compute_mu_h / mu_h_loop) that the C04 theorems are about. *)
From Coq Require Import ZArith QArith List Bool Lia.
From RV Require Import Base.QB Proofs.Tie_PyLoops Model.Grid Model.Chain Model.Drift Gen.GenTieDrift.
Import ListNotations.
Open Scope Q_scope.

Section TieDrift.
  Variable mid mass : Q -> Q -> Q.

  (* one pass of the generated loop body at position k (after the enumerate loop is read through positions) *)
  Definition gen_step (xs : list Q) (o : nat) (st : Q * Q) (k : nat) : Q * Q :=
    let '(mu, mpl) := st in
    if negb (Nat.eqb k o)
    then let mpr := mid (nthq xs k) (right_point xs k) in (mu + nthq xs k * mass mpl mpr, mpr)
    else (mu, mid (nthq xs o) (nthq xs (o + 1))).

  Lemma gen_step_loop xs o : forall ps mu mpl,
    fst (fold_left (gen_step xs o) ps (mu, mpl)) = mu_h_loop mid mass xs o ps mu mpl.
  Proof.
    induction ps as [|p ps IH]; intros mu mpl; [reflexivity|].
    change (fold_left (gen_step xs o) (p :: ps) (mu, mpl)) with (fold_left (gen_step xs o) ps (gen_step xs o (mu, mpl) p)).
    simpl mu_h_loop. destruct (Nat.eqb p o) eqn:E.
    - replace (gen_step xs o (mu, mpl) p) with (mu, mid (nthq xs o) (nthq xs (o + 1)))
        by (unfold gen_step; rewrite E; reflexivity).
      rewrite IH. unfold left_point. now rewrite Nat.add_1_r, Nat.pred_succ.
    - replace (gen_step xs o (mu, mpl) p)
        with (mu + nthq xs p * mass mpl (mid (nthq xs p) (right_point xs p)), mid (nthq xs p) (right_point xs p))
        by (unfold gen_step; rewrite E; reflexivity).
      apply IH.
  Qed.
End TieDrift.

Lemma zmin_last (n k : nat) : (1 <= n)%nat ->
  Z.to_nat (Z.min (Z.of_nat n - 1) (Z.of_nat k + 1)) = Nat.min (n - 1) (k + 1).
Proof. lia. Qed.

Theorem gen_compute_mu_h_eq_model (mass mid : Q -> Q -> Q) xs (o : nat) :
  GenTieDrift.compute_mu_h mass mid xs (Z.of_nat o) = Drift.compute_mu_h mid mass xs o.
Proof.
  unfold GenTieDrift.compute_mu_h, Drift.compute_mu_h. cbv zeta.
  rewrite (fold_enumerate_seq 0).
  rewrite (fold_left_ext _ (gen_step mid mass xs o)).
  - rewrite <- gen_step_loop.
    change (py_nth (0 # 1) xs 0%Z) with (py_nth 0 xs (Z.of_nat 0)). rewrite py_nth_nat.
    unfold left_point, nthq. simpl Nat.pred.
    destruct (fold_left _ _ _) as [mu mpl]. reflexivity.
  - intros [mu mpl] k Hk. apply in_seq in Hk. unfold gen_step. cbv beta iota zeta.
    replace (Z.eqb (Z.of_nat k) (Z.of_nat o)) with (Nat.eqb k o)
      by (destruct (Nat.eqb_spec k o); destruct (Z.eqb_spec (Z.of_nat k) (Z.of_nat o)); try reflexivity; lia).
    destruct (Nat.eqb k o); simpl negb; cbv iota.
    + rewrite py_nth_nat. replace (Z.add (Z.of_nat o) 1) with (Z.of_nat (o + 1)) by lia. rewrite py_nth_nat. reflexivity.
    + unfold right_point, nthq, py_len. rewrite py_nth_nonneg by lia. rewrite zmin_last by lia. reflexivity.
Qed.

(* non-vacuity: on a 5-point axis with origin 2 the generated loop, run by vm_compute, gives the hand model's value,
   and that value is not 0 *)
Example gen_compute_mu_h_runs :
  let xs := [-(2#1); -(1#1); 0; 1#1; 3#1] in
  let mass := fun a b => b - a in
  let amid := fun x y => (1#2) * (x + y) in
  GenTieDrift.compute_mu_h mass amid xs 2 = Drift.compute_mu_h amid mass xs 2
  /\ Qred (GenTieDrift.compute_mu_h mass amid xs 2) = 5#2.
Proof. split; vm_compute; reflexivity. Qed.

(* TIE2 -- chain_over_intervals regenerated from rpylib/process/markovchain/markovchain.py (Gen/GenTiePaths.v: the loop over the
   product intervals with its carried pair (pieces, level), the broadcast `level + interval_values`, pieces[-1][-1] and
   np.concatenate, read over lists of lists) is equal to the hand model Model/Paths.v (chain_running / mc_jump_values) that
   the C15 theorems are about: mc.values holds, per interval, the np.cumsum of the interval's increments. *)
From Coq Require Import ZArith QArith List Bool Lia.
From RV Require Import Base.QB Proofs.Tie_PyLoops Model.Paths Gen.GenTiePaths.
Import ListNotations.
Open Scope Q_scope.

(* the hand model read on the per-interval chain values instead of the increments *)
Fixpoint running (level : Q) (vals : list (list Q)) : list Q :=
  match vals with
  | [] => []
  | v :: r => let piece := map (Qplus level) v in piece ++ running (last piece level) r
  end.

Lemma chain_running_running incs : forall level, Paths.chain_running level incs = running level (map Paths.cumsum incs).
Proof. induction incs as [|i r IH]; intros level; [reflexivity|]. simpl. now rewrite IH. Qed.

Definition gen_body (st : list (list Q) * Q) (v : list Q) : list (list Q) * Q :=
  let '(pieces, level) := st in
  match v with [] => (pieces, level) | _ => (pieces ++ [map (Qplus level) v], last (map (Qplus level) v) level) end.

Lemma last_change_default {A} (l : list A) d d' : l <> [] -> last l d = last l d'.
Proof. induction l as [|a [|b r] IH]; intros H; [congruence|reflexivity|]. change (last (b :: r) d = last (b :: r) d'). apply IH. discriminate. Qed.

Lemma gen_fold_running vals : forall pieces level,
  concat (fst (fold_left gen_body vals (pieces, level))) = concat pieces ++ running level vals.
Proof.
  induction vals as [|v r IH]; intros pieces level; simpl fold_left.
  - simpl. now rewrite app_nil_r.
  - destruct v as [|x v'].
    + simpl gen_body. rewrite IH. reflexivity.
    + change (gen_body (pieces, level) (x :: v')) with
        (pieces ++ [map (Qplus level) (x :: v')], last (map (Qplus level) (x :: v')) level).
      rewrite IH. rewrite concat_app. simpl concat. rewrite app_nil_r, <- app_assoc. reflexivity.
Qed.

Theorem gen_chain_over_intervals_eq_running vals :
  GenTiePaths.chain_over_intervals vals = running 0 vals.
Proof.
  unfold GenTiePaths.chain_over_intervals. cbv zeta.
  rewrite (fold_left_ext _ gen_body).
  - pose proof (gen_fold_running vals [] 0) as H. simpl in H.
    destruct (fold_left gen_body vals ([], 0)) as [pieces level]. simpl fst in H.
    rewrite py_len_zero. destruct pieces; simpl negb; cbv iota; [simpl in H; auto|exact H].
  - intros [pieces level] v _. unfold gen_body. rewrite py_len_zero. destruct v as [|x v']; [reflexivity|].
    simpl negb. cbv iota zeta. change (Z.opp 1%Z) with (-1)%Z. rewrite !py_nth_last, last_last.
    f_equal. apply last_change_default. discriminate.
Qed.

(* the statement against the hand model of C15: on the per-interval cumulated increments the generated function is
   MCSimulationWithJumpTimes' running chain path *)
Theorem gen_chain_over_intervals_eq_model incs :
  GenTiePaths.chain_over_intervals (map Paths.cumsum incs) = Paths.mc_jump_values incs.
Proof. unfold Paths.mc_jump_values. rewrite chain_running_running. apply gen_chain_over_intervals_eq_running. Qed.

(* non-vacuity: three intervals, the middle one without jumps; the path keeps running over the interval boundaries *)
Example gen_chain_over_intervals_runs :
  let incs := [[1#1; 2#1]; []; [-(1#2)]] in
  GenTiePaths.chain_over_intervals (map Paths.cumsum incs) = Paths.mc_jump_values incs
  /\ map Qred (GenTiePaths.chain_over_intervals (map Paths.cumsum incs)) = [1#1; 3#1; 5#2]
  /\ GenTiePaths.chain_over_intervals [[]; []] = [].
Proof. repeat split; vm_compute; reflexivity. Qed.

(* TIE -- the Python loop / list primitives that harness/py2coq_loops.py emits, with the lemmas the equality proofs
   (Proofs/Tie_*.v) use to bring a generated loop to the recursion a hand model is written with.

     Python                                       Gallina (emitted by py2coq_loops)
     len(xs)                                      py_len xs                       : Z
     xs[i]            (Python int index)          py_nth d xs i                   negative i counts from the end; an index outside
                                                                                  [-len, len) (IndexError in Python) gives the default d
     range(n) / range(a, b)                       py_range n / py_range2 a b      : list Z
     enumerate(xs)                                py_enumerate xs                 : list (Z * A)
     zip(xs, ys)                                  combine xs ys
     np.zeros(n)                                  py_zeros d n
     xs[i] = v        (local list)                py_set xs i v                   (IndexError in Python: list unchanged)
     xs.append(v)                                 xs ++ [v]
     np.cumsum(xs)                                py_cumsum add zero xs
     for pat in items: body                       fold_left (fun st it => body) items st         st = tuple of the carried locals
     while cond: body                             py_while fuel cond body st      : option state (None = fuel exhausted)

   Definitions are polymorphic so that one library serves the Z, Q and R domains. *)
From Coq Require Import ZArith List Bool Lia.
Import ListNotations.
Open Scope Z_scope.

Definition py_len {A : Type} (l : list A) : Z := Z.of_nat (length l).

Definition py_nth {A : Type} (d : A) (l : list A) (i : Z) : A :=
  if i <? 0 then (if i <? - py_len l then d else nth (Z.to_nat (py_len l + i)) l d)
  else nth (Z.to_nat i) l d.

Definition py_range (n : Z) : list Z := map Z.of_nat (seq 0 (Z.to_nat n)).
Definition py_range2 (a b : Z) : list Z := map (fun k => a + Z.of_nat k) (seq 0 (Z.to_nat (b - a))).
Definition py_enumerate {A : Type} (l : list A) : list (Z * A) := combine (py_range (py_len l)) l.
Definition py_zeros {A : Type} (d : A) (n : Z) : list A := repeat d (Z.to_nat n).

Fixpoint set_nth {A : Type} (l : list A) (i : nat) (v : A) : list A :=
  match l, i with
  | [], _ => []
  | _ :: r, O => v :: r
  | x :: r, S j => x :: set_nth r j v
  end.
Definition py_set {A : Type} (l : list A) (i : Z) (v : A) : list A :=
  if i <? 0 then (if i <? - py_len l then l else set_nth l (Z.to_nat (py_len l + i)) v)
  else set_nth l (Z.to_nat i) v.

Fixpoint cumsum_from {A : Type} (add : A -> A -> A) (acc : A) (l : list A) : list A :=
  match l with
  | [] => []
  | x :: r => add acc x :: cumsum_from add (add acc x) r
  end.
Definition py_cumsum {A : Type} (add : A -> A -> A) (zero : A) (l : list A) : list A := cumsum_from add zero l.

(* while cond: body -- the test needs one unit of fuel, so `Some` is returned only when the test was seen to fail *)
Fixpoint py_while {S : Type} (fuel : nat) (cond : S -> bool) (body : S -> S) (st : S) : option S :=
  match fuel with
  | O => None
  | Datatypes.S f => if cond st then py_while f cond body (body st) else Some st
  end.

(* ------------------------------------------------------------------------------------------------ lemmas *)
Lemma py_nth_nat {A} (d : A) l (k : nat) : py_nth d l (Z.of_nat k) = nth k l d.
Proof. unfold py_nth. destruct (Z.ltb_spec (Z.of_nat k) 0); [lia|]. now rewrite Nat2Z.id. Qed.

Lemma py_nth_nonneg {A} (d : A) l (i : Z) : 0 <= i -> py_nth d l i = nth (Z.to_nat i) l d.
Proof. intros H. unfold py_nth. destruct (Z.ltb_spec i 0); [lia|reflexivity]. Qed.

Lemma nth_length_last {A} (d : A) r : forall a, nth (length r) (a :: r) d = last (a :: r) d.
Proof.
  induction r as [|b r IH]; intros a; [reflexivity|].
  change (nth (length r) (b :: r) d = last (b :: r) d). apply IH.
Qed.

Lemma py_nth_last {A} (d : A) l : py_nth d l (-1) = last l d.
Proof.
  destruct l as [|a r]; [reflexivity|].
  unfold py_nth, py_len. simpl (-1 <? 0). cbv iota.
  assert (L : Z.of_nat (length (a :: r)) = Z.of_nat (length r) + 1) by (simpl length; lia).
  rewrite L.
  destruct (Z.ltb_spec (-1) (- (Z.of_nat (length r) + 1))); [lia|].
  replace (Z.to_nat (Z.of_nat (length r) + 1 + -1)) with (length r) by lia.
  apply nth_length_last.
Qed.

Lemma py_len_nil {A} : py_len (@nil A) = 0.
Proof. reflexivity. Qed.

Lemma py_range_len {A} (l : list A) : py_range (py_len l) = map Z.of_nat (seq 0 (length l)).
Proof. unfold py_range, py_len. now rewrite Nat2Z.id. Qed.

(* enumerate(xs) read through positions: the k-th item is (k, xs[k]) *)
Lemma py_enumerate_map {A} (d : A) (l : list A) :
  py_enumerate l = map (fun k => (Z.of_nat k, nth k l d)) (seq 0 (length l)).
Proof.
  unfold py_enumerate. rewrite py_range_len.
  apply (nth_ext _ _ (0, d) (0, d)).
  - rewrite combine_length, !map_length, seq_length. lia.
  - intros n Hn. rewrite combine_length, map_length, seq_length, Nat.min_id in Hn.
    rewrite combine_nth by (now rewrite map_length, seq_length).
    rewrite (nth_indep (map (fun k => (Z.of_nat k, nth k l d)) (seq 0 (length l))) (0, d)
                       ((fun k => (Z.of_nat k, nth k l d)) 0%nat)) by (now rewrite map_length, seq_length).
    rewrite (map_nth (fun k => (Z.of_nat k, nth k l d))). rewrite seq_nth by assumption. simpl.
    change 0 with (Z.of_nat 0%nat) at 1. rewrite map_nth, seq_nth by assumption. reflexivity.
Qed.

Lemma fold_left_map {A B S} (f : S -> B -> S) (g : A -> B) l s :
  fold_left f (map g l) s = fold_left (fun s a => f s (g a)) l s.
Proof. revert s. induction l; simpl; intros; auto. Qed.

(* the loop `for k, x in enumerate(xs)` as a loop over the positions 0 .. len-1 *)
Lemma fold_enumerate_seq {A S} (d : A) (f : S -> Z * A -> S) (l : list A) (s : S) :
  fold_left f (py_enumerate l) s = fold_left (fun s k => f s (Z.of_nat k, nth k l d)) (seq 0 (length l)) s.
Proof. rewrite (py_enumerate_map d). apply fold_left_map. Qed.

Lemma fold_range_seq {S} (f : S -> Z -> S) (n : nat) (s : S) :
  fold_left f (py_range (Z.of_nat n)) s = fold_left (fun s k => f s (Z.of_nat k)) (seq 0 n) s.
Proof. unfold py_range. rewrite Nat2Z.id. apply fold_left_map. Qed.

Lemma fold_left_ext {A S} (f g : S -> A -> S) l s :
  (forall s a, In a l -> f s a = g s a) -> fold_left f l s = fold_left g l s.
Proof.
  revert s. induction l as [|a l IH]; simpl; intros s H; [reflexivity|].
  rewrite H by now left. apply IH. intros; apply H; now right.
Qed.

Lemma set_nth_app {A} (pre r : list A) (d v : A) : set_nth (pre ++ d :: r) (length pre) v = pre ++ v :: r.
Proof. induction pre; simpl; [reflexivity|now rewrite IHpre]. Qed.

Lemma py_set_app {A} (pre r : list A) (d v : A) : py_set (pre ++ d :: r) (Z.of_nat (length pre)) v = pre ++ v :: r.
Proof.
  unfold py_set. destruct (Z.ltb_spec (Z.of_nat (length pre)) 0); [lia|].
  rewrite Nat2Z.id. apply set_nth_app.
Qed.

(* np.zeros(n) followed by a loop over the positions that stores F k where c k holds: the array of the values *)
Lemma fold_set_seq_gen {A} (d : A) (c : nat -> bool) (F : nat -> A) m : forall j pre, length pre = j ->
  fold_left (fun q k => if c k then py_set q (Z.of_nat k) (F k) else q) (seq j m) (pre ++ repeat d m)
  = pre ++ map (fun k => if c k then F k else d) (seq j m).
Proof.
  induction m as [|m IH]; intros j pre Hj; [reflexivity|].
  simpl seq. simpl repeat. simpl fold_left. simpl map.
  assert (E : (if c j then py_set (pre ++ d :: repeat d m) (Z.of_nat j) (F j) else pre ++ d :: repeat d m)
              = (pre ++ [if c j then F j else d]) ++ repeat d m).
  { rewrite <- app_assoc. simpl. destruct (c j); [|reflexivity]. rewrite <- Hj. apply py_set_app. }
  rewrite E. rewrite (IH (S j)) by (rewrite app_length; simpl; lia).
  now rewrite <- app_assoc.
Qed.

Lemma fold_set_seq {A} (d : A) (c : nat -> bool) (F : nat -> A) n :
  fold_left (fun q k => if c k then py_set q (Z.of_nat k) (F k) else q) (seq 0 n) (py_zeros d (Z.of_nat n))
  = map (fun k => if c k then F k else d) (seq 0 n).
Proof. unfold py_zeros. rewrite Nat2Z.id. apply (fold_set_seq_gen d c F n 0%nat []). reflexivity. Qed.

(* more fuel never changes a result already obtained *)
Lemma py_while_mono {S} (cond : S -> bool) (body : S -> S) f : forall st r g,
  py_while f cond body st = Some r -> (f <= g)%nat -> py_while g cond body st = Some r.
Proof.
  induction f as [|f IH]; intros st r g H Hg; [discriminate|].
  destruct g as [|g]; [lia|]. simpl in *. destruct (cond st); [|assumption]. apply IH; [assumption|lia].
Qed.

(* the state a terminated loop returns fails the test *)
Lemma py_while_exit {S} (cond : S -> bool) (body : S -> S) f : forall st r,
  py_while f cond body st = Some r -> cond r = false.
Proof.
  induction f as [|f IH]; intros st r H; [discriminate|]. simpl in H.
  destruct (cond st) eqn:E; [eauto|]. now inversion H; subst.
Qed.

(* an invariant of the body holds of the state the loop returns *)
Lemma py_while_inv {S} (P : S -> Prop) (cond : S -> bool) (body : S -> S) :
  (forall s, P s -> cond s = true -> P (body s)) ->
  forall f st r, P st -> py_while f cond body st = Some r -> P r.
Proof.
  intros Hb. induction f as [|f IH]; intros st r Hp H; [discriminate|]. simpl in H.
  destruct (cond st) eqn:E; [eapply IH; [|eassumption]; auto|]. now inversion H; subst.
Qed.

(* ------------------------------------------------------------------------------------------------ second pass (TIE2)
     xs[::-1]                                     py_rev xs
     xs[a:b] / xs[a:] / xs[:b]  (int bounds)      py_slice xs (Some a | None) (Some b | None)   Python's clipping of the bounds
     xss[i][j], np.concatenate(xss)               py_nth 0 (py_nth nil xss i) j,  concat xss
     s + xs  (numpy broadcast)                    map (add s) xs *)
Definition py_rev {A : Type} (l : list A) : list A := rev l.
Definition py_clip (n i : Z) : Z := if i <? 0 then Z.max 0 (n + i) else Z.min i n.
Definition py_slice {A : Type} (l : list A) (lo hi : option Z) : list A :=
  let n := py_len l in
  let a := match lo with None => 0 | Some i => py_clip n i end in
  let b := match hi with None => n | Some i => py_clip n i end in
  firstn (Z.to_nat (b - a)) (skipn (Z.to_nat a) l).

Lemma py_nth_head {A} (d : A) l : py_nth d l 0 = hd d l.
Proof. destruct l; reflexivity. Qed.

Lemma py_len_app1 {A} (l : list A) x : py_len (l ++ [x]) = py_len l + 1.
Proof. unfold py_len. rewrite app_length. simpl. lia. Qed.

Lemma py_len_zero {A} (l : list A) : (py_len l =? 0) = match l with [] => true | _ => false end.
Proof. destruct l; [reflexivity|]. unfold py_len. simpl length. destruct (Z.eqb_spec (Z.of_nat (S (length l))) 0); [lia|reflexivity]. Qed.

Lemma py_slice_all {A} (l : list A) : py_slice l None None = l.
Proof. unfold py_slice, py_len. rewrite Z.sub_0_r, Nat2Z.id. simpl. apply firstn_all. Qed.

Lemma py_slice_from {A} (l : list A) (k : nat) : py_slice l (Some (Z.of_nat k)) None = skipn k l.
Proof.
  unfold py_slice, py_clip, py_len. destruct (Z.ltb_spec (Z.of_nat k) 0); [lia|].
  destruct (Nat.le_gt_cases k (length l)).
  - rewrite Z.min_l by lia. rewrite Nat2Z.id. replace (Z.to_nat (Z.of_nat (length l) - Z.of_nat k)) with (length (skipn k l))
      by (rewrite skipn_length; lia). apply firstn_all.
  - rewrite Z.min_r by lia. rewrite Nat2Z.id, Z.sub_diag. simpl. rewrite !skipn_all2 by lia. reflexivity.
Qed.

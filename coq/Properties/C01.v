(* C01 -- CTMC jump rates are the Levy-measure masses of the grid cells.  Only statements; proofs in Proofs/C01_Chain.v,
   Proofs/C01_Chain2d.v (dimension 2) and Proofs/C01_Chain3d.v (dimension 3).
   Model: Model/Chain.v, Model/Chain3d.v (samplingfactory.create_q_vector / compute_intensity_of_jumps, TruncatedLevyMeasure) over
   Model/Grid.v; `_truncated_interval` is the py2coq-generated Gen/GenC01Trunc.v.
   The theorems are stated inside a Section for an ARBITRARY interval mass `mass a b` (= LevyMeasure.integrate) that is
   additive and non-negative ON INTERVALS NOT CONTAINING THE ORIGIN (so that infinite-activity measures qualify), over Q
   (see THEOREM_NOTES: the link to C09's real-valued closed forms is NOT formal), and for an arbitrary `mid` (= grid.middle
   at one fixed level) with the stated properties; only the arithmetic mean `amid` is a PROVED instance of `mid`:
   mid_between is required of ALL x < y, which CTMCGridProbabilityStep.middle violates (middle(-0.001, 0) = -h/2), so the
   probability-step grid is covered by the per-state oracle of props/C01.py, not by these theorems. *)
From Coq Require Import ZArith QArith List.
From RV Require Import Base.QB Model.Grid Gen.GenC01Trunc Model.Chain Model.Chain3d Proofs.C13_Grid Proofs.C01_Chain Proofs.C01_Chain2d
  Proofs.C01_Chain3d.
Import ListNotations.
Open Scope Q_scope.

Section Measure.
  Variable mid : Q -> Q -> Q.
  Hypothesis mid_between : forall x y, x < y -> x < mid x y /\ mid x y < y.
  Hypothesis mid_refl : forall x, ~ x == 0 -> mid x x == x.      (* needed at the two end points of the axis only *)
  Hypothesis mid_proper : forall x x' y y', x == x' -> y == y' -> mid x y == mid x' y'.
  Variable mass : Q -> Q -> Q.
  (* additivity and positivity are required ONLY of intervals that do not contain the origin: there every Levy measure is
     finite, also the infinite-activity ones (VG, CGMY) whose mass near 0 is infinite *)
  Hypothesis mass_add : forall a b c, a <= b -> b <= c -> (c < 0 \/ 0 < a) -> mass a c == mass a b + mass b c.
  Hypothesis mass_pos : forall a b, a <= b -> (b < 0 \/ 0 < a) -> 0 <= mass a b.
  Hypothesis mass_proper : forall a a' b b', a == a' -> b == b' -> mass a b == mass a' b'.

  (* cells of consecutive states share their end point (no gap), a cell ends before every later cell begins (no
     overlap beyond end points), the first cell starts at x_0 and the last ends at x_n, the cells next to the origin
     end/start at the boundaries h_left < 0 < h_right of the central cell, and every state lies in its own cell,
     strictly inside on every side where it has a neighbour *)
  Theorem C01_cells_tile : forall xs o h, admissible xs o h ->
    let n := length xs in
    (forall k, (k < n)%nat -> cell_lo mid xs k <= nthq xs k <= cell_hi mid xs k
                 /\ ((1 <= k)%nat -> cell_lo mid xs k < nthq xs k) /\ ((k + 1 < n)%nat -> nthq xs k < cell_hi mid xs k))
    /\ (forall k, (k + 1 < n)%nat -> cell_hi mid xs k = cell_lo mid xs (k + 1))
    /\ (forall k k', (k < k')%nat -> (k' < n)%nat -> cell_hi mid xs k <= cell_lo mid xs k')
    /\ cell_lo mid xs 0 == headq xs /\ cell_hi mid xs (n - 1) == lastq xs
    /\ cell_hi mid xs (o - 1) == h_left mid xs o /\ cell_lo mid xs (o + 1) == h_right mid xs o
    /\ h_left mid xs o < 0 /\ 0 < h_right mid xs o.
  Proof. intros xs o h A. apply (cells_tile mid) with (h := h); assumption. Qed.

  (* the cell of every state left (right) of the origin lies strictly left (right) of 0: no rate involves the mass near 0 *)
  Theorem C01_cells_avoid_origin : forall xs o h, admissible xs o h ->
    forall k, (k < length xs)%nat -> ((k < o)%nat -> cell_hi mid xs k < 0) /\ ((o < k)%nat -> 0 < cell_lo mid xs k).
  Proof.
    intros xs o h A. pose proof (admissible_ends xs o h A). destruct A as (Hi & H1 & H2 & _ & H0 & _).
    apply (cell_side mid); assumption.
  Qed.

  Theorem C01_rates_nonneg : forall xs o h k, admissible xs o h -> (k < length xs)%nat -> 0 <= q_entry mid mass xs o k.
  Proof. intros. apply (rates_nonneg mid) with (h := h); assumption. Qed.

  (* sum of the rates == the intensity the process reports, for every admissible axis of any length *)
  Theorem C01_sum_rates_is_intensity_1d : forall xs o h, admissible xs o h ->
    qsum (q_vector mid mass xs o) == intensity1 mid mass xs o.
  Proof. intros xs o h A. apply (sum_rates_is_intensity_1d mid) with (h := h); assumption. Qed.

  (* the truncated measure TruncatedLevyMeasure(nu, (l, r)), l < 0 < r, is again additive and non-negative away from 0, equals
     nu on sub-intervals of [l,r] and is the mass of the intersection in general: all theorems above apply to it *)
  Theorem C01_truncated_mass : forall l r, l < 0 -> 0 < r ->
    (forall a b c, a <= b -> b <= c -> (c < 0 \/ 0 < a) -> tmass mass l r a c == tmass mass l r a b + tmass mass l r b c)
    /\ (forall a b, a <= b -> (b < 0 \/ 0 < a) -> 0 <= tmass mass l r a b)
    /\ (forall a a' b b', a == a' -> b == b' -> tmass mass l r a b == tmass mass l r a' b')
    /\ (forall a b, l <= a -> a <= b -> b <= r -> tmass mass l r a b == mass a b)
    /\ (forall a b, a <= b -> Qmaxb a l <= Qminb b r -> tmass mass l r a b == mass (Qmaxb a l) (Qminb b r)).
  Proof. intros l r Hl Hr. apply (truncated_mass mass); assumption. Qed.

  (* what MarkovChainProcess actually builds: the measure truncated to (axis[0], axis[-1]) *)
  Theorem C01_chain_rates : forall xs o h, admissible xs o h ->
    let m := tmass mass (headq xs) (lastq xs) in
    qsum (q_vector mid m xs o) == intensity1 mid m xs o
    /\ (forall k, (k < length xs)%nat -> 0 <= q_entry mid m xs o k)
    /\ (forall k, (k < length xs)%nat -> k <> o -> q_entry mid m xs o k == mass (cell_lo mid xs k) (cell_hi mid xs k)).
  Proof. intros xs o h A. apply (chain_rates mid) with (h := h); assumption. Qed.

  (* every refinement level: the chain built on the axis refined n times (stateless middle) *)
  Hypothesis mid_left0 : forall x y, y == 0 -> mid x y == x / 2.
  Hypothesis mid_right0 : forall x y, x == 0 -> mid x y == y / 2.
  Theorem C01_refined : forall n xs o h, admissible xs o h ->
    let xs' := refine_axis_n mid n xs in let o' := (2 ^ n * o)%nat in
    qsum (q_vector mid mass xs' o') == intensity1 mid mass xs' o'
    /\ (forall k, (k < length xs')%nat -> 0 <= q_entry mid mass xs' o' k).
  Proof.
    intros n xs o h A xs' o'.
    pose proof (refine_n_admissible mid mid_between mid_left0 mid_right0 n xs o h A) as A'. fold xs' o' in A'.
    split; [apply (sum_rates_is_intensity_1d mid) with (h := h / inject_Z (2 ^ Z.of_nat n)); assumption|].
    intros k Hk. apply (rates_nonneg mid) with (h := h / inject_Z (2 ^ Z.of_nat n)); assumption.
  Qed.
End Measure.

(* ---------------- dimension 2: the product grid of a copula chain (Model/Chain.v: q_entry2 / q_matrix2 / intensity2, the 3^2-1
   blocks of compute_intensity_of_jumps).  mass2 a b = model.mass(a, b), the rectangle mass: additive under a split of either
   coordinate interval and non-negative ON BOXES THAT AVOID THE ORIGIN (what C12 is about; not formally composed) *)
Section Measure2d.
  Variable mid : Q -> Q -> Q.
  Hypothesis mid_between : forall x y, x < y -> x < mid x y /\ mid x y < y.
  Hypothesis mid_refl : forall x, ~ x == 0 -> mid x x == x.
  Hypothesis mid_proper : forall x x' y y', x == x' -> y == y' -> mid x y == mid x' y'.
  Variable mass2 : Q * Q -> Q * Q -> Q.
  Hypothesis mass2_add1 : forall a1 b1 c1 y1 y2, a1 <= b1 -> b1 <= c1 -> avoids (a1, y1) (c1, y2) ->
    mass2 (a1, y1) (c1, y2) == mass2 (a1, y1) (b1, y2) + mass2 (b1, y1) (c1, y2).
  Hypothesis mass2_add2 : forall x1 x2 a2 b2 c2, a2 <= b2 -> b2 <= c2 -> avoids (x1, a2) (x2, c2) ->
    mass2 (x1, a2) (x2, c2) == mass2 (x1, a2) (x2, b2) + mass2 (x1, b2) (x2, c2).
  Hypothesis mass2_pos : forall a b, fst a <= fst b -> snd a <= snd b -> avoids a b -> 0 <= mass2 a b.
  Hypothesis mass2_proper : forall a1 a2 b1 b2 a1' a2' b1' b2', a1 == a1' -> a2 == a2' -> b1 == b1' -> b2 == b2' ->
    mass2 (a1, a2) (b1, b2) == mass2 (a1', a2') (b1', b2').

  (* the rates of ALL non-origin states of the product grid sum to the intensity the process reports (the eight blocks),
     for any two admissible axes of any lengths sharing the origin index: telescoping axis by axis *)
  Theorem C01_sum_rates_is_intensity_2d : forall xs ys o hx hy, admissible xs o hx -> admissible ys o hy ->
    qsum2 (q_matrix2 mid mass2 xs ys o) == intensity2 mid mass2 xs ys o.
  Proof. intros xs ys o hx hy Ax Ay. apply (sum_rates_is_intensity_2d mid) with (hx := hx) (hy := hy); assumption. Qed.

  (* the product cells tile the truncated box minus the central cell; every state lies in its own cell *)
  Theorem C01_cells_tile_2d : forall xs ys o hx hy, admissible xs o hx -> admissible ys o hy ->
    (forall i j, (i < length xs)%nat -> (j < length ys)%nat ->
       (cell_lo mid xs i <= nthq xs i <= cell_hi mid xs i /\ cell_lo mid ys j <= nthq ys j <= cell_hi mid ys j)
       /\ ((i, j) <> (o, o) -> avoids (cell_lo mid xs i, cell_lo mid ys j) (cell_hi mid xs i, cell_hi mid ys j))
       /\ ((i + 1 < length xs)%nat -> cell_hi mid xs i = cell_lo mid xs (i + 1))
       /\ ((j + 1 < length ys)%nat -> cell_hi mid ys j = cell_lo mid ys (j + 1)))
    /\ cell_lo mid xs 0 == headq xs /\ cell_hi mid xs (length xs - 1) == lastq xs
    /\ cell_lo mid ys 0 == headq ys /\ cell_hi mid ys (length ys - 1) == lastq ys
    /\ cell_hi mid xs (o - 1) == h_left mid xs o /\ cell_lo mid xs (o + 1) == h_right mid xs o
    /\ cell_hi mid ys (o - 1) == h_left mid ys o /\ cell_lo mid ys (o + 1) == h_right mid ys o.
  Proof. intros xs ys o hx hy Ax Ay. apply (cells_tile_2d mid) with (hx := hx) (hy := hy); assumption. Qed.

  Theorem C01_rates_nonneg_2d : forall xs ys o hx hy i j, admissible xs o hx -> admissible ys o hy ->
    (i < length xs)%nat -> (j < length ys)%nat -> 0 <= q_entry2 mid mass2 xs ys o i j.
  Proof. intros xs ys o hx hy i j Ax Ay. apply (rates_nonneg_2d mid) with (hx := hx) (hy := hy); assumption. Qed.
End Measure2d.

(* ---------------- dimension 3: the product grid of a 3-d copula chain (Model/Chain3d.v: q_entry3 / q_tensor3 / intensity3, the
   3^3-1 = 26 boxes of compute_intensity_of_jumps).  mass3 a b = LevyCopulaModel.mass(a, b) (_mass_3d), the box mass: additive under
   a split of any one coordinate interval and non-negative ON BOXES THAT AVOID THE ORIGIN.  The three axes may differ (lengths,
   points, spatial steps hx hy hz); they share the origin index, as CTMCGrid's single origin_coordinate imposes. *)
Section Measure3d.
  Variable mid : Q -> Q -> Q.
  Hypothesis mid_between : forall x y, x < y -> x < mid x y /\ mid x y < y.
  Hypothesis mid_refl : forall x, ~ x == 0 -> mid x x == x.
  Hypothesis mid_proper : forall x x' y y', x == x' -> y == y' -> mid x y == mid x' y'.
  Variable mass3 : Q3 -> Q3 -> Q.
  Hypothesis mass3_add1 : forall a b c y1 y2 z1 z2, a <= b -> b <= c -> avoids3 (a, y1, z1) (c, y2, z2) ->
    mass3 (a, y1, z1) (c, y2, z2) == mass3 (a, y1, z1) (b, y2, z2) + mass3 (b, y1, z1) (c, y2, z2).
  Hypothesis mass3_add2 : forall x1 x2 a b c z1 z2, a <= b -> b <= c -> avoids3 (x1, a, z1) (x2, c, z2) ->
    mass3 (x1, a, z1) (x2, c, z2) == mass3 (x1, a, z1) (x2, b, z2) + mass3 (x1, b, z1) (x2, c, z2).
  Hypothesis mass3_add3 : forall x1 x2 y1 y2 a b c, a <= b -> b <= c -> avoids3 (x1, y1, a) (x2, y2, c) ->
    mass3 (x1, y1, a) (x2, y2, c) == mass3 (x1, y1, a) (x2, y2, b) + mass3 (x1, y1, b) (x2, y2, c).
  Hypothesis mass3_pos : forall a b, p1 a <= p1 b -> p2 a <= p2 b -> p3 a <= p3 b -> avoids3 a b -> 0 <= mass3 a b.
  Hypothesis mass3_proper : forall a1 a2 a3 b1 b2 b3 a1' a2' a3' b1' b2' b3',
    a1 == a1' -> a2 == a2' -> a3 == a3' -> b1 == b1' -> b2 == b2' -> b3 == b3' ->
    mass3 (a1, a2, a3) (b1, b2, b3) == mass3 (a1', a2', a3') (b1', b2', b3').

  (* the rates of ALL non-origin states of the 3-d product grid sum to the intensity the process reports (the 26 boxes), for any
     three admissible axes of any lengths sharing the origin index: telescoping axis by axis *)
  Theorem C01_sum_rates_is_intensity_3d : forall xs ys zs o hx hy hz, admissible xs o hx -> admissible ys o hy -> admissible zs o hz ->
    qsum3 (q_tensor3 mid mass3 xs ys zs o) == intensity3 mid mass3 xs ys zs o.
  Proof.
    intros xs ys zs o hx hy hz Ax Ay Az.
    apply (sum_rates_is_intensity_3d mid mid_between mid_refl mid_proper mass3 mass3_add1 mass3_add2 mass3_add3 mass3_proper)
      with (hx := hx) (hy := hy) (hz := hz); assumption.
  Qed.

  (* the product cells tile the truncated box minus the central cell: every state lies in its own cell, the cell of every
     non-origin state avoids the origin (so its mass is finite also for infinite-activity margins), neighbouring cells share a
     face along each axis, the outermost faces are the truncation bounds and the innermost ones the faces of the central cell *)
  Theorem C01_cells_tile_3d : forall xs ys zs o hx hy hz, admissible xs o hx -> admissible ys o hy -> admissible zs o hz ->
    (forall i j k, (i < length xs)%nat -> (j < length ys)%nat -> (k < length zs)%nat ->
       (cell_lo mid xs i <= nthq xs i <= cell_hi mid xs i /\ cell_lo mid ys j <= nthq ys j <= cell_hi mid ys j
        /\ cell_lo mid zs k <= nthq zs k <= cell_hi mid zs k)
       /\ ((i, j, k) <> (o, o, o) ->
           avoids3 (cell_lo mid xs i, cell_lo mid ys j, cell_lo mid zs k) (cell_hi mid xs i, cell_hi mid ys j, cell_hi mid zs k))
       /\ ((i + 1 < length xs)%nat -> cell_hi mid xs i = cell_lo mid xs (i + 1))
       /\ ((j + 1 < length ys)%nat -> cell_hi mid ys j = cell_lo mid ys (j + 1))
       /\ ((k + 1 < length zs)%nat -> cell_hi mid zs k = cell_lo mid zs (k + 1)))
    /\ (cell_lo mid xs 0 == headq xs /\ cell_hi mid xs (length xs - 1) == lastq xs
        /\ cell_hi mid xs (o - 1) == h_left mid xs o /\ cell_lo mid xs (o + 1) == h_right mid xs o)
    /\ (cell_lo mid ys 0 == headq ys /\ cell_hi mid ys (length ys - 1) == lastq ys
        /\ cell_hi mid ys (o - 1) == h_left mid ys o /\ cell_lo mid ys (o + 1) == h_right mid ys o)
    /\ (cell_lo mid zs 0 == headq zs /\ cell_hi mid zs (length zs - 1) == lastq zs
        /\ cell_hi mid zs (o - 1) == h_left mid zs o /\ cell_lo mid zs (o + 1) == h_right mid zs o).
  Proof. intros xs ys zs o hx hy hz Ax Ay Az. apply (cells_tile_3d mid mid_between mid_refl mid_proper) with (hx := hx) (hy := hy) (hz := hz); assumption. Qed.

  Theorem C01_rates_nonneg_3d : forall xs ys zs o hx hy hz i j k, admissible xs o hx -> admissible ys o hy -> admissible zs o hz ->
    (i < length xs)%nat -> (j < length ys)%nat -> (k < length zs)%nat -> 0 <= q_entry3 mid mass3 xs ys zs o i j k.
  Proof.
    intros xs ys zs o hx hy hz i j k Ax Ay Az.
    apply (rates_nonneg_3d mid mid_between mid_refl mid_proper mass3 mass3_pos) with (hx := hx) (hy := hy) (hz := hz); assumption.
  Qed.
End Measure3d.

(* the hypotheses of Section Measure3d are satisfiable, and discharged for the family the correspondence runs: the box mass of a
   3-d density table with non-negative densities is additive in each coordinate, non-negative and respects == on ALL boxes *)
Theorem C01_table_mass3_is_a_measure : forall ps, Forall (fun p => 0 <= dens3 p) ps ->
  (forall a b c y1 y2 z1 z2, a <= b -> b <= c ->
     step_mass3 ps (a, y1, z1) (c, y2, z2) == step_mass3 ps (a, y1, z1) (b, y2, z2) + step_mass3 ps (b, y1, z1) (c, y2, z2))
  /\ (forall x1 x2 a b c z1 z2, a <= b -> b <= c ->
     step_mass3 ps (x1, a, z1) (x2, c, z2) == step_mass3 ps (x1, a, z1) (x2, b, z2) + step_mass3 ps (x1, b, z1) (x2, c, z2))
  /\ (forall x1 x2 y1 y2 a b c, a <= b -> b <= c ->
     step_mass3 ps (x1, y1, a) (x2, y2, c) == step_mass3 ps (x1, y1, a) (x2, y2, b) + step_mass3 ps (x1, y1, b) (x2, y2, c))
  /\ (forall a b, 0 <= step_mass3 ps a b)
  /\ (forall a1 a2 a3 b1 b2 b3 a1' a2' a3' b1' b2' b3', a1 == a1' -> a2 == a2' -> a3 == a3' -> b1 == b1' -> b2 == b2' -> b3 == b3' ->
     step_mass3 ps (a1, a2, a3) (b1, b2, b3) == step_mass3 ps (a1', a2', a3') (b1', b2', b3')).
Proof.
  intros ps H. split; [exact (step_mass3_add1 ps)|]. split; [exact (step_mass3_add2 ps)|]. split; [exact (step_mass3_add3 ps)|].
  split; [intros; apply step_mass3_pos; exact H|exact (step_mass3_proper ps)].
Qed.

(* composed: for the 3-d table chains NO hypothesis on the mass is left (arithmetic-mean middle, the one CTMCGrid.middle computes) *)
Theorem C01_table_chain_3d : forall ps xs ys zs o hx hy hz, Forall (fun p => 0 <= dens3 p) ps ->
  admissible xs o hx -> admissible ys o hy -> admissible zs o hz ->
  qsum3 (q_tensor3 amid (step_mass3 ps) xs ys zs o) == intensity3 amid (step_mass3 ps) xs ys zs o
  /\ (forall i j k, (i < length xs)%nat -> (j < length ys)%nat -> (k < length zs)%nat -> 0 <= q_entry3 amid (step_mass3 ps) xs ys zs o i j k).
Proof. exact step_chain_3d. Qed.

(* _truncated_interval (generated from the source): intersection with [l,r], degenerate when disjoint *)
Theorem C01_truncated_interval : forall l r a b, l <= r -> a <= b ->
  let '(aa, bb) := truncated_interval l r a b in
  aa <= bb /\ l <= aa /\ bb <= r
  /\ (Qmaxb a l <= Qminb b r -> aa == Qmaxb a l /\ bb == Qminb b r)
  /\ (b < l -> aa == l /\ bb == l) /\ (r < a -> aa == r /\ bb == r)
  /\ (l <= a -> b <= r -> aa == a /\ bb == b).
Proof. exact truncated_interval_spec. Qed.

(* the hypotheses are satisfiable: the step measures used to run the model are additive and non-negative *)
Theorem C01_step_mass_is_a_measure : forall ps, Forall (fun p => 0 <= snd p) ps ->
  (forall a b c, a <= b -> b <= c -> step_mass ps a c == step_mass ps a b + step_mass ps b c)
  /\ (forall a b, 0 <= step_mass ps a b)
  /\ (forall a a' b b', a == a' -> b == b' -> step_mass ps a b == step_mass ps a' b').
Proof.
  intros ps H. split; [exact (step_mass_add ps)|]. split; [intros; apply step_mass_pos; exact H|exact (step_mass_proper ps)].
Qed.

(* non-vacuity: a concrete chain run through the model (density 3 on [-2,0], 3/2 on [0,3]) *)
Example C01_nonvacuous :
  let ps := [(-2, 0, 3); (0, 3, 3#2)] in let xs := [-2; -1; -(1#2); 0; 1#2; 2; 3] in
  Qeq_bool (qsum (chain_q_vector ps xs 3)) (chain_intensity ps xs 3) = true
  /\ Qeq_bool (chain_intensity ps xs 3) (75 # 8) = true
  /\ admissibleb xs 3 (1#2) = true.
Proof. vm_compute. repeat split. Qed.

Example C01_nonvacuous_2d :
  let ps := [(1#4, 1#2, -(1#4), 1#4, 4); (1#2, 3#4, 1#4, 2, 4); (-2, -1, -2, 1, 3)] in let xs := [-2; -1; 0; 1; 2] in
  Qeq_bool (qsum2 (q_matrix2 amid (step_mass2 ps) xs xs 2)) (intensity2 amid (step_mass2 ps) xs xs 2) = true
  /\ Qeq_bool (intensity2 amid (step_mass2 ps) xs xs 2) (43 # 4) = true.
Proof. vm_compute. repeat split. Qed.

(* three DIFFERENT admissible axes; mass inside the central cell (9/64: the intensity is less than the total mass 1132/64), in
   cells straddling one and two coordinate planes, and a zero-rate state *)
Example C01_nonvacuous_3d :
  let ps := [(1#8, 1, 1#8, 3#2, 0, 1, 4); (-2, -(1#2), 0, 1#2, 1#2, 2, 3); (-1, 0, -(3#2), -(1#4), -1, 0, 6); (0, 2, -(1#2), 0, -2, -1, 2)] in
  let xs := [-2; -1; 0; 1; 2] in let ys := [-2; -(1#2); 0; 1#2; 2] in let zs := [-2; -(3#2); 0; 3#2; 2] in
  admissibleb xs 2 1 = true /\ admissibleb ys 2 (1#2) = true /\ admissibleb zs 2 (3#2) = true
  /\ forallb (fun p => Qle_bool 0 (dens3 p)) ps = true
  /\ Qeq_bool (qsum3 (q_tensor3 amid (step_mass3 ps) xs ys zs 2)) (intensity3 amid (step_mass3 ps) xs ys zs 2) = true
  /\ Qeq_bool (intensity3 amid (step_mass3 ps) xs ys zs 2) (1123 # 64) = true
  /\ Qeq_bool (step_mass3 ps (-2, -2, -2) (2, 2, 2)) (1132 # 64) = true
  /\ Qeq_bool (q_entry3 amid (step_mass3 ps) xs ys zs 2 2 2 3) (3 # 64) = true
  /\ Qeq_bool (q_entry3 amid (step_mass3 ps) xs ys zs 2 2 1 2) (9 # 4) = true
  /\ Qeq_bool (q_entry3 amid (step_mass3 ps) xs ys zs 2 1 2 1) 0 = true.
Proof. vm_compute. repeat split. Qed.

Print Assumptions C01_cells_tile.
Print Assumptions C01_cells_avoid_origin.
Print Assumptions C01_rates_nonneg.
Print Assumptions C01_sum_rates_is_intensity_1d.
Print Assumptions C01_truncated_mass.
Print Assumptions C01_chain_rates.
Print Assumptions C01_refined.
Print Assumptions C01_sum_rates_is_intensity_2d.
Print Assumptions C01_cells_tile_2d.
Print Assumptions C01_rates_nonneg_2d.
Print Assumptions C01_sum_rates_is_intensity_3d.
Print Assumptions C01_cells_tile_3d.
Print Assumptions C01_rates_nonneg_3d.
Print Assumptions C01_table_mass3_is_a_measure.
Print Assumptions C01_table_chain_3d.
Print Assumptions C01_truncated_interval.
Print Assumptions C01_step_mass_is_a_measure.
Print Assumptions C01_nonvacuous.
Print Assumptions C01_nonvacuous_2d.
Print Assumptions C01_nonvacuous_3d.

(* C01 -- CTMC jump rates are the Levy-measure masses of the grid cells.  Only statements; proofs in Proofs/C01_Chain.v.
   Model: Model/Chain.v (samplingfactory.create_q_vector / compute_intensity_of_jumps, TruncatedLevyMeasure) over
   Model/Grid.v; `_truncated_interval` is the py2coq-generated Gen/GenC01Trunc.v.
   The theorems are stated inside a Section for an ARBITRARY interval mass `mass a b` (= LevyMeasure.integrate) that is
   additive and non-negative ON INTERVALS NOT CONTAINING THE ORIGIN (so that infinite-activity measures qualify), over Q
   (see THEOREM_NOTES: the link to C09's real-valued closed forms is NOT formal), and for an arbitrary `mid` (= grid.middle
   at one fixed level) with the stated properties; only the arithmetic mean `amid` is a PROVED instance of `mid`:
   mid_between is required of ALL x < y, which CTMCGridProbabilityStep.middle violates (middle(-0.001, 0) = -h/2), so the
   probability-step grid is covered by the per-state oracle of props/C01.py, not by these theorems. *)
From Coq Require Import ZArith QArith List.
From RV Require Import Base.QB Model.Grid Gen.GenC01Trunc Model.Chain Proofs.C13_Grid Proofs.C01_Chain Proofs.C01_Chain2d.
Import ListNotations.
Open Scope Q_scope.

Section Measure.
  Variable mid : Q -> Q -> Q.
  Hypothesis mid_between : forall x y, x < y -> x < mid x y /\ mid x y < y.
  Hypothesis mid_refl : forall x, ~ x == 0 -> mid x x == x.      (* needed at the two end points of the axis only *)
  Hypothesis mid_proper : forall x x' y y', x == x' -> y == y' -> mid x y == mid x' y'.
  Variable mass : Q -> Q -> Q.
  (* additivity and positivity are required ONLY of intervals that do not contain the origin: there every Levy measure is
     finite, also the infinite-activity ones (VG, CGMY) whose mass near 0 is infinite *)
  Hypothesis mass_add : forall a b c, a <= b -> b <= c -> (c < 0 \/ 0 < a) -> mass a c == mass a b + mass b c.
  Hypothesis mass_pos : forall a b, a <= b -> (b < 0 \/ 0 < a) -> 0 <= mass a b.
  Hypothesis mass_proper : forall a a' b b', a == a' -> b == b' -> mass a b == mass a' b'.

  (* cells of consecutive states share their end point (no gap), a cell ends before every later cell begins (no
     overlap beyond end points), the first cell starts at x_0 and the last ends at x_n, the cells next to the origin
     end/start at the boundaries h_left < 0 < h_right of the central cell, and every state lies in its own cell,
     strictly inside on every side where it has a neighbour *)
  Theorem C01_cells_tile : forall xs o h, admissible xs o h ->
    let n := length xs in
    (forall k, (k < n)%nat -> cell_lo mid xs k <= nthq xs k <= cell_hi mid xs k
                 /\ ((1 <= k)%nat -> cell_lo mid xs k < nthq xs k) /\ ((k + 1 < n)%nat -> nthq xs k < cell_hi mid xs k))
    /\ (forall k, (k + 1 < n)%nat -> cell_hi mid xs k = cell_lo mid xs (k + 1))
    /\ (forall k k', (k < k')%nat -> (k' < n)%nat -> cell_hi mid xs k <= cell_lo mid xs k')
    /\ cell_lo mid xs 0 == headq xs /\ cell_hi mid xs (n - 1) == lastq xs
    /\ cell_hi mid xs (o - 1) == h_left mid xs o /\ cell_lo mid xs (o + 1) == h_right mid xs o
    /\ h_left mid xs o < 0 /\ 0 < h_right mid xs o.
  Proof. intros xs o h A. apply (cells_tile mid) with (h := h); assumption. Qed.

  (* the cell of every state left (right) of the origin lies strictly left (right) of 0: no rate involves the mass near 0 *)
  Theorem C01_cells_avoid_origin : forall xs o h, admissible xs o h ->
    forall k, (k < length xs)%nat -> ((k < o)%nat -> cell_hi mid xs k < 0) /\ ((o < k)%nat -> 0 < cell_lo mid xs k).
  Proof.
    intros xs o h A. pose proof (admissible_ends xs o h A). destruct A as (Hi & H1 & H2 & _ & H0 & _).
    apply (cell_side mid); assumption.
  Qed.

  Theorem C01_rates_nonneg : forall xs o h k, admissible xs o h -> (k < length xs)%nat -> 0 <= q_entry mid mass xs o k.
  Proof. intros. apply (rates_nonneg mid) with (h := h); assumption. Qed.

  (* sum of the rates == the intensity the process reports, for every admissible axis of any length *)
  Theorem C01_sum_rates_is_intensity_1d : forall xs o h, admissible xs o h ->
    qsum (q_vector mid mass xs o) == intensity1 mid mass xs o.
  Proof. intros xs o h A. apply (sum_rates_is_intensity_1d mid) with (h := h); assumption. Qed.

  (* the truncated measure TruncatedLevyMeasure(nu, (l, r)), l < 0 < r, is again additive and non-negative away from 0, equals
     nu on sub-intervals of [l,r] and is the mass of the intersection in general: all theorems above apply to it *)
  Theorem C01_truncated_mass : forall l r, l < 0 -> 0 < r ->
    (forall a b c, a <= b -> b <= c -> (c < 0 \/ 0 < a) -> tmass mass l r a c == tmass mass l r a b + tmass mass l r b c)
    /\ (forall a b, a <= b -> (b < 0 \/ 0 < a) -> 0 <= tmass mass l r a b)
    /\ (forall a a' b b', a == a' -> b == b' -> tmass mass l r a b == tmass mass l r a' b')
    /\ (forall a b, l <= a -> a <= b -> b <= r -> tmass mass l r a b == mass a b)
    /\ (forall a b, a <= b -> Qmaxb a l <= Qminb b r -> tmass mass l r a b == mass (Qmaxb a l) (Qminb b r)).
  Proof. intros l r Hl Hr. apply (truncated_mass mass); assumption. Qed.

  (* what MarkovChainProcess actually builds: the measure truncated to (axis[0], axis[-1]) *)
  Theorem C01_chain_rates : forall xs o h, admissible xs o h ->
    let m := tmass mass (headq xs) (lastq xs) in
    qsum (q_vector mid m xs o) == intensity1 mid m xs o
    /\ (forall k, (k < length xs)%nat -> 0 <= q_entry mid m xs o k)
    /\ (forall k, (k < length xs)%nat -> k <> o -> q_entry mid m xs o k == mass (cell_lo mid xs k) (cell_hi mid xs k)).
  Proof. intros xs o h A. apply (chain_rates mid) with (h := h); assumption. Qed.

  (* every refinement level: the chain built on the axis refined n times (stateless middle) *)
  Hypothesis mid_left0 : forall x y, y == 0 -> mid x y == x / 2.
  Hypothesis mid_right0 : forall x y, x == 0 -> mid x y == y / 2.
  Theorem C01_refined : forall n xs o h, admissible xs o h ->
    let xs' := refine_axis_n mid n xs in let o' := (2 ^ n * o)%nat in
    qsum (q_vector mid mass xs' o') == intensity1 mid mass xs' o'
    /\ (forall k, (k < length xs')%nat -> 0 <= q_entry mid mass xs' o' k).
  Proof.
    intros n xs o h A xs' o'.
    pose proof (refine_n_admissible mid mid_between mid_left0 mid_right0 n xs o h A) as A'. fold xs' o' in A'.
    split; [apply (sum_rates_is_intensity_1d mid) with (h := h / inject_Z (2 ^ Z.of_nat n)); assumption|].
    intros k Hk. apply (rates_nonneg mid) with (h := h / inject_Z (2 ^ Z.of_nat n)); assumption.
  Qed.
End Measure.

(* ---------------- dimension 2: the product grid of a copula chain (Model/Chain.v: q_entry2 / q_matrix2 / intensity2, the 3^2-1
   blocks of compute_intensity_of_jumps).  mass2 a b = model.mass(a, b), the rectangle mass: additive under a split of either
   coordinate interval and non-negative ON BOXES THAT AVOID THE ORIGIN (what C12 is about; not formally composed) *)
Section Measure2d.
  Variable mid : Q -> Q -> Q.
  Hypothesis mid_between : forall x y, x < y -> x < mid x y /\ mid x y < y.
  Hypothesis mid_refl : forall x, ~ x == 0 -> mid x x == x.
  Hypothesis mid_proper : forall x x' y y', x == x' -> y == y' -> mid x y == mid x' y'.
  Variable mass2 : Q * Q -> Q * Q -> Q.
  Hypothesis mass2_add1 : forall a1 b1 c1 y1 y2, a1 <= b1 -> b1 <= c1 -> avoids (a1, y1) (c1, y2) ->
    mass2 (a1, y1) (c1, y2) == mass2 (a1, y1) (b1, y2) + mass2 (b1, y1) (c1, y2).
  Hypothesis mass2_add2 : forall x1 x2 a2 b2 c2, a2 <= b2 -> b2 <= c2 -> avoids (x1, a2) (x2, c2) ->
    mass2 (x1, a2) (x2, c2) == mass2 (x1, a2) (x2, b2) + mass2 (x1, b2) (x2, c2).
  Hypothesis mass2_pos : forall a b, fst a <= fst b -> snd a <= snd b -> avoids a b -> 0 <= mass2 a b.
  Hypothesis mass2_proper : forall a1 a2 b1 b2 a1' a2' b1' b2', a1 == a1' -> a2 == a2' -> b1 == b1' -> b2 == b2' ->
    mass2 (a1, a2) (b1, b2) == mass2 (a1', a2') (b1', b2').

  (* the rates of ALL non-origin states of the product grid sum to the intensity the process reports (the eight blocks),
     for any two admissible axes of any lengths sharing the origin index: telescoping axis by axis *)
  Theorem C01_sum_rates_is_intensity_2d : forall xs ys o hx hy, admissible xs o hx -> admissible ys o hy ->
    qsum2 (q_matrix2 mid mass2 xs ys o) == intensity2 mid mass2 xs ys o.
  Proof. intros xs ys o hx hy Ax Ay. apply (sum_rates_is_intensity_2d mid) with (hx := hx) (hy := hy); assumption. Qed.

  (* the product cells tile the truncated box minus the central cell; every state lies in its own cell *)
  Theorem C01_cells_tile_2d : forall xs ys o hx hy, admissible xs o hx -> admissible ys o hy ->
    (forall i j, (i < length xs)%nat -> (j < length ys)%nat ->
       (cell_lo mid xs i <= nthq xs i <= cell_hi mid xs i /\ cell_lo mid ys j <= nthq ys j <= cell_hi mid ys j)
       /\ ((i, j) <> (o, o) -> avoids (cell_lo mid xs i, cell_lo mid ys j) (cell_hi mid xs i, cell_hi mid ys j))
       /\ ((i + 1 < length xs)%nat -> cell_hi mid xs i = cell_lo mid xs (i + 1))
       /\ ((j + 1 < length ys)%nat -> cell_hi mid ys j = cell_lo mid ys (j + 1)))
    /\ cell_lo mid xs 0 == headq xs /\ cell_hi mid xs (length xs - 1) == lastq xs
    /\ cell_lo mid ys 0 == headq ys /\ cell_hi mid ys (length ys - 1) == lastq ys
    /\ cell_hi mid xs (o - 1) == h_left mid xs o /\ cell_lo mid xs (o + 1) == h_right mid xs o
    /\ cell_hi mid ys (o - 1) == h_left mid ys o /\ cell_lo mid ys (o + 1) == h_right mid ys o.
  Proof. intros xs ys o hx hy Ax Ay. apply (cells_tile_2d mid) with (hx := hx) (hy := hy); assumption. Qed.

  Theorem C01_rates_nonneg_2d : forall xs ys o hx hy i j, admissible xs o hx -> admissible ys o hy ->
    (i < length xs)%nat -> (j < length ys)%nat -> 0 <= q_entry2 mid mass2 xs ys o i j.
  Proof. intros xs ys o hx hy i j Ax Ay. apply (rates_nonneg_2d mid) with (hx := hx) (hy := hy); assumption. Qed.
End Measure2d.

(* _truncated_interval (generated from the source): intersection with [l,r], degenerate when disjoint *)
Theorem C01_truncated_interval : forall l r a b, l <= r -> a <= b ->
  let '(aa, bb) := truncated_interval l r a b in
  aa <= bb /\ l <= aa /\ bb <= r
  /\ (Qmaxb a l <= Qminb b r -> aa == Qmaxb a l /\ bb == Qminb b r)
  /\ (b < l -> aa == l /\ bb == l) /\ (r < a -> aa == r /\ bb == r)
  /\ (l <= a -> b <= r -> aa == a /\ bb == b).
Proof. exact truncated_interval_spec. Qed.

(* the hypotheses are satisfiable: the step measures used to run the model are additive and non-negative *)
Theorem C01_step_mass_is_a_measure : forall ps, Forall (fun p => 0 <= snd p) ps ->
  (forall a b c, a <= b -> b <= c -> step_mass ps a c == step_mass ps a b + step_mass ps b c)
  /\ (forall a b, 0 <= step_mass ps a b)
  /\ (forall a a' b b', a == a' -> b == b' -> step_mass ps a b == step_mass ps a' b').
Proof.
  intros ps H. split; [exact (step_mass_add ps)|]. split; [intros; apply step_mass_pos; exact H|exact (step_mass_proper ps)].
Qed.

(* non-vacuity: a concrete chain run through the model (density 3 on [-2,0], 3/2 on [0,3]) *)
Example C01_nonvacuous :
  let ps := [(-2, 0, 3); (0, 3, 3#2)] in let xs := [-2; -1; -(1#2); 0; 1#2; 2; 3] in
  Qeq_bool (qsum (chain_q_vector ps xs 3)) (chain_intensity ps xs 3) = true
  /\ Qeq_bool (chain_intensity ps xs 3) (75 # 8) = true
  /\ admissibleb xs 3 (1#2) = true.
Proof. vm_compute. repeat split. Qed.

Example C01_nonvacuous_2d :
  let ps := [(1#4, 1#2, -(1#4), 1#4, 4); (1#2, 3#4, 1#4, 2, 4); (-2, -1, -2, 1, 3)] in let xs := [-2; -1; 0; 1; 2] in
  Qeq_bool (qsum2 (q_matrix2 amid (step_mass2 ps) xs xs 2)) (intensity2 amid (step_mass2 ps) xs xs 2) = true
  /\ Qeq_bool (intensity2 amid (step_mass2 ps) xs xs 2) (43 # 4) = true.
Proof. vm_compute. repeat split. Qed.

Print Assumptions C01_cells_tile.
Print Assumptions C01_cells_avoid_origin.
Print Assumptions C01_rates_nonneg.
Print Assumptions C01_sum_rates_is_intensity_1d.
Print Assumptions C01_truncated_mass.
Print Assumptions C01_chain_rates.
Print Assumptions C01_refined.
Print Assumptions C01_sum_rates_is_intensity_2d.
Print Assumptions C01_cells_tile_2d.
Print Assumptions C01_rates_nonneg_2d.
Print Assumptions C01_truncated_interval.
Print Assumptions C01_step_mass_is_a_measure.
Print Assumptions C01_nonvacuous.
Print Assumptions C01_nonvacuous_2d.

(* C01 -- CTMC jump rates are the Levy-measure masses of the grid cells.  Only statements; proofs in Proofs/C01_Chain.v,
   Proofs/C01_Chain2d.v (dimension 2), Proofs/C01_Chain3d.v (dimension 3), Proofs/C01_GenTie.v (generated loops), Proofs/C01_Factory.v
   (ALIAS / TABLE path, composed with C02), Proofs/C01_ChainR.v (over R, composed with C09), Proofs/C01_NdClamp.v (wave 7: the code's n-d
   clamp, Model/ChainNdClamp.v) and Proofs/C01_CopulaTrunc.v (wave 7: which measure a copula chain integrates; composed with C12/C19).
   Model: Model/Chain.v, Model/Chain3d.v (samplingfactory.create_q_vector / compute_intensity_of_jumps, TruncatedLevyMeasure) over
   Model/Grid.v; `_truncated_interval` is the py2coq-generated Gen/GenC01Trunc.v.
   The theorems are stated inside a Section for an ARBITRARY interval mass `mass a b` (= LevyMeasure.integrate) that is
   additive and non-negative ON INTERVALS NOT CONTAINING THE ORIGIN (so that infinite-activity measures qualify), over Q
   (the link to C09's real-valued closed forms IS formal since wave 6: see the part OVER THE REALS at the end of this file:
   C01_hem_chain_rates, C01_merton_chain_rates, C01_vg_chain_rates), and for an arbitrary `mid` (= grid.middle
   at one fixed level) with the stated properties; only the arithmetic mean `amid` is a PROVED instance of `mid`:
   mid_between is required of ALL x < y, which CTMCGridProbabilityStep.middle violates (middle(-0.001, 0) = -h/2), so the
   probability-step grid is covered by the per-state oracle of props/C01.py, not by these theorems. *)
From Coq Require Import ZArith QArith List.
From RV Require Import Base.QB Model.Grid Gen.GenC01Trunc Model.Chain Model.Chain3d Proofs.C13_Grid Proofs.C01_Chain Proofs.C01_Chain2d
  Proofs.C01_Chain3d Gen.GenTieChain Proofs.Tie_Chain Proofs.C01_GenTie Gen.GenTieChain2d Proofs.Tie_Chain2d Model.ChainNdClamp Proofs.C01_NdClamp.
From RV Require Model.StepLaw Model.Bst Model.Alias Model.Table Model.Factory Proofs.C02_Alias Proofs.C02_Table Proofs.C01_Factory.
Import ListNotations.
Open Scope Q_scope.

Section Measure.
  Variable mid : Q -> Q -> Q.
  Hypothesis mid_between : forall x y, x < y -> x < mid x y /\ mid x y < y.
  Hypothesis mid_refl : forall x, ~ x == 0 -> mid x x == x.      (* needed at the two end points of the axis only *)
  Hypothesis mid_proper : forall x x' y y', x == x' -> y == y' -> mid x y == mid x' y'.
  Variable mass : Q -> Q -> Q.
  (* additivity and positivity are required ONLY of intervals that do not contain the origin: there every Levy measure is
     finite, also the infinite-activity ones (VG, CGMY) whose mass near 0 is infinite *)
  Hypothesis mass_add : forall a b c, a <= b -> b <= c -> (c < 0 \/ 0 < a) -> mass a c == mass a b + mass b c.
  Hypothesis mass_pos : forall a b, a <= b -> (b < 0 \/ 0 < a) -> 0 <= mass a b.
  Hypothesis mass_proper : forall a a' b b', a == a' -> b == b' -> mass a b == mass a' b'.

  (* cells of consecutive states share their end point (no gap), a cell ends before every later cell begins (no
     overlap beyond end points), the first cell starts at x_0 and the last ends at x_n, the cells next to the origin
     end/start at the boundaries h_left < 0 < h_right of the central cell, and every state lies in its own cell,
     strictly inside on every side where it has a neighbour *)
  Theorem C01_cells_tile : forall xs o h, admissible xs o h ->
    let n := length xs in
    (forall k, (k < n)%nat -> cell_lo mid xs k <= nthq xs k <= cell_hi mid xs k
                 /\ ((1 <= k)%nat -> cell_lo mid xs k < nthq xs k) /\ ((k + 1 < n)%nat -> nthq xs k < cell_hi mid xs k))
    /\ (forall k, (k + 1 < n)%nat -> cell_hi mid xs k = cell_lo mid xs (k + 1))
    /\ (forall k k', (k < k')%nat -> (k' < n)%nat -> cell_hi mid xs k <= cell_lo mid xs k')
    /\ cell_lo mid xs 0 == headq xs /\ cell_hi mid xs (n - 1) == lastq xs
    /\ cell_hi mid xs (o - 1) == h_left mid xs o /\ cell_lo mid xs (o + 1) == h_right mid xs o
    /\ h_left mid xs o < 0 /\ 0 < h_right mid xs o.
  Proof. intros xs o h A. apply (cells_tile mid) with (h := h); assumption. Qed.

  (* the cell of every state left (right) of the origin lies strictly left (right) of 0: no rate involves the mass near 0 *)
  Theorem C01_cells_avoid_origin : forall xs o h, admissible xs o h ->
    forall k, (k < length xs)%nat -> ((k < o)%nat -> cell_hi mid xs k < 0) /\ ((o < k)%nat -> 0 < cell_lo mid xs k).
  Proof.
    intros xs o h A. pose proof (admissible_ends xs o h A). destruct A as (Hi & H1 & H2 & _ & H0 & _).
    apply (cell_side mid); assumption.
  Qed.

  Theorem C01_rates_nonneg : forall xs o h k, admissible xs o h -> (k < length xs)%nat -> 0 <= q_entry mid mass xs o k.
  Proof. intros. apply (rates_nonneg mid) with (h := h); assumption. Qed.

  (* sum of the rates == the intensity the process reports, for every admissible axis of any length *)
  Theorem C01_sum_rates_is_intensity_1d : forall xs o h, admissible xs o h ->
    qsum (q_vector mid mass xs o) == intensity1 mid mass xs o.
  Proof. intros xs o h A. apply (sum_rates_is_intensity_1d mid) with (h := h); assumption. Qed.

  (* the truncated measure TruncatedLevyMeasure(nu, (l, r)), l < 0 < r, is again additive and non-negative away from 0, equals
     nu on sub-intervals of [l,r] and is the mass of the intersection in general: all theorems above apply to it *)
  Theorem C01_truncated_mass : forall l r, l < 0 -> 0 < r ->
    (forall a b c, a <= b -> b <= c -> (c < 0 \/ 0 < a) -> tmass mass l r a c == tmass mass l r a b + tmass mass l r b c)
    /\ (forall a b, a <= b -> (b < 0 \/ 0 < a) -> 0 <= tmass mass l r a b)
    /\ (forall a a' b b', a == a' -> b == b' -> tmass mass l r a b == tmass mass l r a' b')
    /\ (forall a b, l <= a -> a <= b -> b <= r -> tmass mass l r a b == mass a b)
    /\ (forall a b, a <= b -> Qmaxb a l <= Qminb b r -> tmass mass l r a b == mass (Qmaxb a l) (Qminb b r)).
  Proof. intros l r Hl Hr. apply (truncated_mass mass); assumption. Qed.

  (* what MarkovChainProcess actually builds: the measure truncated to (axis[0], axis[-1]) *)
  Theorem C01_chain_rates : forall xs o h, admissible xs o h ->
    let m := tmass mass (headq xs) (lastq xs) in
    qsum (q_vector mid m xs o) == intensity1 mid m xs o
    /\ (forall k, (k < length xs)%nat -> 0 <= q_entry mid m xs o k)
    /\ (forall k, (k < length xs)%nat -> k <> o -> q_entry mid m xs o k == mass (cell_lo mid xs k) (cell_hi mid xs k)).
  Proof. intros xs o h A. apply (chain_rates mid) with (h := h); assumption. Qed.

  (* every refinement level: the chain built on the axis refined n times (stateless middle) *)
  Hypothesis mid_left0 : forall x y, y == 0 -> mid x y == x / 2.
  Hypothesis mid_right0 : forall x y, x == 0 -> mid x y == y / 2.
  Theorem C01_refined : forall n xs o h, admissible xs o h ->
    let xs' := refine_axis_n mid n xs in let o' := (2 ^ n * o)%nat in
    qsum (q_vector mid mass xs' o') == intensity1 mid mass xs' o'
    /\ (forall k, (k < length xs')%nat -> 0 <= q_entry mid mass xs' o' k).
  Proof.
    intros n xs o h A xs' o'.
    pose proof (refine_n_admissible mid mid_between mid_left0 mid_right0 n xs o h A) as A'. fold xs' o' in A'.
    split; [apply (sum_rates_is_intensity_1d mid) with (h := h / inject_Z (2 ^ Z.of_nat n)); assumption|].
    intros k Hk. apply (rates_nonneg mid) with (h := h / inject_Z (2 ^ Z.of_nat n)); assumption.
  Qed.
End Measure.

(* ---------------- dimension 2: the product grid of a copula chain (Model/Chain.v: q_entry2 / q_matrix2 / intensity2, the 3^2-1
   blocks of compute_intensity_of_jumps).  mass2 a b = model.mass(a, b), the rectangle mass: additive under a split of either
   coordinate interval and non-negative ON BOXES THAT AVOID THE ORIGIN.  WHICH measure: model = the chain's model_tilde, i.e. the copula
   applied to the margins TRUNCATED to the axes -- not the restriction of the model's Levy measure to the grid box; see the part
   "WHICH MEASURE" below, where additivity is a theorem for the code's mass (composition with C12/C19) and the other reading is refuted.
   Wave 7 (audit 4 X-d): the rates are those of the code's clamp (Model/ChainNdClamp.v q_matrix2_c / q_tensor3_c: CTMCGrid.right_point on a
   CoordinateND clamps EVERY axis with len(axes[0]); None = IndexError); the theorems need the axes to have EQUAL LENGTHS, as every
   constructor of the library builds them -- C01_unequal_lengths_refuted shows the hypothesis cannot be dropped. *)
Section Measure2d.
  Variable mid : Q -> Q -> Q.
  Hypothesis mid_between : forall x y, x < y -> x < mid x y /\ mid x y < y.
  Hypothesis mid_refl : forall x, ~ x == 0 -> mid x x == x.
  Hypothesis mid_proper : forall x x' y y', x == x' -> y == y' -> mid x y == mid x' y'.
  Variable mass2 : Q * Q -> Q * Q -> Q.
  Hypothesis mass2_add1 : forall a1 b1 c1 y1 y2, a1 <= b1 -> b1 <= c1 -> avoids (a1, y1) (c1, y2) ->
    mass2 (a1, y1) (c1, y2) == mass2 (a1, y1) (b1, y2) + mass2 (b1, y1) (c1, y2).
  Hypothesis mass2_add2 : forall x1 x2 a2 b2 c2, a2 <= b2 -> b2 <= c2 -> avoids (x1, a2) (x2, c2) ->
    mass2 (x1, a2) (x2, c2) == mass2 (x1, a2) (x2, b2) + mass2 (x1, b2) (x2, c2).
  Hypothesis mass2_pos : forall a b, fst a <= fst b -> snd a <= snd b -> avoids a b -> 0 <= mass2 a b.
  Hypothesis mass2_proper : forall a1 a2 b1 b2 a1' a2' b1' b2', a1 == a1' -> a2 == a2' -> b1 == b1' -> b2 == b2' ->
    mass2 (a1, a2) (b1, b2) == mass2 (a1', a2') (b1', b2').

  (* the rates of ALL non-origin states of the product grid, as the code computes them, exist (no IndexError) and sum to the intensity the
     process reports (the eight blocks), for any two admissible axes OF EQUAL LENGTHS sharing the origin index: telescoping axis by axis *)
  Theorem C01_sum_rates_is_intensity_2d : forall xs ys o hx hy, admissible xs o hx -> admissible ys o hy -> length ys = length xs ->
    exists t, q_matrix2_c mid mass2 xs ys o = Some t /\ t = q_matrix2 mid mass2 xs ys o /\ qsum2 t == intensity2 mid mass2 xs ys o.
  Proof.
    intros xs ys o hx hy Ax Ay E. exists (q_matrix2 mid mass2 xs ys o). split; [apply q_matrix2_c_eq; exact E|]. split; [reflexivity|].
    apply (sum_rates_is_intensity_2d mid) with (hx := hx) (hy := hy); assumption.
  Qed.

  (* the product cells tile the truncated box minus the central cell; every state lies in its own cell; on axes of equal lengths the
     code's upper cell bound (clamp with len(axes[0])) is the cell's *)
  Theorem C01_cells_tile_2d : forall xs ys o hx hy, admissible xs o hx -> admissible ys o hy -> length ys = length xs ->
    (forall i j, (i < length xs)%nat -> (j < length ys)%nat ->
       (cell_hi_c mid (length xs) xs i = Some (cell_hi mid xs i) /\ cell_hi_c mid (length xs) ys j = Some (cell_hi mid ys j))
       /\ (cell_lo mid xs i <= nthq xs i <= cell_hi mid xs i /\ cell_lo mid ys j <= nthq ys j <= cell_hi mid ys j)
       /\ ((i, j) <> (o, o) -> avoids (cell_lo mid xs i, cell_lo mid ys j) (cell_hi mid xs i, cell_hi mid ys j))
       /\ ((i + 1 < length xs)%nat -> cell_hi mid xs i = cell_lo mid xs (i + 1))
       /\ ((j + 1 < length ys)%nat -> cell_hi mid ys j = cell_lo mid ys (j + 1)))
    /\ cell_lo mid xs 0 == headq xs /\ cell_hi mid xs (length xs - 1) == lastq xs
    /\ cell_lo mid ys 0 == headq ys /\ cell_hi mid ys (length ys - 1) == lastq ys
    /\ cell_hi mid xs (o - 1) == h_left mid xs o /\ cell_lo mid xs (o + 1) == h_right mid xs o
    /\ cell_hi mid ys (o - 1) == h_left mid ys o /\ cell_lo mid ys (o + 1) == h_right mid ys o.
  Proof.
    intros xs ys o hx hy Ax Ay E. destruct (cells_tile_2d mid mid_between mid_refl mid_proper xs ys o hx hy Ax Ay) as (T & R).
    split; [|exact R]. intros i j Hi Hj. split; [|apply T; assumption].
    split; [apply cell_hi_c_eq; [reflexivity|exact Hi]|apply cell_hi_c_eq; [exact E|exact Hj]].
  Qed.

  Theorem C01_rates_nonneg_2d : forall xs ys o hx hy i j, admissible xs o hx -> admissible ys o hy -> length ys = length xs ->
    (i < length xs)%nat -> (j < length ys)%nat -> exists r, q_entry2_c mid mass2 xs ys o i j = Some r /\ 0 <= r.
  Proof.
    intros xs ys o hx hy i j Ax Ay E Hi Hj. exists (q_entry2 mid mass2 xs ys o i j). split; [apply q_entry2_c_eq; assumption|].
    apply (rates_nonneg_2d mid) with (hx := hx) (hy := hy); assumption.
  Qed.
End Measure2d.

(* ---------------- dimension 3: the product grid of a 3-d copula chain (Model/Chain3d.v: q_entry3 / q_tensor3 / intensity3, the
   3^3-1 = 26 boxes of compute_intensity_of_jumps).  mass3 a b = LevyCopulaModel.mass(a, b) (_mass_3d), the box mass: additive under
   a split of any one coordinate interval and non-negative ON BOXES THAT AVOID THE ORIGIN.  The three axes may differ (points, spatial
   steps hx hy hz) but have EQUAL LENGTHS (the code clamps every axis with len(axes[0])); they share the origin index, as CTMCGrid's single
   origin_coordinate imposes. *)
Section Measure3d.
  Variable mid : Q -> Q -> Q.
  Hypothesis mid_between : forall x y, x < y -> x < mid x y /\ mid x y < y.
  Hypothesis mid_refl : forall x, ~ x == 0 -> mid x x == x.
  Hypothesis mid_proper : forall x x' y y', x == x' -> y == y' -> mid x y == mid x' y'.
  Variable mass3 : Q3 -> Q3 -> Q.
  Hypothesis mass3_add1 : forall a b c y1 y2 z1 z2, a <= b -> b <= c -> avoids3 (a, y1, z1) (c, y2, z2) ->
    mass3 (a, y1, z1) (c, y2, z2) == mass3 (a, y1, z1) (b, y2, z2) + mass3 (b, y1, z1) (c, y2, z2).
  Hypothesis mass3_add2 : forall x1 x2 a b c z1 z2, a <= b -> b <= c -> avoids3 (x1, a, z1) (x2, c, z2) ->
    mass3 (x1, a, z1) (x2, c, z2) == mass3 (x1, a, z1) (x2, b, z2) + mass3 (x1, b, z1) (x2, c, z2).
  Hypothesis mass3_add3 : forall x1 x2 y1 y2 a b c, a <= b -> b <= c -> avoids3 (x1, y1, a) (x2, y2, c) ->
    mass3 (x1, y1, a) (x2, y2, c) == mass3 (x1, y1, a) (x2, y2, b) + mass3 (x1, y1, b) (x2, y2, c).
  Hypothesis mass3_pos : forall a b, p1 a <= p1 b -> p2 a <= p2 b -> p3 a <= p3 b -> avoids3 a b -> 0 <= mass3 a b.
  Hypothesis mass3_proper : forall a1 a2 a3 b1 b2 b3 a1' a2' a3' b1' b2' b3',
    a1 == a1' -> a2 == a2' -> a3 == a3' -> b1 == b1' -> b2 == b2' -> b3 == b3' ->
    mass3 (a1, a2, a3) (b1, b2, b3) == mass3 (a1', a2', a3') (b1', b2', b3').

  (* the rates of ALL non-origin states of the 3-d product grid, as the code computes them, exist and sum to the intensity the process
     reports (the 26 boxes), for any three admissible axes OF EQUAL LENGTHS sharing the origin index: telescoping axis by axis *)
  Theorem C01_sum_rates_is_intensity_3d : forall xs ys zs o hx hy hz, admissible xs o hx -> admissible ys o hy -> admissible zs o hz ->
    length ys = length xs -> length zs = length xs ->
    exists t, q_tensor3_c mid mass3 xs ys zs o = Some t /\ t = q_tensor3 mid mass3 xs ys zs o /\ qsum3 t == intensity3 mid mass3 xs ys zs o.
  Proof.
    intros xs ys zs o hx hy hz Ax Ay Az E1 E2. exists (q_tensor3 mid mass3 xs ys zs o). split; [apply q_tensor3_c_eq; assumption|]. split; [reflexivity|].
    apply (sum_rates_is_intensity_3d mid mid_between mid_refl mid_proper mass3 mass3_add1 mass3_add2 mass3_add3 mass3_proper)
      with (hx := hx) (hy := hy) (hz := hz); assumption.
  Qed.

  (* the product cells tile the truncated box minus the central cell: every state lies in its own cell, the cell of every
     non-origin state avoids the origin (so its mass is finite also for infinite-activity margins), neighbouring cells share a
     face along each axis, the outermost faces are the truncation bounds and the innermost ones the faces of the central cell *)
  Theorem C01_cells_tile_3d : forall xs ys zs o hx hy hz, admissible xs o hx -> admissible ys o hy -> admissible zs o hz ->
    length ys = length xs -> length zs = length xs ->
    (forall i j k, (i < length xs)%nat -> (j < length ys)%nat -> (k < length zs)%nat ->
       (cell_hi_c mid (length xs) xs i = Some (cell_hi mid xs i) /\ cell_hi_c mid (length xs) ys j = Some (cell_hi mid ys j)
        /\ cell_hi_c mid (length xs) zs k = Some (cell_hi mid zs k))
       /\ (cell_lo mid xs i <= nthq xs i <= cell_hi mid xs i /\ cell_lo mid ys j <= nthq ys j <= cell_hi mid ys j
        /\ cell_lo mid zs k <= nthq zs k <= cell_hi mid zs k)
       /\ ((i, j, k) <> (o, o, o) ->
           avoids3 (cell_lo mid xs i, cell_lo mid ys j, cell_lo mid zs k) (cell_hi mid xs i, cell_hi mid ys j, cell_hi mid zs k))
       /\ ((i + 1 < length xs)%nat -> cell_hi mid xs i = cell_lo mid xs (i + 1))
       /\ ((j + 1 < length ys)%nat -> cell_hi mid ys j = cell_lo mid ys (j + 1))
       /\ ((k + 1 < length zs)%nat -> cell_hi mid zs k = cell_lo mid zs (k + 1)))
    /\ (cell_lo mid xs 0 == headq xs /\ cell_hi mid xs (length xs - 1) == lastq xs
        /\ cell_hi mid xs (o - 1) == h_left mid xs o /\ cell_lo mid xs (o + 1) == h_right mid xs o)
    /\ (cell_lo mid ys 0 == headq ys /\ cell_hi mid ys (length ys - 1) == lastq ys
        /\ cell_hi mid ys (o - 1) == h_left mid ys o /\ cell_lo mid ys (o + 1) == h_right mid ys o)
    /\ (cell_lo mid zs 0 == headq zs /\ cell_hi mid zs (length zs - 1) == lastq zs
        /\ cell_hi mid zs (o - 1) == h_left mid zs o /\ cell_lo mid zs (o + 1) == h_right mid zs o).
  Proof.
    intros xs ys zs o hx hy hz Ax Ay Az E1 E2.
    destruct (cells_tile_3d mid mid_between mid_refl mid_proper xs ys zs o hx hy hz Ax Ay Az) as (T & R).
    split; [|exact R]. intros i j k Hi Hj Hk. split; [|apply T; assumption].
    split; [apply cell_hi_c_eq; [reflexivity|exact Hi]|]. split; [apply cell_hi_c_eq; [exact E1|exact Hj]|apply cell_hi_c_eq; [exact E2|exact Hk]].
  Qed.

  Theorem C01_rates_nonneg_3d : forall xs ys zs o hx hy hz i j k, admissible xs o hx -> admissible ys o hy -> admissible zs o hz ->
    length ys = length xs -> length zs = length xs ->
    (i < length xs)%nat -> (j < length ys)%nat -> (k < length zs)%nat -> exists r, q_entry3_c mid mass3 xs ys zs o i j k = Some r /\ 0 <= r.
  Proof.
    intros xs ys zs o hx hy hz i j k Ax Ay Az E1 E2 Hi Hj Hk. exists (q_entry3 mid mass3 xs ys zs o i j k). split; [apply q_entry3_c_eq; assumption|].
    apply (rates_nonneg_3d mid mid_between mid_refl mid_proper mass3 mass3_pos) with (hx := hx) (hy := hy) (hz := hz); assumption.
  Qed.
End Measure3d.

(* the hypotheses of Section Measure3d are satisfiable, and discharged for the family the correspondence group chain3d runs: the box mass of a
   3-d density table with non-negative densities is additive in each coordinate, non-negative and respects == on ALL boxes.  step_mass3 is the
   integral of the HARNESS's table (harness/c01_table3.py TableN), not a model of LevyCopulaModel._mass_3d: that the library's mass of a cell
   equals it is what the exact group chain3d compares per state (tables supported inside the grid: truncation inactive). *)
Theorem C01_table_mass3_is_a_measure : forall ps, Forall (fun p => 0 <= dens3 p) ps ->
  (forall a b c y1 y2 z1 z2, a <= b -> b <= c ->
     step_mass3 ps (a, y1, z1) (c, y2, z2) == step_mass3 ps (a, y1, z1) (b, y2, z2) + step_mass3 ps (b, y1, z1) (c, y2, z2))
  /\ (forall x1 x2 a b c z1 z2, a <= b -> b <= c ->
     step_mass3 ps (x1, a, z1) (x2, c, z2) == step_mass3 ps (x1, a, z1) (x2, b, z2) + step_mass3 ps (x1, b, z1) (x2, c, z2))
  /\ (forall x1 x2 y1 y2 a b c, a <= b -> b <= c ->
     step_mass3 ps (x1, y1, a) (x2, y2, c) == step_mass3 ps (x1, y1, a) (x2, y2, b) + step_mass3 ps (x1, y1, b) (x2, y2, c))
  /\ (forall a b, 0 <= step_mass3 ps a b)
  /\ (forall a1 a2 a3 b1 b2 b3 a1' a2' a3' b1' b2' b3', a1 == a1' -> a2 == a2' -> a3 == a3' -> b1 == b1' -> b2 == b2' -> b3 == b3' ->
     step_mass3 ps (a1, a2, a3) (b1, b2, b3) == step_mass3 ps (a1', a2', a3') (b1', b2', b3')).
Proof.
  intros ps H. split; [exact (step_mass3_add1 ps)|]. split; [exact (step_mass3_add2 ps)|]. split; [exact (step_mass3_add3 ps)|].
  split; [intros; apply step_mass3_pos; exact H|exact (step_mass3_proper ps)].
Qed.

(* composed: for the 3-d table chains NO hypothesis on the mass is left (arithmetic-mean middle, the one CTMCGrid.middle computes) *)
Theorem C01_table_chain_3d : forall ps xs ys zs o hx hy hz, Forall (fun p => 0 <= dens3 p) ps ->
  admissible xs o hx -> admissible ys o hy -> admissible zs o hz -> length ys = length xs -> length zs = length xs ->
  (exists t, q_tensor3_c amid (step_mass3 ps) xs ys zs o = Some t /\ qsum3 t == intensity3 amid (step_mass3 ps) xs ys zs o)
  /\ (forall i j k, (i < length xs)%nat -> (j < length ys)%nat -> (k < length zs)%nat ->
        exists r, q_entry3_c amid (step_mass3 ps) xs ys zs o i j k = Some r /\ 0 <= r).
Proof.
  intros ps xs ys zs o hx hy hz D Ax Ay Az E1 E2. destruct (step_chain_3d ps xs ys zs o hx hy hz D Ax Ay Az) as (S & P). split.
  - exists (q_tensor3 amid (step_mass3 ps) xs ys zs o). split; [apply q_tensor3_c_eq; assumption|exact S].
  - intros i j k Hi Hj Hk. exists (q_entry3 amid (step_mass3 ps) xs ys zs o i j k). split; [apply q_entry3_c_eq; assumption|apply P; assumption].
Qed.

(* ---------------- wave 7 (audit 4 X-d / D3): the code's clamp.  right_point(CoordinateND) takes min(len(axes[0]) - 1, c + 1) on EVERY axis:
   on an axis as long as axes[0] this is the axis' own right neighbour (right_point of Model/Grid.v); on a LONGER axis every index from
   len(axes[0]) - 1 on gets the point xs[len(axes[0]) - 1] as right neighbour (cells collapse / reverse); on a SHORTER axis the last index
   raises IndexError.  No constructor of the library builds unequal lengths; the public CTMCGrid(h, origin, axes) accepts them. *)
Theorem C01_code_clamp : forall n0 xs,
  (length xs = n0 -> forall k, (k < length xs)%nat -> right_point_c n0 xs k = Some (Grid.right_point xs k))
  /\ ((1 <= n0)%nat -> (n0 <= length xs)%nat -> forall k, (n0 - 1 <= k)%nat -> right_point_c n0 xs k = Some (nthq xs (n0 - 1)))
  /\ ((length xs < n0)%nat -> (1 <= length xs)%nat -> right_point_c n0 xs (length xs - 1) = None).
Proof.
  intros n0 xs. split; [intros E k Hk; apply right_point_c_eq; assumption|]. split; [intros H1 H2 k Hk; apply right_point_c_stuck; assumption|].
  apply right_point_c_raises.
Qed.

(* the equal-lengths hypothesis cannot be dropped: admissible axes of lengths (5,7,5), a density table inside the grid box: all rates exist
   but their sum is SMALLER than the reported intensity; lengths (7,5,5): the construction of the rates raises (63 of 174 states on /repo).
   Both witnesses are run on the real MarkovChainLevyCopula by the correspondence group chain3d_uneq (first witness: reported intensity 2.0, rates sum 1.5). *)
Theorem C01_unequal_lengths_refuted :
  (exists ps xs ys zs o hx hy hz t, Forall (fun p => 0 <= dens3 p) ps /\ admissible xs o hx /\ admissible ys o hy /\ admissible zs o hz
     /\ q_tensor3_c amid (step_mass3 ps) xs ys zs o = Some t /\ qsum3 t < intensity3 amid (step_mass3 ps) xs ys zs o)
  /\ (exists ps xs ys zs o hx hy hz, Forall (fun p => 0 <= dens3 p) ps /\ admissible xs o hx /\ admissible ys o hy /\ admissible zs o hz
     /\ q_tensor3_c amid (step_mass3 ps) xs ys zs o = None).
Proof. exact unequal_lengths_refuted. Qed.

(* _truncated_interval (generated from the source): intersection with [l,r], degenerate when disjoint *)
Theorem C01_truncated_interval : forall l r a b, l <= r -> a <= b ->
  let '(aa, bb) := truncated_interval l r a b in
  aa <= bb /\ l <= aa /\ bb <= r
  /\ (Qmaxb a l <= Qminb b r -> aa == Qmaxb a l /\ bb == Qminb b r)
  /\ (b < l -> aa == l /\ bb == l) /\ (r < a -> aa == r /\ bb == r)
  /\ (l <= a -> b <= r -> aa == a /\ bb == b).
Proof. exact truncated_interval_spec. Qed.

(* the hypotheses are satisfiable: the step measures used to run the model are additive and non-negative *)
Theorem C01_step_mass_is_a_measure : forall ps, Forall (fun p => 0 <= snd p) ps ->
  (forall a b c, a <= b -> b <= c -> step_mass ps a c == step_mass ps a b + step_mass ps b c)
  /\ (forall a b, 0 <= step_mass ps a b)
  /\ (forall a a' b b', a == a' -> b == b' -> step_mass ps a b == step_mass ps a' b').
Proof.
  intros ps H. split; [exact (step_mass_add ps)|]. split; [intros; apply step_mass_pos; exact H|exact (step_mass_proper ps)].
Qed.

(* non-vacuity: a concrete chain run through the model (density 3 on [-2,0], 3/2 on [0,3]) *)
Example C01_nonvacuous :
  let ps := [(-2, 0, 3); (0, 3, 3#2)] in let xs := [-2; -1; -(1#2); 0; 1#2; 2; 3] in
  Qeq_bool (qsum (chain_q_vector ps xs 3)) (chain_intensity ps xs 3) = true
  /\ Qeq_bool (chain_intensity ps xs 3) (75 # 8) = true
  /\ admissibleb xs 3 (1#2) = true.
Proof. vm_compute. repeat split. Qed.

Example C01_nonvacuous_2d :
  let ps := [(1#4, 1#2, -(1#4), 1#4, 4); (1#2, 3#4, 1#4, 2, 4); (-2, -1, -2, 1, 3)] in let xs := [-2; -1; 0; 1; 2] in
  Qeq_bool (qsum2 (q_matrix2 amid (step_mass2 ps) xs xs 2)) (intensity2 amid (step_mass2 ps) xs xs 2) = true
  /\ Qeq_bool (intensity2 amid (step_mass2 ps) xs xs 2) (43 # 4) = true.
Proof. vm_compute. repeat split. Qed.

(* three DIFFERENT admissible axes; mass inside the central cell (9/64: the intensity is less than the total mass 1132/64), in
   cells straddling one and two coordinate planes, and a zero-rate state *)
Example C01_nonvacuous_3d :
  let ps := [(1#8, 1, 1#8, 3#2, 0, 1, 4); (-2, -(1#2), 0, 1#2, 1#2, 2, 3); (-1, 0, -(3#2), -(1#4), -1, 0, 6); (0, 2, -(1#2), 0, -2, -1, 2)] in
  let xs := [-2; -1; 0; 1; 2] in let ys := [-2; -(1#2); 0; 1#2; 2] in let zs := [-2; -(3#2); 0; 3#2; 2] in
  admissibleb xs 2 1 = true /\ admissibleb ys 2 (1#2) = true /\ admissibleb zs 2 (3#2) = true
  /\ forallb (fun p => Qle_bool 0 (dens3 p)) ps = true
  /\ Qeq_bool (qsum3 (q_tensor3 amid (step_mass3 ps) xs ys zs 2)) (intensity3 amid (step_mass3 ps) xs ys zs 2) = true
  /\ Qeq_bool (intensity3 amid (step_mass3 ps) xs ys zs 2) (1123 # 64) = true
  /\ Qeq_bool (step_mass3 ps (-2, -2, -2) (2, 2, 2)) (1132 # 64) = true
  /\ Qeq_bool (q_entry3 amid (step_mass3 ps) xs ys zs 2 2 2 3) (3 # 64) = true
  /\ Qeq_bool (q_entry3 amid (step_mass3 ps) xs ys zs 2 2 1 2) (9 # 4) = true
  /\ Qeq_bool (q_entry3 amid (step_mass3 ps) xs ys zs 2 1 2 1) 0 = true.
Proof. vm_compute. repeat split. Qed.

(* ---------------- the loops REGENERATED FROM THE SOURCE (Gen/GenTieChain.v, loop plug-in of py2coq; equality proofs Proofs/Tie_Chain.v):
   create_q_vector of samplingfactory.py (np.zeros + enumerate loop + conditional store) and CTMCGrid.left_point / right_point /
   middle(float, float) of spatial.py ARE the hand models the theorems above are about (Python ints are Z in the generated code) *)
Theorem C01_gen_create_q_vector_is_model : forall (mass mid : Q -> Q -> Q) xs (o : nat),
  GenTieChain.create_q_vector mass mid xs (Z.of_nat o) = Chain.q_vector mid mass xs o.
Proof. exact gen_create_q_vector_eq_model. Qed.

(* compute_intensity_of_jumps specialised to a 1-d model (itertools.product / next / block loop unrolled by the plug-in) *)
Theorem C01_gen_compute_intensity_of_jumps_1d_is_model : forall (mass mid : Q -> Q -> Q) xs (o : nat),
  GenTieChain.compute_intensity_of_jumps_1d mass mid xs (Z.of_nat o) = Chain.intensity1 mid mass xs o.
Proof. exact gen_compute_intensity_of_jumps_1d_eq_model. Qed.

Theorem C01_gen_cell_points_are_model : forall xs (k : nat),
  GenTieChain.left_point xs (Z.of_nat k) = Grid.left_point xs k
  /\ GenTieChain.right_point xs (Z.of_nat k) = Grid.right_point xs k
  /\ (forall x y, GenTieChain.middle x y = Grid.amid x y).
Proof. intros xs k. split; [apply gen_left_point_eq_model|]. split; [apply gen_right_point_eq_model|exact gen_middle_eq_model]. Qed.

(* composed: the chain theorem stated ABOUT THE GENERATED create_q_vector / middle (what MarkovChainProcess builds: measure truncated
   to (axis[0], axis[-1])): one entry per state, entries >= 0, each non-origin entry the mass of its cell, sum = reported intensity *)
Theorem C01_gen_chain_rates : forall (mass : Q -> Q -> Q),
  (forall a b c, a <= b -> b <= c -> (c < 0 \/ 0 < a) -> mass a c == mass a b + mass b c) ->
  (forall a b, a <= b -> (b < 0 \/ 0 < a) -> 0 <= mass a b) ->
  (forall a a' b b', a == a' -> b == b' -> mass a b == mass a' b') ->
  forall xs (o : nat) h, admissible xs o h ->
  let m := tmass mass (headq xs) (lastq xs) in
  let q := GenTieChain.create_q_vector m GenTieChain.middle xs (Z.of_nat o) in
  length q = length xs
  /\ qsum q == GenTieChain.compute_intensity_of_jumps_1d m GenTieChain.middle xs (Z.of_nat o)
  /\ (forall k, (k < length xs)%nat -> 0 <= nthq q k)
  /\ (forall k, (k < length xs)%nat -> k <> o -> nthq q k == mass (cell_lo amid xs k) (cell_hi amid xs k)).
Proof. exact gen_chain_rates. Qed.

(* non-vacuity of the three: the generated loop run on the chain of C01_nonvacuous gives the hand model's vector, which is not zero *)
Example C01_gen_nonvacuous :
  let ps := [(-2, 0, 3); (0, 3, 3#2)] in let xs := [-2; -1; -(1#2); 0; 1#2; 2; 3] in
  GenTieChain.create_q_vector (chain_mass ps xs) GenTieChain.middle xs 3 = chain_q_vector ps xs 3
  /\ map Qred (GenTieChain.create_q_vector (chain_mass ps xs) GenTieChain.middle xs 3) = [3#2; 9#4; 3#2; 0; 3#2; 15#8; 3#4]
  /\ Qred (GenTieChain.compute_intensity_of_jumps_1d (chain_mass ps xs) GenTieChain.middle xs 3) = 75#8
  /\ admissibleb xs 3 (1#2) = true /\ forallb (fun p => Qle_bool 0 (snd p)) ps = true.
Proof. vm_compute. repeat split. Qed.

(* compute_intensity_of_jumps for a 2-d (copula) model regenerated from the source (Gen/GenTieChain2d.v: the 3 x 3 blocks of
   itertools.product minus the first, unrolled by the plug-in) is the hand model intensity2.  THE SPEC'S READING (audit5a X-d): in this
   generated definition h_left / h_right are the per-axis terms WRITTEN IN specs/TIE.py (`static_values`: left_point / right_point / middle
   of each axis with its own length), not what grid.left_point(CoordinateND) etc. execute; the statement about the code's own dispatch is
   C01_gen_compute_intensity_of_jumps_2d_nd_is_model below ... *)
Theorem C01_gen_compute_intensity_of_jumps_2d_is_model : forall (mass2 : Q * Q -> Q * Q -> Q) (mid : Q -> Q -> Q) xs ys (o : nat),
  GenTieChain2d.compute_intensity_of_jumps_2d mass2 mid xs ys (Z.of_nat o) == Chain.intensity2 mid mass2 xs ys o.
Proof. exact gen_compute_intensity_of_jumps_2d_eq_model. Qed.

(* ... hence the rates of all non-origin states of a 2-d product grid (code's clamp) sum to the GENERATED intensity (arithmetic-mean middle,
   any box mass additive per coordinate away from the origin, any two admissible axes of equal lengths sharing the origin index) *)
Theorem C01_gen_sum_rates_is_intensity_2d : forall (mass2 : Q * Q -> Q * Q -> Q),
  (forall a1 b1 c1 y1 y2, a1 <= b1 -> b1 <= c1 -> avoids (a1, y1) (c1, y2) ->
     mass2 (a1, y1) (c1, y2) == mass2 (a1, y1) (b1, y2) + mass2 (b1, y1) (c1, y2)) ->
  (forall x1 x2 a2 b2 c2, a2 <= b2 -> b2 <= c2 -> avoids (x1, a2) (x2, c2) ->
     mass2 (x1, a2) (x2, c2) == mass2 (x1, a2) (x2, b2) + mass2 (x1, b2) (x2, c2)) ->
  (forall a1 a2 b1 b2 a1' a2' b1' b2', a1 == a1' -> a2 == a2' -> b1 == b1' -> b2 == b2' ->
     mass2 (a1, a2) (b1, b2) == mass2 (a1', a2') (b1', b2')) ->
  forall xs ys (o : nat) hx hy, admissible xs o hx -> admissible ys o hy -> length ys = length xs ->
  exists t, q_matrix2_c amid mass2 xs ys o = Some t
            /\ qsum2 t == GenTieChain2d.compute_intensity_of_jumps_2d mass2 GenTieChain.middle xs ys (Z.of_nat o).
Proof.
  intros mass2 H1 H2 H3 xs ys o hx hy Ax Ay E. exists (q_matrix2 amid mass2 xs ys o). split; [apply q_matrix2_c_eq; exact E|].
  apply (gen_sum_rates_is_intensity_2d mass2 H1 H2 H3 xs ys o hx hy Ax Ay).
Qed.

(* wave 8 (audit5a X-d) -- the 2-d intensity AS THE CODE DISPATCHES IT: GenTieChain2d.compute_intensity_of_jumps_2d_nd has h_left / h_right
   built by APPLYING the translated CoordinateND variants of left_point / right_point (clamp len(axes[0]) on BOTH axes, spatial.py:93) and
   the tuple variant of middle (GenTieChain.left_point_nd2 / right_point_nd2 / middle_nd2) to the origin coordinate; nothing of the cell
   geometry is written in the spec.  For two axes of equal lengths (every constructor) it is the hand model intensity2; on unequal
   lengths with the origin on the last point of the shorter first axis it is not (Tie_Chain2d.gen_compute_intensity_of_jumps_2d_nd_clamp_refuted) *)
Theorem C01_gen_compute_intensity_of_jumps_2d_nd_is_model : forall (mass2 : Q * Q -> Q * Q -> Q) xs ys (o : nat),
  length ys = length xs ->
  GenTieChain2d.compute_intensity_of_jumps_2d_nd mass2 xs ys (Z.of_nat o) == Chain.intensity2 amid mass2 xs ys o.
Proof. exact gen_compute_intensity_of_jumps_2d_nd_is_model. Qed.

(* ... and the rates of the product grid (code's clamp) sum to THAT generated intensity *)
Theorem C01_gen_sum_rates_is_intensity_2d_nd : forall (mass2 : Q * Q -> Q * Q -> Q),
  (forall a1 b1 c1 y1 y2, a1 <= b1 -> b1 <= c1 -> avoids (a1, y1) (c1, y2) ->
     mass2 (a1, y1) (c1, y2) == mass2 (a1, y1) (b1, y2) + mass2 (b1, y1) (c1, y2)) ->
  (forall x1 x2 a2 b2 c2, a2 <= b2 -> b2 <= c2 -> avoids (x1, a2) (x2, c2) ->
     mass2 (x1, a2) (x2, c2) == mass2 (x1, a2) (x2, b2) + mass2 (x1, b2) (x2, c2)) ->
  (forall a1 a2 b1 b2 a1' a2' b1' b2', a1 == a1' -> a2 == a2' -> b1 == b1' -> b2 == b2' ->
     mass2 (a1, a2) (b1, b2) == mass2 (a1', a2') (b1', b2')) ->
  forall xs ys (o : nat) hx hy, admissible xs o hx -> admissible ys o hy -> length ys = length xs ->
  exists t, q_matrix2_c amid mass2 xs ys o = Some t
            /\ qsum2 t == GenTieChain2d.compute_intensity_of_jumps_2d_nd mass2 xs ys (Z.of_nat o).
Proof.
  intros mass2 H1 H2 H3 xs ys o hx hy Ax Ay E. exists (q_matrix2 amid mass2 xs ys o). split; [apply q_matrix2_c_eq; exact E|].
  apply (gen_sum_rates_is_intensity_2d_nd mass2 H1 H2 H3 xs ys o hx hy Ax Ay E).
Qed.

(* non-vacuity: two DIFFERENT admissible axes of equal lengths, the step mass of C01_nonvacuous_2d: the dispatched definition runs and
   gives the sum of the code-clamp rates, which is not zero *)
Example C01_gen_2d_nd_nonvacuous :
  let ps := [(1#4, 1#2, -(1#4), 1#4, 4); (1#2, 3#4, 1#4, 2, 4); (-2, -1, -2, 1, 3)] in
  let xs := [-2; -1; 0; 1; 2] in let ys := [-2; -(1#2); 0; 1#2; 2] in
  admissibleb xs 2 1 = true /\ admissibleb ys 2 (1#2) = true /\ length ys = length xs
  /\ option_map (fun t => Qeq_bool (qsum2 t) (GenTieChain2d.compute_intensity_of_jumps_2d_nd (step_mass2 ps) xs ys 2))
       (q_matrix2_c amid (step_mass2 ps) xs ys 2) = Some true
  /\ Qle_bool (GenTieChain2d.compute_intensity_of_jumps_2d_nd (step_mass2 ps) xs ys 2) 0 = false.
Proof. vm_compute. repeat split. Qed.

(* ---------------- the ALIAS / TABLE rate path of create_sampling_method (wave 6), COMPOSED WITH C02: C02's sampler theorems assume a
   probability vector; for the vector the factory builds from an admissible chain (Model/Factory.v vec_jump = create_vec_jump_matrix of
   create_q_vector and the intensity) that assumption is a theorem ... *)
Section Factory.
  Import Model.StepLaw Model.Bst Model.Alias Model.Table Model.Factory Proofs.C02_Alias Proofs.C02_Table Proofs.C01_Factory.
  Variable mid : Q -> Q -> Q.
  Hypothesis mid_between : forall x y, x < y -> x < mid x y /\ mid x y < y.
  Hypothesis mid_refl : forall x, ~ x == 0 -> mid x x == x.
  Hypothesis mid_proper : forall x x' y y', x == x' -> y == y' -> mid x y == mid x' y'.
  Variable mass : Q -> Q -> Q.
  Hypothesis mass_add : forall a b c, a <= b -> b <= c -> (c < 0 \/ 0 < a) -> mass a c == mass a b + mass b c.
  Hypothesis mass_pos : forall a b, a <= b -> (b < 0 \/ 0 < a) -> 0 <= mass a b.
  Hypothesis mass_proper : forall a a' b b', a == a' -> b == b' -> mass a b == mass a' b'.

  Theorem C01_factory_vector_is_distribution : forall xs o h, admissible xs o h ->
    let lam := intensity1 mid mass xs o in
    0 < lam ->
    let p := vec_jump (q_vector mid mass xs o) lam o in
    length p = length xs /\ (1 <= length p)%nat /\ nonneg p /\ StepLaw.qsum p == 1 /\ nth o p 0 = 0
    /\ (forall k, (k < length xs)%nat -> k <> o -> nth k p 0 == mass (cell_lo mid xs k) (cell_hi mid xs k) / lam).
  Proof. intros xs o h. apply (factory_vector_is_distribution mid); assumption. Qed.

  (* ... and so the ALIAS sampler (create_alias tables J, q) and the TABLE sampler (256 slots + embedded alias) of the chain give state k
     exactly the probability (Levy mass of the cell of k) / (intensity of jumps), the origin 0, and ALIAS never returns the origin *)
  Theorem C01_alias_table_chain_law : forall xs o h, admissible xs o h ->
    let lam := intensity1 mid mass xs o in
    0 < lam ->
    let p := vec_jump (q_vector mid mass xs o) lam o in
    let K := length p in let J := fst (create_alias p) in let q := snd (create_alias p) in
    (forall k, (k < length xs)%nat -> k <> o ->
        len_of (Z.of_nat k) (alias_segs K q J) == mass (cell_lo mid xs k) (cell_hi mid xs k) / lam
        /\ table_mass (create_table p) k == mass (cell_lo mid xs k) (cell_hi mid xs k) / lam)
    /\ len_of (Z.of_nat o) (alias_segs K q J) == 0 /\ table_mass (create_table p) o == 0
    /\ create_table p <> TableError
    /\ (forall u, 0 <= u -> u < 1 -> (alias_draw K q J u < length xs)%nat /\ alias_draw K q J u <> o).
  Proof. intros xs o h. apply (alias_table_chain_law mid); assumption. Qed.
End Factory.

(* non-vacuity: the chain of C01_nonvacuous has intensity 75/8 > 0; its factory vector sums to 1 and the alias tables built from it give
   state 1 (cell [-3/2, -3/4], mass 9/4) the probability (9/4)/(75/8) = 6/25 *)
Example C01_factory_nonvacuous_values :
  let ps := [(-2, 0, 3); (0, 3, 3#2)] in let xs := [-2; -1; -(1#2); 0; 1#2; 2; 3] in
  let p := Factory.vec_jump (chain_q_vector ps xs 3) (chain_intensity ps xs 3) 3 in
  admissibleb xs 3 (1#2) = true /\ Qle_bool (chain_intensity ps xs 3) 0 = false
  /\ Qeq_bool (StepLaw.qsum p) 1 = true /\ Qeq_bool (nth 1 p 0) (6 # 25) = true /\ Qeq_bool (nth 3 p 0) 0 = true
  /\ Qeq_bool (StepLaw.len_of 1 (C02_Alias.alias_segs (length p) (snd (Alias.create_alias p)) (fst (Alias.create_alias p)))) (6 # 25) = true
  /\ Qeq_bool (C02_Table.table_mass (Table.create_table p) 1) (6 # 25) = true.
Proof. vm_compute. repeat split. Qed.

(* ================= WHICH MEASURE a copula chain integrates (wave 7, audit 4 A4 / D5; Proofs/C01_CopulaTrunc.v, composed read-only with C12's
   generated mass_2d / mass_3d and C19's box_mass2 / box_mass3).  MarkovChainLevyCopula deep-copies the model and truncates EVERY MARGIN to
   (axes[k][0], axes[k][-1]) ("Truncate all marginal measures", levycopulamodel.py:121): the rates are masses under nu~ = (copula F, truncated
   margins).  DECISION: in C01, "(truncated) Levy-measure mass of a cell" of a copula chain is read as the property text's anchors say -- the
   measure RESTRICTED to the truncated support, nu(cell) for a cell inside the grid box.  The code does not compute that when a margin has mass
   outside its axis (finding F-C01-1, C01_copula_rate_is_restricted_nu_refuted); it computes nu~(cell), for which the consequences of the
   property (cells tile, sum of the rates = reported intensity) still hold, with NO additivity hypothesis: *)
From RV Require Import Base.ExtNum Model.Copula Gen.GenC12Mass Model.MassNd Proofs.C19_Theta2d Proofs.C19_StepTails Proofs.C19_Theta3d
  Proofs.C19_StepTails3 Proofs.C01_CopulaTrunc.

(* ANY tail integrals U1 (marginal_tail_integral) / UI (margin_tail_integral) that are functions of the rational number: the generated
   LevyCopulaModel.mass (inclusion-exclusion over the corners with the axis-straddling corrections) is additive on boxes avoiding the origin,
   so the code's rates exist and sum to the reported intensity *)
Theorem C01_copula_chain_sum_2d : forall (U1 : nat -> ext Q -> Q) (UI : idx -> list (ext Q) -> Q), tails_proper2 U1 UI ->
  forall xs ys o hx hy, admissible xs o hx -> admissible ys o hy -> length ys = length xs ->
  exists t, q_matrix2_c amid (box_mass2 U1 UI) xs ys o = Some t /\ qsum2 t == intensity2 amid (box_mass2 U1 UI) xs ys o.
Proof. exact copula_chain_sum_2d. Qed.

Theorem C01_copula_chain_sum_3d : forall (U1 : nat -> ext Q -> Q) (UI : idx -> list (ext Q) -> Q), tails_proper3 U1 UI ->
  forall xs ys zs o hx hy hz, admissible xs o hx -> admissible ys o hy -> admissible zs o hz -> length ys = length xs -> length zs = length xs ->
  exists t, q_tensor3_c amid (box_mass3 U1 UI) xs ys zs o = Some t /\ qsum3 t == intensity3 amid (box_mass3 U1 UI) xs ys zs o.
Proof. exact copula_chain_sum_3d. Qed.

(* the instances the exact groups chain2d_trunc / chain3d_trunc run on the real MarkovChainLevyCopula: step margins of ANY support (inside,
   equal to or EXCEEDING the grid: truncation active), the library's IndependentComponentsCopula / DependentComponentsCopula (C12's models);
   chain_mass2/3 clips each margin to (headq axis, lastq axis) as truncate_levy_measure(grid.truncations) does *)
Theorem C01_step_copula_chain_sum_2d : forall ck m0 m1 xs ys o hx hy, admissible xs o hx -> admissible ys o hy -> length ys = length xs ->
  exists t, q_matrix2_c amid (chain_mass2 ck m0 m1 xs ys) xs ys o = Some t /\ qsum2 t == intensity2 amid (chain_mass2 ck m0 m1 xs ys) xs ys o.
Proof. exact step_copula_chain_sum_2d. Qed.

Theorem C01_step_copula_chain_sum_3d : forall ck m0 m1 m2 xs ys zs o hx hy hz, admissible xs o hx -> admissible ys o hy -> admissible zs o hz ->
  length ys = length xs -> length zs = length xs ->
  exists t, q_tensor3_c amid (chain_mass3 ck m0 m1 m2 xs ys zs) xs ys zs o = Some t
            /\ qsum3 t == intensity3 amid (chain_mass3 ck m0 m1 m2 xs ys zs) xs ys zs o.
Proof. exact step_copula_chain_sum_3d. Qed.

(* FINDING F-C01-1: "rate of a state = Levy-measure mass nu(cell) of its cell" is false of the code as soon as truncation is active: a cell
   strictly inside the grid box whose rate (chain_mass2 = copula of the truncated margins) differs from nu(cell) (nu_mass2 = the model's own
   measure), and the reported intensity differs from nu(box minus central cell).  Witness (run on /repo by group chain2d_trunc and by the
   oracle): margins density 1 on [1,4] and 3 on [1,2], DependentComponentsCopula, grid [-2,-1,0,1,2]^2: state (3,4), cell [1/2,3/2] x [3/2,2]:
   rate 1/2, nu(cell) = 0; intensity 3 against 1. *)
Theorem C01_copula_rate_is_restricted_nu_refuted :
  exists ck m0 m1 xs o h i j, admissible xs o h /\ (i < length xs)%nat /\ (j < length xs)%nat /\ (i, j) <> (o, o)
    /\ headq xs <= cell_lo amid xs i /\ cell_hi amid xs i <= lastq xs /\ headq xs <= cell_lo amid xs j /\ cell_hi amid xs j <= lastq xs
    /\ ~ q_entry2 amid (chain_mass2 ck m0 m1 xs xs) xs xs o i j == q_entry2 amid (nu_mass2 ck m0 m1) xs xs o i j
    /\ ~ intensity2 amid (chain_mass2 ck m0 m1 xs xs) xs xs o == intensity2 amid (nu_mass2 ck m0 m1) xs xs o.
Proof. exact copula_rate_is_restricted_nu_refuted. Qed.

(* the values of the witness, and non-vacuity of C01_step_copula_chain_sum_2d with truncation ACTIVE (margin 0 has mass 2 beyond x = 2) *)
Example C01_truncation_witness_values :
  admissibleb tr_xs 2 1 = true
  /\ Qeq_bool (q_entry2 amid (chain_mass2 Dep tr_m0 tr_m1 tr_xs tr_xs) tr_xs tr_xs 2 3 4) (1 # 2) = true
  /\ Qeq_bool (q_entry2 amid (nu_mass2 Dep tr_m0 tr_m1) tr_xs tr_xs 2 3 4) 0 = true
  /\ Qeq_bool (cell_lo amid tr_xs 3) (1 # 2) = true /\ Qeq_bool (cell_hi amid tr_xs 3) (3 # 2) = true
  /\ Qeq_bool (cell_lo amid tr_xs 4) (3 # 2) = true /\ Qeq_bool (cell_hi amid tr_xs 4) 2 = true
  /\ Qeq_bool (intensity2 amid (chain_mass2 Dep tr_m0 tr_m1 tr_xs tr_xs) tr_xs tr_xs 2) 3 = true
  /\ Qeq_bool (intensity2 amid (nu_mass2 Dep tr_m0 tr_m1) tr_xs tr_xs 2) 1 = true
  /\ Qeq_bool (q_entry2 amid (chain_mass2 Dep tr_m0 tr_m1 tr_xs tr_xs) tr_xs tr_xs 2 3 3) 0 = true
  /\ Qeq_bool (q_entry2 amid (nu_mass2 Dep tr_m0 tr_m1) tr_xs tr_xs 2 3 3) (1 # 2) = true.
Proof. exact truncation_witness. Qed.

(* ================= OVER THE REALS, COMPOSED WITH C09 (wave 6): Model/ChainR.v is the real-number twin of Model/Chain.v; Gen/GenC01ChainR.v
   regenerates left_point / right_point / middle / create_q_vector over R from the source on every run; the truncated measure is
   Model/LevyClosedForms.v's truncated_integrate around the generated truncated_interval (the objects of C09).  In the theorems below
   the abstract `mass` is GONE: density and closed form are the py2coq-generated definitions of the model files and the link between
   them is C09's integral theorem. *)
From Coq Require Import Reals.
From Coquelicot Require Import Coquelicot.
From RV Require Import Base.RB Base.RSpecial Gen.GenC09Trunc Gen.GenC09Hem Gen.GenC09Merton Gen.GenC09Vg Model.LevyClosedForms Model.ChainR
  Gen.GenC01ChainR Proofs.C01_ChainR.
Close Scope Q_scope.
Open Scope R_scope.

(* the 1-d chain theorems replayed over R for an abstract mass additive / non-negative away from the origin and any middle *)
Theorem C01_chain_R : forall (mid mass : R -> R -> R),
  (forall x y, x < y -> x < mid x y /\ mid x y < y) -> (forall x, x <> 0 -> mid x x = x) ->
  (forall a b c, a <= b -> b <= c -> (c < 0 \/ 0 < a) -> mass a c = mass a b + mass b c) ->
  (forall a b, a <= b -> (b < 0 \/ 0 < a) -> 0 <= mass a b) ->
  forall xs o h, admissibleR xs o h ->
  rsum (q_vectorR mid mass xs o) = intensity1R mid mass xs o
  /\ (forall k, (k < length xs)%nat -> 0 <= q_entryR mid mass xs o k)
  /\ (forall k, (k < length xs)%nat -> cell_loR mid xs k <= nthR xs k <= cell_hiR mid xs k)
  /\ (forall k, (k + 1 < length xs)%nat -> cell_hiR mid xs k = cell_loR mid xs (k + 1))
  /\ cell_loR mid xs 0 = headR xs /\ cell_hiR mid xs (length xs - 1) = lastR xs
  /\ cell_hiR mid xs (o - 1) = h_leftR mid xs o /\ cell_loR mid xs (o + 1) = h_rightR mid xs o
  /\ h_leftR mid xs o < 0 /\ 0 < h_rightR mid xs o.
Proof. exact chain_R. Qed.

(* the generated loop over R is the hand model *)
Theorem C01_gen_create_q_vector_R_is_model : forall (mass mid : R -> R -> R) xs (o : nat),
  GenC01ChainR.create_q_vector mass mid xs (Z.of_nat o) = q_vectorR mid mass xs o.
Proof. exact genR_create_q_vector_eq_model. Qed.

Theorem C01_gen_compute_intensity_of_jumps_1d_R_is_model : forall (mass mid : R -> R -> R) xs (o : nat),
  GenC01ChainR.compute_intensity_of_jumps_1d mass mid xs (Z.of_nat o) = intensity1R mid mass xs o.
Proof. exact genR_compute_intensity_of_jumps_1d_eq_model. Qed.

(* ANY density nu >= 0 whose integral over the origin-free sub-intervals [a,b] of the truncation range is the closed form F a b: the
   vector the generated create_q_vector builds from TruncatedLevyMeasure(F, (x_0, x_n)).integrate has one entry per state, the entry
   of every non-origin state is the INTEGRAL OF THE DENSITY OVER ITS CELL, the origin entry is 0, all entries are >= 0, they sum to
   compute_intensity_of_jumps, whose two terms are the integrals of the density over [x_0, h_left] and [h_right, x_n] *)
Theorem C01_density_chain_rates : forall (nu : R -> R) (F : R -> R -> R) xs (o : nat) h, admissibleR xs o h ->
  (forall a b, headR xs <= a -> a <= b -> b <= lastR xs -> (b < 0 \/ 0 < a) -> is_RInt nu a b (F a b)) ->
  (forall x, 0 <= nu x) ->
  let m := truncated_integrate F (headR xs) (lastR xs) in
  let q := GenC01ChainR.create_q_vector m GenC01ChainR.middle xs (Z.of_nat o) in
  length q = length xs
  /\ (forall k, (k < length xs)%nat -> k <> o -> is_RInt nu (cell_loR amidR xs k) (cell_hiR amidR xs k) (nthR q k))
  /\ nthR q o = 0
  /\ (forall k, (k < length xs)%nat -> 0 <= nthR q k)
  /\ rsum q = GenC01ChainR.compute_intensity_of_jumps_1d m GenC01ChainR.middle xs (Z.of_nat o)
  /\ rsum q = m (headR xs) (h_leftR amidR xs o) + m (h_rightR amidR xs o) (lastR xs)
  /\ is_RInt nu (headR xs) (h_leftR amidR xs o) (m (headR xs) (h_leftR amidR xs o))
  /\ is_RInt nu (h_rightR amidR xs o) (lastR xs) (m (h_rightR amidR xs o) (lastR xs)).
Proof. exact density_chain_rates. Qed.

(* HEM (Kou): hem_nu / hem_integrate are GENERATED from hem.py; no hypothesis on the mass is left *)
Theorem C01_hem_chain_rates : forall INF lam p e1 e2 xs (o : nat) h,
  0 <= lam -> 0 <= p <= 1 -> 0 < e1 -> 0 < e2 -> admissibleR xs o h ->
  let nu := hem_nu lam p e1 e2 in
  let m := truncated_integrate (hem_integrate INF lam p e1 e2) (headR xs) (lastR xs) in
  let q := GenC01ChainR.create_q_vector m GenC01ChainR.middle xs (Z.of_nat o) in
  length q = length xs
  /\ (forall k, (k < length xs)%nat -> k <> o -> is_RInt nu (cell_loR amidR xs k) (cell_hiR amidR xs k) (nthR q k))
  /\ nthR q o = 0
  /\ (forall k, (k < length xs)%nat -> 0 <= nthR q k)
  /\ rsum q = GenC01ChainR.compute_intensity_of_jumps_1d m GenC01ChainR.middle xs (Z.of_nat o)
  /\ rsum q = m (headR xs) (h_leftR amidR xs o) + m (h_rightR amidR xs o) (lastR xs)
  /\ is_RInt nu (headR xs) (h_leftR amidR xs o) (m (headR xs) (h_leftR amidR xs o))
  /\ is_RInt nu (h_rightR amidR xs o) (lastR xs) (m (h_rightR amidR xs o) (lastR xs)).
Proof. exact hem_chain_rates. Qed.

(* Merton: merton_nu / merton_integrate GENERATED from merton.py *)
Theorem C01_merton_chain_rates : forall lam mu sj xs (o : nat) h,
  0 <= lam -> 0 < sj -> admissibleR xs o h ->
  let nu := merton_nu lam mu sj in
  let m := truncated_integrate (merton_integrate lam mu sj) (headR xs) (lastR xs) in
  let q := GenC01ChainR.create_q_vector m GenC01ChainR.middle xs (Z.of_nat o) in
  length q = length xs
  /\ (forall k, (k < length xs)%nat -> k <> o -> is_RInt nu (cell_loR amidR xs k) (cell_hiR amidR xs k) (nthR q k))
  /\ nthR q o = 0
  /\ (forall k, (k < length xs)%nat -> 0 <= nthR q k)
  /\ rsum q = GenC01ChainR.compute_intensity_of_jumps_1d m GenC01ChainR.middle xs (Z.of_nat o)
  /\ rsum q = m (headR xs) (h_leftR amidR xs o) + m (h_rightR amidR xs o) (lastR xs)
  /\ is_RInt nu (headR xs) (h_leftR amidR xs o) (m (headR xs) (h_leftR amidR xs o))
  /\ is_RInt nu (h_rightR amidR xs o) (lastR xs) (m (h_rightR amidR xs o) (lastR xs)).
Proof. exact merton_chain_rates. Qed.

(* VG, INFINITE activity: vg_nu / vg_integrate GENERATED from vg.py (exp1 = E1c c0); INF = the float-infinity sentinel of the code,
   beyond the truncation range *)
Theorem C01_vg_chain_rates : forall INF c lm lp c0 xs (o : nat) h,
  0 <= c -> 0 < lm -> 0 < lp -> admissibleR xs o h -> - INF < headR xs -> lastR xs < INF ->
  let nu := vg_nu c lm lp in
  let m := truncated_integrate (vg_integrate (E1c c0) INF c lm lp) (headR xs) (lastR xs) in
  let q := GenC01ChainR.create_q_vector m GenC01ChainR.middle xs (Z.of_nat o) in
  length q = length xs
  /\ (forall k, (k < length xs)%nat -> k <> o -> is_RInt nu (cell_loR amidR xs k) (cell_hiR amidR xs k) (nthR q k))
  /\ nthR q o = 0
  /\ (forall k, (k < length xs)%nat -> 0 <= nthR q k)
  /\ rsum q = GenC01ChainR.compute_intensity_of_jumps_1d m GenC01ChainR.middle xs (Z.of_nat o)
  /\ rsum q = m (headR xs) (h_leftR amidR xs o) + m (h_rightR amidR xs o) (lastR xs)
  /\ is_RInt nu (headR xs) (h_leftR amidR xs o) (m (headR xs) (h_leftR amidR xs o))
  /\ is_RInt nu (h_rightR amidR xs o) (lastR xs) (m (h_rightR amidR xs o) (lastR xs)).
Proof. exact vg_chain_rates. Qed.

(* create_vec_jump_matrix (the vector create_sampling_method hands to ALIAS / TABLE / BINARYSEARCHTREE / HUFFMANNTREE): for a rate vector
   with zero origin entry, entries >= 0 and lam = their sum > 0 (what the theorems above establish for q and the intensity) it is a
   probability vector: entries q_k / lam >= 0, origin entry 0, sum exactly 1 *)
Theorem C01_jump_vector_is_distribution : forall q (o : nat) lam,
  nthR q o = 0 -> (forall k, (k < length q)%nat -> 0 <= nthR q k) -> lam = rsum q -> 0 < lam ->
  let pv := jump_vectorR q o lam in
  length pv = length q /\ rsum pv = 1 /\ nthR pv o = 0
  /\ (forall k, (k < length q)%nat -> 0 <= nthR pv k /\ nthR pv k = nthR q k / lam).
Proof. exact jump_vector_is_distribution. Qed.

(* non-vacuity: an admissible real axis with UNEQUAL gaps; on it the HEM rate of state 3 (cell [1/2, 2]) is the closed form
   1/2 (exp(-1/2) - exp(-2)) > 0, and the hypotheses of the VG theorem are met with INF = 10 *)
Example C01_hem_nonvacuous :
  let xs := [-2; -1; 0; 1; 3] in
  admissibleR xs 2 1 /\ - 10 < headR xs /\ lastR xs < 10
  /\ cell_loR amidR xs 3 = 1 / 2 /\ cell_hiR amidR xs 3 = 2
  /\ nthR (GenC01ChainR.create_q_vector (truncated_integrate (hem_integrate 10 1 (1/2) 1 1) (headR xs) (lastR xs)) GenC01ChainR.middle xs 2) 3
     = 1 / 2 * (exp (- (1 / 2)) - exp (- 2))
  /\ 0 < 1 / 2 * (exp (- (1 / 2)) - exp (- 2)).
Proof. exact hem_nonvacuous. Qed.

Print Assumptions C01_cells_tile.
Print Assumptions C01_cells_avoid_origin.
Print Assumptions C01_rates_nonneg.
Print Assumptions C01_sum_rates_is_intensity_1d.
Print Assumptions C01_truncated_mass.
Print Assumptions C01_chain_rates.
Print Assumptions C01_refined.
Print Assumptions C01_sum_rates_is_intensity_2d.
Print Assumptions C01_cells_tile_2d.
Print Assumptions C01_rates_nonneg_2d.
Print Assumptions C01_sum_rates_is_intensity_3d.
Print Assumptions C01_cells_tile_3d.
Print Assumptions C01_rates_nonneg_3d.
Print Assumptions C01_table_mass3_is_a_measure.
Print Assumptions C01_table_chain_3d.
Print Assumptions C01_code_clamp.
Print Assumptions C01_unequal_lengths_refuted.
Print Assumptions C01_truncated_interval.
Print Assumptions C01_step_mass_is_a_measure.
Print Assumptions C01_nonvacuous.
Print Assumptions C01_nonvacuous_2d.
Print Assumptions C01_nonvacuous_3d.
Print Assumptions C01_gen_create_q_vector_is_model.
Print Assumptions C01_gen_compute_intensity_of_jumps_1d_is_model.
Print Assumptions C01_gen_cell_points_are_model.
Print Assumptions C01_gen_chain_rates.
Print Assumptions C01_gen_nonvacuous.
Print Assumptions C01_gen_compute_intensity_of_jumps_2d_is_model.
Print Assumptions C01_gen_sum_rates_is_intensity_2d.
Print Assumptions C01_gen_compute_intensity_of_jumps_2d_nd_is_model.
Print Assumptions C01_gen_sum_rates_is_intensity_2d_nd.
Print Assumptions C01_gen_2d_nd_nonvacuous.
Print Assumptions C01_factory_vector_is_distribution.
Print Assumptions C01_alias_table_chain_law.
Print Assumptions C01_factory_nonvacuous_values.
Print Assumptions C01_copula_chain_sum_2d.
Print Assumptions C01_copula_chain_sum_3d.
Print Assumptions C01_step_copula_chain_sum_2d.
Print Assumptions C01_step_copula_chain_sum_3d.
Print Assumptions C01_copula_rate_is_restricted_nu_refuted.
Print Assumptions C01_truncation_witness_values.
Print Assumptions C01_chain_R.
Print Assumptions C01_gen_create_q_vector_R_is_model.
Print Assumptions C01_gen_compute_intensity_of_jumps_1d_R_is_model.
Print Assumptions C01_density_chain_rates.
Print Assumptions C01_hem_chain_rates.
Print Assumptions C01_merton_chain_rates.
Print Assumptions C01_vg_chain_rates.
Print Assumptions C01_jump_vector_is_distribution.
Print Assumptions C01_hem_nonvacuous.

(* C02 -- every state sampler realises exactly the target law, independent of call history.
   Only statements; proofs live in Proofs/C02_*.v, the executable models in Model/{StepLaw,Bst,Alias,Huffman,
   Table,Inversion,BstAdapted}.v (tied to /repo by the vm_compute correspondence of harness/props/C02.py).
   The law of a sampler is expressed without measure theory: the sampler is the step function `locate`
   (left-closed) or `locate_r` (right-closed) of an explicit list of consecutive labelled intervals, and the
   total length labelled k (`len_of k`) equals p_k. *)
From Coq Require Import List Arith ZArith QArith.
From RV Require Import Base.QB Gen.GenPairing Model.Pairing Model.StepLaw Model.Bst Model.Inversion
  Proofs.C02_StepLaw Proofs.C02_Bst Proofs.C02_Inversion.
Import ListNotations.
Open Scope Q_scope.

(* BinarySearchTree: for every vector of >= 1 non-negative entries the constructor succeeds and the descent is
   the step function whose consecutive intervals (the leaves of the implicit heap in in-order) have length p_s
   for state s; every state owns exactly p_s. *)
Theorem C02_bst_law : forall p : list Q, (1 <= length p)%nat -> nonneg p ->
  exists b, create_bst p = Some b
    /\ (forall s, (s < length p)%nat -> len_of (Z.of_nat s) (bst_segs p) == nth s p 0)
    /\ total (bst_segs p) == qsum p
    /\ seg_nonneg (bst_segs p)
    /\ forall u, 0 <= u -> u < qsum p -> locate 0 (bst_segs p) u = Some (bst_sample (length p - 1) b u).
Proof. exact bst_law. Qed.

(* InversionMethod + StatesManager, every index 0..F admissible (1-d chains), any _max_storage >= 1:
   in every reachable state the output for u is that of the sequential search, whatever was drawn before *)
Theorem C02_inversion_history_free : forall (S : Type) (proj : Z -> S) (inside : S -> bool) (Fn : nat) (prob : S -> Q) (M : Z),
  (forall i, (0 <= i <= Z.of_nat Fn)%Z -> inside (proj i) = true) -> (forall s, 0 <= prob s) -> (1 <= M)%Z ->
  forall st, reachable proj inside (Z.of_nat Fn) prob M st -> forall u,
    snd (inv_step proj inside (Z.of_nat Fn) prob M st u) = inv_spec proj Fn prob u.
Proof. exact @inversion_history_free. Qed.

(* ... and the sequential search is the right-closed step function with lengths prob (proj k), k = 0..F;
   a state of probability zero is never returned for u > 0 *)
Theorem C02_inversion_law : forall (S : Type) (proj : Z -> S) (Fn : nat) (prob : S -> Q),
  (forall s, 0 <= prob s) ->
  (forall u, inv_spec proj Fn prob u = match locate_r 0 (spec_segs proj Fn prob) u with
                                       | Some i => Out (proj i) | None => Frontier end)
  /\ (forall k, (k <= Fn)%nat -> len_of (Z.of_nat k) (spec_segs proj Fn prob) == prob (proj (Z.of_nat k)))
  /\ seg_nonneg (spec_segs proj Fn prob)
  /\ (forall u k, 0 < u -> prob (proj (Z.of_nat k)) == 0 -> (k <= Fn)%nat ->
        locate_r 0 (spec_segs proj Fn prob) u <> Some (Z.of_nat k)).
Proof.
  intros S proj Fn prob Hp. split; [intro u; apply spec_is_locate|]. apply inversion_law. exact Hp.
Qed.

Print Assumptions C02_bst_law.
Print Assumptions C02_inversion_history_free.
Print Assumptions C02_inversion_law.

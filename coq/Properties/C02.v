(* C02 -- every state sampler realises exactly the target law, independent of call history.
   Only statements; proofs live in Proofs/C02_*.v, the executable models in Model/{StepLaw,Bst,Alias,Huffman,
   Table,Inversion,InversionFrontier,BstAdapted,BstAdaptedNd}.v (tied to /repo by the vm_compute correspondence of harness/props/C02.py).
   The law of a sampler is expressed without measure theory: the sampler is the step function `locate`
   (left-closed intervals) or `locate_r` (right-closed) of an explicit list of consecutive labelled intervals
   laid out from 0, and the total length labelled k (`len_of k`) equals p_k.  nonneg p: entries >= 0
   (zeros and ties allowed); any length >= 1. *)
From Coq Require Import List Arith ZArith QArith Permutation.
From RV Require Import Base.Corr.
From RV Require Import Base.QB Gen.GenPairing Model.Pairing Model.StepLaw Model.Bst Model.Alias Model.Huffman Model.Table
  Model.StatesManager Model.Inversion Model.InversionOrig Model.BstAdapted Model.Factory Model.Stateful Model.BstAdaptedNd
  Proofs.C02_StepLaw Proofs.C02_Bst Proofs.C02_Inversion Proofs.C02_Huffman Proofs.C02_BstAdapted Proofs.C02_Alias
  Proofs.C02_Table Proofs.C02_Lattice Proofs.C02_TableDraw Proofs.C02_InversionAdm Proofs.C02_Stateful Proofs.C02_Factory
  Proofs.C02_BstAdaptedNd Proofs.C02_Refuted.
From RV Require Import Model.Domain Model.InversionFrontier Proofs.C02_InversionFrontier.
From RV Require Gen.GenTieBst Proofs.Tie_Bst Gen.GenTieAlias Proofs.Tie_Alias.
From RV Require Import Proofs.C02_GenTie.
From RV Require Import Model.FrontierDraw Model.InversionFrontierNd Proofs.C14_FrontierDraw Proofs.C02_InversionFrontierNd.
From RV Require Import Model.InversionFrontierFactory Proofs.C02_InversionFrontierFactory.
From RV Require Import Proofs.C02_FrontierEdge.
Import ListNotations.
Open Scope Q_scope.

(* BinarySearchTree: the constructor succeeds and the descent is the step function whose consecutive intervals
   (the leaves of the implicit heap in in-order) have length p_s for state s *)
Theorem C02_bst_law : forall p : list Q, (1 <= length p)%nat -> nonneg p ->
  exists b, create_bst p = Some b
    /\ (forall s, (s < length p)%nat -> len_of (Z.of_nat s) (bst_segs p) == nth s p 0)
    /\ total (bst_segs p) == qsum p
    /\ seg_nonneg (bst_segs p)
    /\ forall u, 0 <= u -> u < qsum p -> locate 0 (bst_segs p) u = Some (bst_sample (length p - 1) b u).
Proof. exact bst_law. Qed.

(* HuffmanTree: whatever position Heap.insert computes, the final tree's leaves are a permutation of the states
   and subtract-and-descend is the step function of the leaves in in-order *)
Theorem C02_huffman_law : forall p : list Q, (1 <= length p)%nat -> nonneg p ->
  exists t, create_huffman p = Some t
    /\ Permutation (hleaves t) (segs_from 0 p)
    /\ (forall s, (s < length p)%nat -> len_of (Z.of_nat s) (hleaves t) == nth s p 0)
    /\ total (hleaves t) == qsum p
    /\ seg_nonneg (hleaves t)
    /\ forall u, 0 <= u -> u < qsum p -> locate 0 (hleaves t) u = Some (huff_sample t u).
Proof. exact huffman_law. Qed.

(* AliasMethod (Walker/Vose): column x of [0,1) is [x/K,(x+1)/K), its first q_x/K goes to x, the rest to J x;
   state k owns exactly p_k; indices are < K; a state of probability zero is never returned *)
Theorem C02_alias_law : forall p : list Q, (1 <= length p)%nat -> nonneg p -> qsum p == 1 ->
  let K := length p in let J := fst (create_alias p) in let q := snd (create_alias p) in
  let segs := alias_segs K q J in
  (forall k, (k < K)%nat -> len_of (Z.of_nat k) segs == nth k p 0)
  /\ seg_nonneg segs
  /\ (forall u, 0 <= u -> u < 1 -> locate 0 segs u = Some (Z.of_nat (alias_draw K q J u)))
  /\ (forall u, 0 <= u -> u < 1 -> (alias_draw K q J u < K)%nat)
  /\ (forall u k, 0 <= u -> u < 1 -> (k < K)%nat -> nth k p 0 == 0 -> alias_draw K q J u <> k).
Proof. exact alias_law. Qed.

(* BinarySearchTreeAdapted1D with an additive non-negative interval mass: right-closed step function over the
   cells of the left then of the right half axis, lengths mass(cell)/lambda; never the origin, never outside *)
Theorem C02_bstadapted1d_law : forall (axis : list Q) (o : Z) (middle mass : Q -> Q -> Q) (lam h minf : Q),
  0 < lam -> (1 <= o)%Z /\ (o + 1 <= ba_n axis - 1)%Z ->
  (forall a b c, a <= b -> b <= c -> mass a c == mass a b + mass b c) ->
  (forall a b, a <= b -> 0 <= mass a b) ->
  (forall k, (0 <= k < ba_n axis)%Z -> ba_cell_a axis middle k <= ba_cell_b axis middle k) ->
  mass minf (- (h / 2)) == mass (ba_cell_a axis middle 0) (ba_cell_b axis middle (o - 1)) ->
  let segs := ba_segs axis o middle mass lam in
  (forall u, ba_sample axis o middle mass lam h minf u
             = match locate_r 0 segs u with Some lab => lab | None => (ba_n axis - 1 - o)%Z end)
  /\ (forall k, (0 <= k < ba_n axis)%Z -> k <> o ->
        len_of (k - o) segs == mass (ba_cell_a axis middle k) (ba_cell_b axis middle k) / lam)
  /\ len_of 0 segs == 0
  /\ seg_nonneg segs
  /\ (forall lab, In lab (map snd segs) -> (- o <= lab <= ba_n axis - 1 - o)%Z /\ lab <> 0%Z)
  /\ (forall u k, 0 < u -> (0 <= k < ba_n axis)%Z -> k <> o ->
        mass (ba_cell_a axis middle k) (ba_cell_b axis middle k) == 0 -> locate_r 0 segs u <> Some (k - o)%Z).
Proof. exact bstadapted1d_full. Qed.

(* TableMethod (repaired tree): the constructor succeeds; with the byte b uniform on 0..255 and the alias uniform
   independent of it (table_draw t b u = J b if J b >= 0, else the alias draw with u), state k receives
   #{b : J b = k}/256 + #{b : J b = -1}/256 * (alias mass of k) = p_k; J has 256 slots with values in [-1, K) *)
Theorem C02_table_law : forall p : list Q, (1 <= length p)%nat -> nonneg p -> qsum p == 1 ->
  create_table p <> TableError
  /\ (forall k, (k < length p)%nat -> table_mass (create_table p) k == nth k p 0)
  /\ length (table_J p) = 256%nat
  /\ (forall b, (-1 <= nth b (table_J p) (-1) < Z.of_nat (length p))%Z).
Proof. exact table_law. Qed.

(* ---- wave 2 ---- *)

(* InversionMethod + StatesManager (tree with the repair a073fcb) over ANY enumeration, with inadmissible indices,
   any _max_storage >= 1: in every reachable state (any draw history, any number of restarts after the storage is full)
   inv_step = locate_r over the ADMISSIBLE sub-enumeration G (right-closed intervals of lengths prob (proj i), i in G);
   G is exactly the admissible indices of [0, F]; zero-probability states are never returned for u > 0.
   The StatesManager half is C14's sm_step_protocol. *)
Theorem C02_inversion_admissible : forall (S : Type) (proj : Z -> S) (outside : S -> bool) (F : Z) (prob : S -> Q) (M : Z),
  (forall s, 0 <= prob s) -> (1 <= M)%Z -> (0 <= F)%Z ->
  let segs := adm_segs' proj outside F prob in
  (forall st, reachable proj outside F prob M st -> forall u,
     snd (inv_step proj outside F prob M st u) = match locate_r 0 segs u with Some i => Out (proj i) | None => Frontier end)
  /\ (forall i, In i (G proj outside F) <-> (0 <= i <= F)%Z /\ outside (proj i) = false)
  /\ (forall i, In i (G proj outside F) -> len_of i segs == prob (proj i))
  /\ seg_nonneg segs
  /\ (forall u i, 0 < u -> In i (G proj outside F) -> prob (proj i) == 0 -> locate_r 0 segs u <> Some i).
Proof. exact @inversion_admissible_full. Qed.

(* TableMethod._sample_one as the code runs it (ONE 32-bit word gives the slot byte and the alias uniform):
   the number of 32-bit words sent to k is 2^32 p_k up to #{residual bytes} * #{alias intervals labelled k} <= 512 K,
   i.e. P(k) = p_k within K * 2^-23 over a uniform word (N = 2^24 values of the upper 24 bits) *)
Theorem C02_table_draw_law : forall N : nat, Z.of_nat N = (2 ^ 24)%Z ->
  forall p : list Q, (1 <= length p)%nat -> nonneg p -> qsum p == 1 -> forall k, (k < length p)%nat ->
  let t := create_table p in
  let words := qn (words_to N t (Z.of_nat k)) in
  4294967296 * nth k p 0 - table_err t k <= words /\ words <= 4294967296 * nth k p 0 + table_err t k
  /\ table_err t k <= 512 * qn (length p).
Proof. exact table_draw_law. Qed.

(* ... and whatever the word, a state of probability zero is never returned *)
Theorem C02_table_draw_never_zero : forall p : list Q, (1 <= length p)%nat -> nonneg p -> qsum p == 1 ->
  forall k w, (k < length p)%nat -> nth k p 0 == 0 -> (0 <= w < 2 ^ 32)%Z ->
    table_draw_word (create_table p) w <> Some (Z.of_nat k).
Proof. exact table_draw_never_zero. Qed.

(* BST / Huffman: index in range, never a zero-probability state *)
Theorem C02_bst_range_nonzero : forall p : list Q, (1 <= length p)%nat -> nonneg p -> forall b, create_bst p = Some b ->
  forall u, 0 <= u -> u < qsum p ->
    (0 <= bst_sample (length p - 1) b u < Z.of_nat (length p))%Z /\ ~ nth (Z.to_nat (bst_sample (length p - 1) b u)) p 0 == 0.
Proof. exact bst_range_nonzero. Qed.
Theorem C02_huffman_range_nonzero : forall p : list Q, (1 <= length p)%nat -> nonneg p -> forall t, create_huffman p = Some t ->
  forall u, 0 <= u -> u < qsum p ->
    (0 <= huff_sample t u < Z.of_nat (length p))%Z /\ ~ nth (Z.to_nat (huff_sample t u)) p 0 == 0.
Proof. exact huffman_range_nonzero. Qed.

(* the factory: create_vec_jump_matrix zeroes the origin and `states` is index - origin, hence the increment 0 is never
   returned by ALIAS / BINARYSEARCHTREE / HUFFMANNTREE of a 1-d chain *)
Theorem C02_factory_never_origin : forall (q : list Q) (lam : Q) (o : nat),
  let p := vec_jump q lam o in
  (o < length q)%nat -> nonneg p -> qsum p == 1 ->
  (forall u, 0 <= u -> u < 1 ->
     states_map (Z.of_nat o) (Z.of_nat (alias_draw (length p) (snd (create_alias p)) (fst (create_alias p)) u)) <> 0%Z)
  /\ (forall b, create_bst p = Some b -> forall u, 0 <= u -> u < 1 -> states_map (Z.of_nat o) (bst_sample (length p - 1) b u) <> 0%Z)
  /\ (forall t, create_huffman p = Some t -> forall u, 0 <= u -> u < 1 -> states_map (Z.of_nat o) (huff_sample t u) <> 0%Z).
Proof. exact factory_never_origin. Qed.

(* the hidden state carried between draws (cost counters; the lru cache of cell probabilities with any eviction policy)
   never influences the output: any sequence of draws returns what the state-free draw functions return *)
Theorem C02_history_free_table_driven :
  (forall k bst cost us, run_st (bst_sample_st k bst) cost us = map (bst_sample k bst) us)
  /\ (forall t cost us, run_st (huff_sample_st t) cost us = map (huff_sample t) us)
  /\ (forall K q J cost us, run_st (alias_draw_st K q J) cost us = map (alias_draw K q J) us).
Proof. exact table_driven_history_free. Qed.
Theorem C02_bstadapted1d_cache_history_free : forall (axis : list Q) (o : Z) (middle mass : Q -> Q -> Q) (lam : Q) (evict : pcache -> pcache),
  (forall a a' b b', a == a' -> b == b' -> mass a b == mass a' b') ->
  (forall c x, In x (evict c) -> In x c) ->
  forall (h minf : Q) (us : list Q),
    run_st (ba_sample_c axis o middle mass lam evict h minf) [] us = map (ba_sample axis o middle mass lam h minf) us.
Proof. exact ba_history_free. Qed.

(* n-d BinarySearchTreeAdapted, sample_one_bucket: for a box mass additive under the split of one axis and non-negative,
   the axis-cycling bisection terminates with the model's fuel and is the right-closed step function over the cells of
   the bucket: total = bm bucket, every cell c of the bucket has length bm(cell c), the returned cell lies in the bucket *)
Theorem C02_bstadaptednd_bucket_law : forall (bm : box -> Q) (B : Z),
  (forall b, wfb B b -> 0 <= bm b) ->
  (forall b k m, wfb B b -> (k < length b)%nat -> (fst (nth k b (0, 0)%Z) <= m < snd (nth k b (0, 0)%Z))%Z ->
     bm b == bm (upd b k (fst (nth k b (0, 0)%Z), m)) + bm (upd b k ((m + 1)%Z, snd (nth k b (0, 0)%Z)))) ->
  forall res, wfb B res ->
    total (bucket_segs bm B res) == bm res
    /\ seg_nonneg (bucket_segs bm B res)
    /\ bucket_segs bm B res <> []
    /\ (forall c, InBox c res -> len_of (enc B c) (bucket_segs bm B res) == bm (cellbox c))
    /\ (forall lab, In lab (map snd (bucket_segs bm B res)) -> exists c, InBox c res /\ lab = enc B c)
    /\ (forall cp, exists c, sample_one_bucket bm res cp = Some c /\ InBox c res
                          /\ (cp <= bm res -> locate_r 0 (bucket_segs bm B res) cp = Some (enc B c))).
Proof. exact sample_one_bucket_law. Qed.

(* the n-d sampler on the REAL bucket list of _pre_computation (itertools.product of the per-axis pieces minus the origin
   cell), buckets served from the cached cumulative vectors (searchsorted (axis_cum b) = locate_r (axis_segs b), repaired
   with min(., len-1)) as well as by the bisection: for a non-negative box mass additive under the split of one axis,
   nd_sample u = cell c iff u lies in an interval of length bm(cell c); the cell is in the grid and is not the origin;
   every non-origin cell of the grid exactly once (the buckets partition them) *)
Theorem C02_bstadaptednd_law : forall (bm : box -> Q) (d : nat) (n o : Z),
  (forall b, wfb n b -> 0 <= bm b) ->
  (forall b k m, wfb n b -> (k < length b)%nat -> (fst (nth k b (0, 0)%Z) <= m < snd (nth k b (0, 0)%Z))%Z ->
     bm b == bm (upd b k (fst (nth k b (0, 0)%Z), m)) + bm (upd b k ((m + 1)%Z, snd (nth k b (0, 0)%Z)))) ->
  (1 <= o)%Z /\ (o + 1 <= n - 1)%Z -> (1 <= d)%nat ->
  total (nd_segs_all bm d n o) == qsum (map bm (buckets d n o))
  /\ seg_nonneg (nd_segs_all bm d n o)
  /\ (forall u, u <= qsum (map bm (buckets d n o)) ->
        exists cell, length cell = d /\ Forall (fun x => (0 <= x < n)%Z) cell /\ cell <> repeat o d
                     /\ nd_sample bm d n o u = Some (map (fun c => (c - o)%Z) cell)
                     /\ locate_r 0 (nd_segs_all bm d n o) u = Some (enc n cell))
  /\ (forall c, length c = d -> Forall (fun x => (0 <= x < n)%Z) c -> c <> repeat o d ->
        len_of (enc n c) (nd_segs_all bm d n o) == bm (cellbox c)).
Proof. exact nd_sample_law. Qed.

(* the lru cache of the n-d tree is a READ cache: with any eviction policy that only drops entries, any sequence of
   sample_one_bucket calls on one instance returns what the cache-free function returns *)
Theorem C02_bstadaptednd_cache_history_free : forall (bm : box -> Q) (evict : ndcache -> ndcache),
  (forall c x, In x (evict c) -> In x c) ->
  forall (res : box) (us : list Q),
    run_st (fun c u => sample_one_bucket_c bm evict res c u) [] us = map (sample_one_bucket bm res) us.
Proof. exact nd_cache_history_free. Qed.

(* the real bucket list of a 5 x 5 grid: 8 buckets, 4 of them served from the cached vectors (so the cached branch of
   C02_bstadaptednd_law is exercised), and the model computes on an additive box mass (uniform cell table) *)
Example C02_bstadaptednd_nonvacuous :
  let tab := map (fun c => (c, 1 # 24)) (filter (fun c => negb (zlist_eqb c [2; 2]%Z))
                 (flat_map (fun i => map (fun j => [i; j]) [0; 1; 2; 3; 4]%Z) [0; 1; 2; 3; 4]%Z)) in
  length (buckets 2 5 2) = 8%nat
  /\ map (is_axis_bucket 2 5) (buckets 2 5 2) = [true; true; true; false; false; true; false; false]
  /\ qsum (map (table_bm tab) (buckets 2 5 2)) == 1
  /\ map (nd_sample (table_bm tab) 2 5 2) [1 # 48; 1 # 4; 1 # 2; 9 # 10; 1]
     = [Some [0; -2]; Some [-1; 0]; Some [-2; 2]; Some [1; 2]; Some [2; 2]]%Z.
Proof. vm_compute. repeat split. Qed.

(* ---- wave 5 ---- *)

(* InversionMethod.sample_with_u INCLUDING the exhaustion path, the frontier draw inside the model
   (Model/InversionFrontier.v: np.random.choice = the position c in the deque fr = frontier_states_indices).
   For EVERY enumeration, _max_storage >= 1, deque fr, reachable state (any history), uniform u and choice c:
   (1) the state returned is the admissible state of the right-closed step function, or project(fr[c]) when u is above it;
   (2) np.random.choice is consumed iff u exceeds sigma = the sum of the probabilities of the admissible states
       (so with sigma == 1, exact arithmetic, never for u <= 1);
   (3) if sigma <= 1 (a float sum of rate/intensity that ends below 1), for each c the sampler is on (0, 1] the right-closed
       step function of fsegs c = adm_segs' ++ [(1 - sigma, fr[c])], of total length 1;
   (4) with c uniform on the positions of the deque, the index i receives (sum over c, i.e. length fr times the mean)
       len(fr) * p_i + (1 - sigma) * #{positions of fr holding i}: the deficit goes to the frontier indices only,
       in proportion to their multiplicity;
   (5) if every index of the deque is admissible the returned state is admissible (in the grid) whatever u and c.
   PARAMETRIC in the deque fr and in F (audit 4): nothing here says that fr is the deque the code builds; that is done by the
   instances C02_inversion_frontier_1d_law (fr1d / maxf1d, interior origin), C02_inversion_frontier_nd_law (frnd / maxfnd) and,
   negatively, C02_inversion_frontier_edge_origin_refuted (fr1d on an edge-origin axis).  With fr = [] the model answers proj 0
   where np.random.choice raises; the instances have a non-empty deque and c < len.  Clause (1) = C02_inversion_admissible with the
   symbol Frontier resolved; clause (4) is list algebra on fsegs.  sigma is the EXACT sum of prob: on a float run prob is to be
   read as the increments of the stored float cumulative sums (see C02_inversion_frontier_origin_refuted). *)
Theorem C02_inversion_frontier_law : forall (S : Type) (proj : Z -> S) (outside : S -> bool) (F : Z) (prob : S -> Q) (M : Z) (fr : list Z),
  (forall s, 0 <= prob s) -> (1 <= M)%Z -> (0 <= F)%Z ->
  let segs := adm_segs' proj outside F prob in
  let sigma := total segs in
  forall st, reachable proj outside F prob M st ->
    (forall u c, snd (inv_step_f proj outside F prob M fr st u c)
                 = Some (match locate_r 0 segs u with Some i => proj i | None => proj (nth c fr 0%Z) end))
    /\ (forall u, inv_uses_choice proj outside F prob M st u = true <-> sigma < u)
    /\ (sigma <= 1 -> forall c,
          total (fsegs proj outside F prob fr c) == 1 /\ seg_nonneg (fsegs proj outside F prob fr c)
          /\ forall u, u <= 1 -> exists i, locate_r 0 (fsegs proj outside F prob fr c) u = Some i
                                           /\ snd (inv_step_f proj outside F prob M fr st u c) = Some (proj i))
    /\ (forall i, qsum (map (fun c => len_of i (fsegs proj outside F prob fr c)) (seq 0 (length fr)))
                  == qn (length fr) * (if in_dec Z.eq_dec i (G proj outside F) then prob (proj i) else 0)
                     + (1 - sigma) * qn (zcount i fr))
    /\ (Forall (fun i => In i (G proj outside F)) fr -> forall u c, (c < length fr)%nat ->
          exists i, In i (G proj outside F) /\ snd (inv_step_f proj outside F prob M fr st u c) = Some (proj i)).
Proof. exact @inversion_frontier_law. Qed.

(* the 1-d factory instance (PairingToZ1d((-L, R), omit_zero=True), Boundary(), Domain 1-d branch = Model/Domain.v dom_1d,
   max_frontier_indices = dom_maxf) with an INTERIOR origin (0 < L, 0 < R; every grid a library constructor builds): the deque
   is [pair R; pair (-L)], both indices are admissible (hypothesis of (5) above), the frontier states are the two END POINTS of
   the axis: in the grid, not the origin.  For L = 0 or R = 0 this is FALSE: C02_inversion_frontier_edge_origin_refuted *)
Theorem C02_inversion_frontier_1d : forall L R : Z, (0 < L)%Z -> (0 < R)%Z ->
  let proj := z1d_project (- L) R 1 in
  Forall (fun i => In i (G proj (outside1d L R) (maxf1d L R))) (fr1d L R)
  /\ map proj (fr1d L R) = [R; (- L)%Z]
  /\ (0 <= maxf1d L R)%Z
  /\ (forall c, (c < length (fr1d L R))%nat -> let s := frontier_state proj (fr1d L R) c in (- L <= s <= R)%Z /\ s <> 0%Z).
Proof. exact frontier_1d. Qed.

(* F-C02-13 (finding): the frontier draw returns a state of probability ZERO.  7-point axis, probabilities summing to
   1 - 2^-52 with p(-3) = 0, u = 1 - 2^-53 in (0,1), np.random.choice picks position 1 of deque([pair 3, pair (-3)]) *)
Theorem C02_inversion_frontier_zero_prob_refuted :
  let proj := z1d_project (-3) 3 1 in
  exists st, inv_init proj (outside1d 3 3) (maxf1d 3 3) fz_prob = Some st
    /\ total (adm_segs' proj (outside1d 3 3) (maxf1d 3 3) fz_prob) == 1 - (1 # 4503599627370496)
    /\ 0 < fz_u /\ fz_u < 1
    /\ snd (inv_step_f proj (outside1d 3 3) (maxf1d 3 3) fz_prob 1000000 (fr1d 3 3) st fz_u 1) = Some (-3)%Z
    /\ fz_prob (-3) == 0.
Proof. exact inversion_frontier_zero_prob_refuted. Qed.

(* non-vacuity of the two theorems above: the same instance with _max_storage = 2, a history of four draws that consumes
   the choice twice; G has 6 admissible indices, the deque is [4; 5], index 5 (state -3) has multiplicity 1 *)
Example C02_inversion_frontier_nonvacuous :
  let proj := z1d_project (-3) 3 1 in
  fr1d 3 3 = [4; 5]%Z /\ maxf1d 3 3 = 5%Z /\ map proj (fr1d 3 3) = [3; -3]%Z
  /\ G proj (outside1d 3 3) (maxf1d 3 3) = [0; 1; 2; 3; 4; 5]%Z
  /\ (exists st, inv_init proj (outside1d 3 3) (maxf1d 3 3) fz_prob = Some st
       /\ fst (inv_run_f proj (outside1d 3 3) (maxf1d 3 3) fz_prob 2 (fr1d 3 3) st
                 [(1 # 2, 0%nat); (fz_u, 0%nat); (1 # 32, 1%nat); (fz_u, 1%nat)])
          = [Some 2; Some 3; Some 1; Some (-3)]%Z
       /\ map (inv_uses_choice proj (outside1d 3 3) (maxf1d 3 3) fz_prob 2 st) [1 # 2; fz_u] = [false; true])
  /\ zcount 5 (fr1d 3 3) = 1%nat /\ zcount 3 (fr1d 3 3) = 0%nat.
Proof. exact inversion_frontier_nonvacuous. Qed.

(* ---- wave 6 ---- *)

(* TIE (harness/specs/TIE.py, harness/py2coq_loops.py): BinarySearchTree.sample_with_u is REGENERATED from
   rpylib/distribution/variate/binarysearchtree.py on every run (Gen/GenTieBst.v: the `while ptr <= self.K` descent as a
   fuelled py_while with fuel K + 1 and error value -1); the generated definition is equal to the hand model bst_sample that
   C02_bst_law / C02_bst_range_nonzero / C02_factory_never_origin are about, for every K, array and uniform *)
Theorem C02_gen_bst_sample_with_u_is_model : forall (k : nat) (bst : list Q) (u : Q),
  GenTieBst.sample_with_u (Z.of_nat k) bst u = bst_sample k bst u.
Proof. exact Tie_Bst.gen_sample_with_u_eq_model. Qed.
(* ... hence the law of C02_bst_law holds for the GENERATED descent run on the array the constructor model builds *)
Theorem C02_gen_bst_law : forall p : list Q, (1 <= length p)%nat -> nonneg p ->
  exists b, create_bst p = Some b
    /\ forall u, 0 <= u -> u < qsum p ->
         locate 0 (bst_segs p) u = Some (GenTieBst.sample_with_u (Z.of_nat (length p - 1)) b u)
         /\ (0 <= GenTieBst.sample_with_u (Z.of_nat (length p - 1)) b u < Z.of_nat (length p))%Z
         /\ ~ nth (Z.to_nat (GenTieBst.sample_with_u (Z.of_nat (length p - 1)) b u)) p 0 == 0.
Proof. exact gen_bst_law. Qed.
(* non-vacuity: the generated loop computes, 4 states with a zero and a tie *)
Example C02_gen_bst_nonvacuous :
  map (GenTieBst.sample_with_u 3 [1 # 4; 1 # 4; 6 # 8; 1 # 4]) [0; 1 # 4; 1 # 2; 3 # 4] = [0; 2; 2; 3]%Z.
Proof. vm_compute. reflexivity. Qed.

(* TIE2: AliasMethod._draw_with_u is REGENERATED from rpylib/distribution/variate/alias.py (Gen/GenTieAlias.v; np.uint(ku) read as
   Qfloor, numpy's truncation for ku >= 0; Python ints are Z) and equals the hand model alias_draw for every K, q, J and u >= 0 *)
Theorem C02_gen_alias_draw_with_u_is_model : forall (K : nat) (q : list Q) (J : list nat) (u : Q), 0 <= u ->
  GenTieAlias.draw_with_u (Z.of_nat K) q (map Z.of_nat J) u = Z.of_nat (alias_draw K q J u).
Proof. exact Tie_Alias.gen_draw_with_u_eq_model. Qed.
(* ... hence C02_alias_law holds for the GENERATED draw run on the tables the constructor model builds *)
Theorem C02_gen_alias_law : forall p : list Q, (1 <= length p)%nat -> nonneg p -> qsum p == 1 ->
  let K := length p in let J := fst (create_alias p) in let q := snd (create_alias p) in
  let draw := GenTieAlias.draw_with_u (Z.of_nat K) q (map Z.of_nat J) in
  (forall k, (k < K)%nat -> len_of (Z.of_nat k) (alias_segs K q J) == nth k p 0)
  /\ (forall u, 0 <= u -> u < 1 -> locate 0 (alias_segs K q J) u = Some (draw u))
  /\ (forall u, 0 <= u -> u < 1 -> (0 <= draw u < Z.of_nat K)%Z)
  /\ (forall u k, 0 <= u -> u < 1 -> (k < K)%nat -> nth k p 0 == 0 -> draw u <> Z.of_nat k).
Proof. exact gen_alias_law. Qed.
(* non-vacuity: the generated draw on the tables of p = [1/4; 0; 1/2; 1/4] (a zero and a tie): state 1 is never returned *)
Example C02_gen_alias_nonvacuous :
  let p := [1 # 4; 0; 1 # 2; 1 # 4] in
  map (GenTieAlias.draw_with_u 4 (snd (create_alias p)) (map Z.of_nat (fst (create_alias p)))) [0; 5 # 16; 1 # 2; 7 # 8; 63 # 64]
  = [0; 3; 2; 2; 2]%Z.
Proof. vm_compute. reflexivity. Qed.

(* the n-d INVERSION sampler with PairingToZd over (nested) SZUDZIK (sznd_project / sznd_pair), any d >= 2, Boundary().  This is the
   factory's sampler for d = 2 ONLY: create_sampling_inversion_method takes Rosenberg-Strong for d >= 3 (audit 5a B11; the statement
   for the factory's own choice in every d >= 2 is C02_inversion_frontier_factory / _factory_law below).  The
   the deque frnd = snd (dom_nd ..) and max_frontier_indices maxfnd = dom_maxf (dom_nd ..) of Model/Domain.v (C14), is_outside =
   outside the box.  Every index of the deque is an ADMISSIBLE index of the enumeration (the hypothesis of part (5) of
   C02_inversion_frontier_law, so far proved in 1-d only), the deque is not empty, and position c of the deque is the first or
   the last point of a line of the box along the last axis: in the grid, never the origin.  (origin not on the edge of the
   last axis: 0 < o < last_size - 1; C14_frontier_draw_factory is the C14 half) *)
Theorem C02_inversion_frontier_nd : forall (all_sizes : list Z) (last_size o : Z),
  all_sizes <> [] -> Forall (fun m => (0 < m)%Z) all_sizes -> (0 < o < last_size - 1)%Z ->
  let sizes := all_sizes ++ [last_size] in let d := length sizes in
  let proj := sznd_project d in let fr := frnd sizes o in
  Forall (fun i => In i (G proj (outsidend sizes o) (maxfnd sizes o))) fr
  /\ fr <> []
  /\ (0 <= maxfnd sizes o)%Z
  /\ (forall c, (c < length fr)%nat -> let s := frontier_state proj fr c in
        length s = d /\ s <> repeat 0%Z d /\ outsidend sizes o s = false /\ draw_on_frontier all_sizes last_size o nobound s).
Proof. exact frontier_nd. Qed.

(* ... composed with the frontier law: for ANY probability table >= 0, any _max_storage >= 1, any reachable state (history), any
   uniform u and any position c < len(deque) of np.random.choice, the draw returns a state s of the grid that is not the origin;
   for u <= sigma it is the admissible state i of the right-closed step function (interval length = prob s); for u > sigma it is
   EXACTLY project(deque[c]) -- not 'some member of the deque' -- and lies on the frontier *)
Theorem C02_inversion_frontier_nd_law : forall (all_sizes : list Z) (last_size o : Z),
  all_sizes <> [] -> Forall (fun m => (0 < m)%Z) all_sizes -> (0 < o < last_size - 1)%Z ->
  let sizes := all_sizes ++ [last_size] in let d := length sizes in
  let proj := sznd_project d in let fr := frnd sizes o in
  let outside := outsidend sizes o in let F := maxfnd sizes o in
  forall (prob : list Z -> Q) (M : Z), (forall s, 0 <= prob s) -> (1 <= M)%Z ->
  let segs := adm_segs' proj outside F prob in
  forall st, reachable proj outside F prob M st -> forall u c, (c < length fr)%nat ->
    exists s, snd (inv_step_f proj outside F prob M fr st u c) = Some s
      /\ length s = d /\ s <> repeat 0%Z d /\ outside s = false
      /\ (u <= total segs -> exists i, locate_r 0 segs u = Some i /\ In i (G proj outside F) /\ s = proj i
                                       /\ len_of i segs == prob s)
      /\ (total segs < u -> s = frontier_state proj fr c /\ draw_on_frontier all_sizes last_size o nobound s).
Proof. exact inversion_frontier_nd_law. Qed.

(* non-vacuity: the real deque of a 5 x 5 grid (10 entries = first and last point of each of the 5 lines), its 24 admissible
   indices, a 4 x 4 x 4 grid (32 entries), and a history with _max_storage = 3 that takes the frontier draw twice *)
Example C02_inversion_frontier_nd_nonvacuous :
  frnd [5; 5]%Z 2 = [14; 18; 9; 16; 8; 15; 10; 17; 22; 23]%Z
  /\ maxfnd [5; 5]%Z 2 = 23%Z
  /\ map (sznd_project 2) (frnd [5; 5]%Z 2) = [[2; 2]; [2; -2]; [1; 2]; [1; -2]; [0; 2]; [0; -2]; [-1; 2]; [-1; -2]; [-2; 2]; [-2; -2]]%Z
  /\ length (G (sznd_project 2) (outsidend [5; 5]%Z 2) (maxfnd [5; 5]%Z 2)) = 24%nat
  /\ length (frnd [4; 4; 4]%Z 1) = 32%nat
  /\ (exists st, inv_init (sznd_project 2) (outsidend [5; 5]%Z 2) (maxfnd [5; 5]%Z 2) nd_ex_prob = Some st
       /\ fst (inv_run_f (sznd_project 2) (outsidend [5; 5]%Z 2) (maxfnd [5; 5]%Z 2) nd_ex_prob 3 (frnd [5; 5]%Z 2) st
                 [(1 # 4, 0%nat); (7 # 8, 3%nat); (3 # 4, 5%nat); (5 # 8, 9%nat); (4 # 5, 9%nat)])
          = [Some [1; 0]; Some [1; -2]; Some [-2; 2]; Some [-2; 2]; Some [-2; -2]]%Z
       /\ map (inv_uses_choice (sznd_project 2) (outsidend [5; 5]%Z 2) (maxfnd [5; 5]%Z 2) nd_ex_prob 3 st) [3 # 4; 7 # 8] = [false; true]).
Proof. exact inversion_frontier_nd_nonvacuous. Qed.

(* ---- wave 8 (audit 5a B11): the enumeration the factory REALLY picks ----
   samplingfactory.py create_sampling_inversion_method: Szudzik iff model.dimension() == 2, RosenbergStrong otherwise:
   fac_project d / fac_pair d of Model/InversionFrontierFactory.v; frfac / maxffac = the deque and max_frontier_indices Model/Domain.v
   computes with that pairing and Boundary().  The argument of C02_inversion_frontier_nd is done once for ANY n-d pairing with the four
   inversion facts C14 proves of both enumerations (Proofs/C02_InversionFrontierFactory.v, Section FrontierAnyPairing), instantiated
   for Rosenberg-Strong (C14: rs_proj_pair_nd, rs_pair_proj_nd, rs_pairing_nonneg; frontier_draw_admissible is the lemma behind
   C14_frontier_draw_rs_nd) and then case-split on d = 2: so the d = 3 INVERSION deque of the factory is covered by theorem.
   Hypotheses as before: at least two axes, sizes > 0, origin index o (the code uses ONE origin index on every axis) not on the edge
   of the last axis, 0 < o < last_size - 1 -- necessary: on an edge-origin last axis the deque holds the index of the origin. *)
Theorem C02_inversion_frontier_factory : forall (all_sizes : list Z) (last_size o : Z),
  all_sizes <> [] -> Forall (fun m => (0 < m)%Z) all_sizes -> (0 < o < last_size - 1)%Z ->
  let sizes := all_sizes ++ [last_size] in let d := length sizes in
  let proj := fac_project d in let fr := frfac sizes o in
  Forall (fun i => In i (G proj (outsidend sizes o) (maxffac sizes o))) fr
  /\ fr <> []
  /\ (0 <= maxffac sizes o)%Z
  /\ (forall c, (c < length fr)%nat -> let s := frontier_state proj fr c in
        length s = d /\ s <> repeat 0%Z d /\ outsidend sizes o s = false /\ draw_on_frontier all_sizes last_size o nobound s).
Proof. exact frontier_factory. Qed.

Theorem C02_inversion_frontier_factory_law : forall (all_sizes : list Z) (last_size o : Z),
  all_sizes <> [] -> Forall (fun m => (0 < m)%Z) all_sizes -> (0 < o < last_size - 1)%Z ->
  let sizes := all_sizes ++ [last_size] in let d := length sizes in
  forall (prob : list Z -> Q) (M : Z), (forall s, 0 <= prob s) -> (1 <= M)%Z ->
  let proj := fac_project d in let outside := outsidend sizes o in let F := maxffac sizes o in let fr := frfac sizes o in
  let segs := adm_segs' proj outside F prob in
  forall st, reachable proj outside F prob M st -> forall u c, (c < length fr)%nat ->
    exists s, snd (inv_step_f proj outside F prob M fr st u c) = Some s
      /\ length s = d /\ s <> repeat 0%Z d /\ outside s = false
      /\ (u <= total segs -> exists i, locate_r 0 segs u = Some i /\ In i (G proj outside F) /\ s = proj i
                                       /\ len_of i segs == prob s)
      /\ (total segs < u -> s = frontier_state proj fr c /\ draw_on_frontier all_sizes last_size o nobound s).
Proof. exact inversion_frontier_factory_law. Qed.

(* the Szudzik enumeration is NOT the factory's in d = 3 (they differ from index 1 on), it is in d = 2 *)
Example C02_szudzik_is_not_the_factory_3d :
  map (sznd_project 3) [0; 1; 2; 3]%Z <> map (fac_project 3) [0; 1; 2; 3]%Z /\ fac_project 3 = rsnd_project 3 /\ fac_project 2 = sznd_project 2.
Proof. exact szudzik_is_not_the_factory_3d. Qed.

(* non-vacuity on the factory's real 3-d deque (Rosenberg-Strong): a 3 x 3 x 4 grid, o = 1 -- 18 entries = first and last point of
   each of the 9 lines along the last axis, 35 admissible indices = the 35 non-origin cells -- a 5 x 5 x 5 grid (50 entries), and a
   history with _max_storage = 3 that takes the frontier draw twice *)
Example C02_inversion_frontier_factory_nonvacuous :
  length (frfac [3; 3; 4]%Z 1) = 18%nat
  /\ map (fac_project 3) (frfac [3; 3; 4]%Z 1)
     = [[1; 1; 2]; [1; 1; -1]; [0; 1; 2]; [0; 1; -1]; [-1; 1; 2]; [-1; 1; -1]; [1; 0; 2]; [1; 0; -1]; [0; 0; 2]; [0; 0; -1];
        [-1; 0; 2]; [-1; 0; -1]; [1; -1; 2]; [1; -1; -1]; [0; -1; 2]; [0; -1; -1]; [-1; -1; 2]; [-1; -1; -1]]%Z
  /\ length (G (fac_project 3) (outsidend [3; 3; 4]%Z 1) (maxffac [3; 3; 4]%Z 1)) = 35%nat
  /\ length (frfac [5; 5; 5]%Z 2) = 50%nat
  /\ (exists st, inv_init (fac_project 3) (outsidend [3; 3; 4]%Z 1) (maxffac [3; 3; 4]%Z 1) fac_ex_prob = Some st
       /\ fst (inv_run_f (fac_project 3) (outsidend [3; 3; 4]%Z 1) (maxffac [3; 3; 4]%Z 1) fac_ex_prob 3 (frfac [3; 3; 4]%Z 1) st
                 [(1 # 4, 0%nat); (7 # 8, 3%nat); (3 # 4, 5%nat); (4 # 5, 17%nat)])
          = [Some [1; 0; 0]; Some [0; 1; -1]; Some [-1; 1; 2]; Some [-1; -1; -1]]%Z).
Proof. exact inversion_frontier_factory_nonvacuous. Qed.

(* ---- wave 7 (audit 4: B11, D1) ---- *)

(* the 1-d factory sampler with the REAL deque and max_frontier_indices inside the statement (fr := fr1d L R, F := maxf1d L R of
   Model/Domain.v, is_outside = outside the grid), interior origin: for ANY probability table >= 0, _max_storage >= 1, reachable state
   (history), uniform u and position c < len(deque) = 2 the draw returns a state s of the grid that is not the origin; for u <= sigma
   it is the admissible state of the right-closed step function (interval length = prob s); for u > sigma it is EXACTLY
   project(deque[c]) = R for c = 0 and -L for c = 1 *)
Theorem C02_inversion_frontier_1d_law : forall L R : Z, (0 < L)%Z -> (0 < R)%Z ->
  let proj := z1d_project (- L) R 1 in let outside := outside1d L R in let F := maxf1d L R in let fr := fr1d L R in
  forall (prob : Z -> Q) (M : Z), (forall s, 0 <= prob s) -> (1 <= M)%Z ->
  let segs := adm_segs' proj outside F prob in
  forall st, reachable proj outside F prob M st -> forall u c, (c < length fr)%nat ->
    exists s, snd (inv_step_f proj outside F prob M fr st u c) = Some s
      /\ (- L <= s <= R)%Z /\ s <> 0%Z
      /\ (u <= total segs -> exists i, locate_r 0 segs u = Some i /\ In i (G proj outside F) /\ s = proj i
                                       /\ len_of i segs == prob s)
      /\ (total segs < u -> s = frontier_state proj fr c /\ s = nth c [R; (- L)%Z] 0%Z).
Proof. exact inversion_frontier_1d_law. Qed.

(* F-C02-14 (finding, audit 4 D1).  On an EDGE-origin axis (L = 0 or R = 0: public CTMCGrid(h, origin_coordinate = 0, axes) through
   MarkovChainProcess; samplingfactory.py has a `left == 0` branch) Domain.compute_total_number_of_states_and_frontier puts
   pair(0) = -1 into the deque: no index of the enumeration, and project(-1) is the increment 0. *)
Theorem C02_inversion_frontier_1d_edge_deque :
  (forall R, (0 < R)%Z ->
     fr1d 0 R = [R - 1; -1]%Z /\ maxf1d 0 R = (R - 1)%Z
     /\ ~ In (-1)%Z (G (z1d_project 0 R 1) (outside1d 0 R) (maxf1d 0 R))
     /\ frontier_state (z1d_project 0 R 1) (fr1d 0 R) 1 = 0%Z)
  /\ (forall L, (0 < L)%Z ->
     fr1d L 0 = [-1; L - 1]%Z /\ maxf1d L 0 = (L - 1)%Z
     /\ ~ In (-1)%Z (G (z1d_project (- L) 0 1) (outside1d L 0) (maxf1d L 0))
     /\ frontier_state (z1d_project (- L) 0 1) (fr1d L 0) 0 = 0%Z).
Proof. exact frontier_1d_edge. Qed.

(* ... hence 'never the origin' is REFUTED for every edge-origin axis, every probability table >= 0, every _max_storage >= 1, every
   reachable state (history) and every uniform above the sum sigma of the stored probabilities (on a float run sigma is the last
   stored float sum, which rounding puts below 1 - 2^-53 for most intensities that are not powers of two): when np.random.choice
   picks the position of the deque holding -1 (1 for L = 0, 0 for R = 0) the sampler returns the increment 0 *)
Theorem C02_inversion_frontier_edge_origin_refuted : forall (prob : Z -> Q) (M : Z), (forall s, 0 <= prob s) -> (1 <= M)%Z ->
  (forall R, (0 < R)%Z -> let proj := z1d_project 0 R 1 in
     forall st, reachable proj (outside1d 0 R) (maxf1d 0 R) prob M st ->
     forall u, total (adm_segs' proj (outside1d 0 R) (maxf1d 0 R) prob) < u ->
       snd (inv_step_f proj (outside1d 0 R) (maxf1d 0 R) prob M (fr1d 0 R) st u 1) = Some 0%Z)
  /\ (forall L, (0 < L)%Z -> let proj := z1d_project (- L) 0 1 in
     forall st, reachable proj (outside1d L 0) (maxf1d L 0) prob M st ->
     forall u, total (adm_segs' proj (outside1d L 0) (maxf1d L 0) prob) < u ->
       snd (inv_step_f proj (outside1d L 0) (maxf1d L 0) prob M (fr1d L 0) st u 0) = Some 0%Z).
Proof. exact inversion_frontier_edge_origin. Qed.

(* the witness of F-C02-14 on the FLOAT RUN of /repo: CTMCGrid(h = 1/4, origin_coordinate = 0, axes = [0 .. 9h]), cell masses
   0, 51/256, 53/64, 547/256, 13/32, 161/256, 375/256, 59/256, 55/256, 57/64 (intensity 7) through MarkovChainProcess(INVERSION).
   fe_prob = the increments of the floats InversionMethod stores in _cumulative_probabilities (so that the model's sums ARE the
   stored floats; checked against the implementation on every run, group inversion_floatinc): they sum to 1 - 2^-52, the uniform
   1 - 2^-53 is in (0, 1) and above the sum, the deque is [8; -1]: position 1 -> the origin, position 0 -> state 9; and the mirrored
   grid (origin_coordinate = 9, axes = [-9h .. 0]), deque [-1; 8]: position 0 -> the origin *)
Theorem C02_inversion_frontier_origin_refuted :
  (exists st, inv_init (z1d_project 0 9 1) (outside1d 0 9) (maxf1d 0 9) fe_prob = Some st
     /\ total (adm_segs' (z1d_project 0 9 1) (outside1d 0 9) (maxf1d 0 9) fe_prob) == 1 - (1 # 4503599627370496)
     /\ 0 < fz_u /\ fz_u < 1
     /\ fr1d 0 9 = [8; -1]%Z
     /\ snd (inv_step_f (z1d_project 0 9 1) (outside1d 0 9) (maxf1d 0 9) fe_prob 1000000 (fr1d 0 9) st fz_u 1) = Some 0%Z
     /\ snd (inv_step_f (z1d_project 0 9 1) (outside1d 0 9) (maxf1d 0 9) fe_prob 1000000 (fr1d 0 9) st fz_u 0) = Some 9%Z)
  /\ (exists st, inv_init (z1d_project (-9) 0 1) (outside1d 9 0) (maxf1d 9 0) fe_prob_left = Some st
     /\ fr1d 9 0 = [-1; 8]%Z
     /\ snd (inv_step_f (z1d_project (-9) 0 1) (outside1d 9 0) (maxf1d 9 0) fe_prob_left 1000000 (fr1d 9 0) st fz_u 0) = Some 0%Z).
Proof. exact inversion_frontier_origin_refuted. Qed.

(* F-C02-13 on the float run of its RECORDED witness (audit 4: the older Coq witness fz_prob is a hand-made deficient table): 7-point
   axis, cell masses 0, 1, 1, 0, 1/4, 17/4, 1/2 (intensity 7) through the factory; fz_prob_run = the increments of the stored float sums:
   they sum to 1 - 2^-52, p(-3) = 0, u = 1 - 2^-53, position 1 of deque([pair 3, pair (-3)]) -> state -3 *)
Theorem C02_inversion_frontier_zero_prob_run_refuted :
  let proj := z1d_project (-3) 3 1 in
  exists st, inv_init proj (outside1d 3 3) (maxf1d 3 3) fz_prob_run = Some st
    /\ total (adm_segs' proj (outside1d 3 3) (maxf1d 3 3) fz_prob_run) == 1 - (1 # 4503599627370496)
    /\ snd (inv_step_f proj (outside1d 3 3) (maxf1d 3 3) fz_prob_run 1000000 (fr1d 3 3) st fz_u 1) = Some (-3)%Z
    /\ fz_prob_run (-3) == 0.
Proof. exact inversion_frontier_zero_prob_run_refuted. Qed.

(* non-vacuity of C02_inversion_frontier_edge_origin_refuted and C02_inversion_frontier_1d_law: states reached after two draws with
   _max_storage = 2 (a restart), the hypothesis sigma < u holds for u = 1 - 2^-53, and a uniform below the sum is served normally *)
Example C02_frontier_edge_nonvacuous :
  (exists st, reachable (z1d_project 0 9 1) (outside1d 0 9) (maxf1d 0 9) fe_prob 2 st
       /\ total (adm_segs' (z1d_project 0 9 1) (outside1d 0 9) (maxf1d 0 9) fe_prob) < fz_u
       /\ snd (inv_step_f (z1d_project 0 9 1) (outside1d 0 9) (maxf1d 0 9) fe_prob 2 (fr1d 0 9) st fz_u 1) = Some 0%Z
       /\ snd (inv_step_f (z1d_project 0 9 1) (outside1d 0 9) (maxf1d 0 9) fe_prob 2 (fr1d 0 9) st (1 # 2) 1) = Some 4%Z)
  /\ (exists st, reachable (z1d_project (-3) 3 1) (outside1d 3 3) (maxf1d 3 3) fz_prob_run 2 st
       /\ length (fr1d 3 3) = 2%nat
       /\ snd (inv_step_f (z1d_project (-3) 3 1) (outside1d 3 3) (maxf1d 3 3) fz_prob_run 2 (fr1d 3 3) st fz_u 0) = Some 3%Z
       /\ snd (inv_step_f (z1d_project (-3) 3 1) (outside1d 3 3) (maxf1d 3 3) fz_prob_run 2 (fr1d 3 3) st (1 # 2) 0) = Some 2%Z).
Proof. exact frontier_edge_nonvacuous. Qed.

(* F-C02-6 (recorded finding, current tree): the right-closed samplers send u = 0 to the first enumerated state
   even when its probability is zero *)
Theorem C02_inversion_zero_uniform_refuted :
  exists st, inv_init zu_proj (fun _ => false) 1 zu_prob = Some st
             /\ snd (inv_step zu_proj (fun _ => false) 1 zu_prob 1000000 st 0) = Out 1%Z
             /\ zu_prob 1 == 0.
Proof. exact inversion_zero_uniform_refuted. Qed.
Theorem C02_bstadapted1d_zero_uniform_refuted :
  let axis := [-(1); 0; 1] in let mass := step_mass [(1 # 2, 1, 2)] in
  ba_sample axis 1 mid_arith mass 1 1 (-(2)) 0 = (-1)%Z
  /\ mass (ba_cell_a axis mid_arith 0) (ba_cell_b axis mid_arith 0) == 0.
Proof. exact bstadapted1d_zero_uniform_refuted. Qed.

(* F-C02-7 = F-C14-6, FIXED by a073fcb: with an inadmissible index and _max_storage = 2 the ORIGINAL code sent 9/10 to
   state 2 instead of state 3 (historical witness on Model/InversionOrig.v); the repaired code answers 3 with any storage
   (an instance of C02_inversion_admissible, checked by computation) *)
Example C02_inversion_overflow_orig :
  exists st, InvOrig.inv_init (fun i => i) ov_inside 3 ov_prob = Some st
             /\ snd (InvOrig.inv_step (fun i => i) ov_inside 3 ov_prob 2 st (9 # 10)) = InvOrig.Out 2%Z
             /\ snd (InvOrig.inv_step (fun i => i) ov_inside 3 ov_prob 1000000 st (9 # 10)) = InvOrig.Out 3%Z.
Proof. exact inversion_overflow_orig. Qed.
Example C02_inversion_overflow_repaired :
  exists st, inv_init (fun i => i) ov_outside 3 ov_prob = Some st
             /\ snd (inv_step (fun i => i) ov_outside 3 ov_prob 2 st (9 # 10)) = Out 3%Z
             /\ snd (inv_step (fun i => i) ov_outside 3 ov_prob 1 st (9 # 10)) = Out 3%Z
             /\ snd (inv_step (fun i => i) ov_outside 3 ov_prob 1000000 st (9 # 10)) = Out 3%Z.
Proof. exact inversion_overflow_repaired. Qed.

(* non-vacuity: the models compute, on a vector with a zero and a tie *)
Example C02_nonvacuous :
  let p := [1 # 4; 0; 1 # 2; 1 # 4] in
  create_bst p = Some [1 # 4; 1 # 4; 6 # 8; 1 # 4]
  /\ map (fun u => bst_sample 3 [1 # 4; 1 # 4; 6 # 8; 1 # 4] u) [0; 1 # 4; 1 # 2; 3 # 4] = [0; 2; 2; 3]%Z
  /\ fst (create_alias p) = [0; 3; 0; 2]%nat
  /\ option_map (fun t => map (huff_sample t) [0; 1 # 4; 1 # 2; 3 # 4]) (create_huffman p) = Some [3; 0; 2; 2]%Z
  /\ z1d_project (-2) 5 1 6 = 5%Z.
Proof. vm_compute. repeat split. Qed.

Print Assumptions C02_bst_law.
Print Assumptions C02_huffman_law.
Print Assumptions C02_alias_law.
Print Assumptions C02_bstadapted1d_law.
Print Assumptions C02_table_law.
Print Assumptions C02_inversion_admissible.
Print Assumptions C02_table_draw_law.
Print Assumptions C02_table_draw_never_zero.
Print Assumptions C02_bst_range_nonzero.
Print Assumptions C02_huffman_range_nonzero.
Print Assumptions C02_factory_never_origin.
Print Assumptions C02_history_free_table_driven.
Print Assumptions C02_bstadapted1d_cache_history_free.
Print Assumptions C02_bstadaptednd_bucket_law.
Print Assumptions C02_bstadaptednd_law.
Print Assumptions C02_bstadaptednd_cache_history_free.
Print Assumptions C02_bstadaptednd_nonvacuous.
Print Assumptions C02_inversion_frontier_law.
Print Assumptions C02_inversion_frontier_1d.
Print Assumptions C02_inversion_frontier_zero_prob_refuted.
Print Assumptions C02_inversion_frontier_nonvacuous.
Print Assumptions C02_gen_bst_sample_with_u_is_model.
Print Assumptions C02_gen_bst_law.
Print Assumptions C02_gen_bst_nonvacuous.
Print Assumptions C02_gen_alias_draw_with_u_is_model.
Print Assumptions C02_gen_alias_law.
Print Assumptions C02_gen_alias_nonvacuous.
Print Assumptions C02_inversion_frontier_nd.
Print Assumptions C02_inversion_frontier_nd_law.
Print Assumptions C02_inversion_frontier_nd_nonvacuous.
Print Assumptions C02_inversion_frontier_factory.
Print Assumptions C02_inversion_frontier_factory_law.
Print Assumptions C02_szudzik_is_not_the_factory_3d.
Print Assumptions C02_inversion_frontier_factory_nonvacuous.
Print Assumptions C02_inversion_frontier_1d_law.
Print Assumptions C02_inversion_frontier_1d_edge_deque.
Print Assumptions C02_inversion_frontier_edge_origin_refuted.
Print Assumptions C02_inversion_frontier_origin_refuted.
Print Assumptions C02_inversion_frontier_zero_prob_run_refuted.
Print Assumptions C02_frontier_edge_nonvacuous.
Print Assumptions C02_inversion_zero_uniform_refuted.
Print Assumptions C02_bstadapted1d_zero_uniform_refuted.
Print Assumptions C02_inversion_overflow_orig.
Print Assumptions C02_inversion_overflow_repaired.
Print Assumptions C02_nonvacuous.

(* C03 -- Level coupling keeps the coarse path in the previous level's law.  Only statements; proofs in
   Proofs/C03_Coupling1d.v (and Proofs/C03_CouplingNd.v for the copula coupling).
   Model: Model/Coupling1d.v (couplingmarkovchain.py: probability_to_right_jump, coupling_state, next_level,
   simulate_diffusion_with_coupling) over Model/Grid.v (refine), Model/Chain.v (cells, rates), Model/Drift.v.
   `mass` = fine_process.model.mass, the Levy measure truncated to the grid's end points (which refine does not move):
   an arbitrary interval function over Q, additive and non-negative on intervals not containing the origin;
   mc / mf = grid.middle at the coarse / refined level (only the arithmetic mean is a proved instance). *)
From Coq Require Import ZArith QArith List Lia.
From RV Require Import Base.QB Model.Grid Gen.GenC01Trunc Gen.GenC04Triplet Model.Chain Model.Drift Model.Coupling1d
  Model.CouplingNd Proofs.C13_Grid Proofs.C01_Chain Proofs.C03_Coupling1d Proofs.C03_CouplingNd Proofs.C03_TelescopingNd.
Import ListNotations.
Open Scope Q_scope.

Section Measure.
  (* mc = grid.middle of the coarse level l-1 (refine inserts mc x_i x_{i+1}; the coarse chain's cells use it);
     mf = grid.middle of the refined level l (the fine chain's cells and the coupling use it).  For CTMCGrid both are the
     arithmetic mean, the only PROVED instance.  NOTE: mc_between / mf_between are required of ALL x < y;
     CTMCGridProbabilityStep.middle violates that (middle(-0.001, 0) = -h/2), so these theorems do NOT cover the probability-step
     grid: there the telescoping identity is checked by the oracle only (real-grid stream of props/C03.py, levels 1-3). *)
  Variables mc mf : Q -> Q -> Q.
  Hypothesis mc_between : forall x y, x < y -> x < mc x y /\ mc x y < y.
  Hypothesis mc_refl : forall x, ~ x == 0 -> mc x x == x.      (* used at the two end points of the axis only *)
  Hypothesis mf_between : forall x y, x < y -> x < mf x y /\ mf x y < y.
  Hypothesis mf_refl : forall x, ~ x == 0 -> mf x x == x.
  Variable mass : Q -> Q -> Q.
  (* additive / non-negative on intervals NOT containing the origin (finite for every Levy measure) *)
  Hypothesis mass_add : forall a b c, a <= b -> b <= c -> (c < 0 \/ 0 < a) -> mass a c == mass a b + mass b c.
  Hypothesis mass_pos : forall a b, a <= b -> (b < 0 \/ 0 < a) -> 0 <= mass a b.
  Hypothesis mass_proper : forall a a' b b', a == a' -> b == b' -> mass a b == mass a' b'.

  (* after refine: even indices carry the old axis, odd indices the old cell boundaries; so the level-(l-1) cell of the
     coarse state x_{2j} is [x_{2j-1}, x_{2j+1}], clamped at the two ends *)
  Theorem C03_coarse_grid_is_even_indices : forall xs o h, admissible xs o h ->
    let xs' := refine_axis mc xs in
    length xs' = (2 * length xs - 1)%nat
    /\ (forall j, (j < length xs)%nat -> nthq xs' (2 * j) = nthq xs j)
    /\ (forall j, (1 <= j)%nat -> (j < length xs)%nat -> nthq xs' (2 * j - 1) = cell_lo mc xs j)
    /\ (forall j, (j + 1 < length xs)%nat -> nthq xs' (2 * j + 1) = cell_hi mc xs j)
    /\ cell_lo mf xs' 0 == cell_lo mc xs 0
    /\ cell_hi mf xs' (2 * (length xs - 1)) == cell_hi mc xs (length xs - 1).
  Proof. intros xs o h A. apply (coarse_grid_is_even_indices mc mf) with (o := o) (h := h); assumption. Qed.

  (* coupling_state on the refined grid: an even fine increment (a coarse-grid state) is copied unchanged; an odd one is
     moved to its left or right neighbour, the two coarse states adjacent to it; for every coupling uniform u *)
  Theorem C03_copy_or_adjacent_1d : forall xs o u, incr xs -> xs <> [] ->
    let xs' := refine_axis mc xs in
    (forall i, (i < length xs)%nat ->
        coupling_state mf mass xs' (2 * o) (Z.of_nat (2 * i) - Z.of_nat (2 * o)) u = Some (nthq xs i)
        /\ nthq xs' (2 * i) = nthq xs i)
    /\ (forall i v, (i + 1 < length xs)%nat ->
        coupling_state mf mass xs' (2 * o) (Z.of_nat (2 * i + 1) - Z.of_nat (2 * o)) u = Some v ->
        (v = nthq xs i \/ v = nthq xs (i + 1))
        /\ nthq xs i < nthq xs' (2 * i + 1) < nthq xs (i + 1)).
  Proof. intros xs o u Hi N. apply (copy_or_adjacent mc mf); assumption. Qed.

  (* THE LAW OF coupling_state: which side the threshold selects.  For an odd fine index p with right-probability pr the
     coupled index is p+1 exactly for the uniforms u < pr and p-1 exactly for u >= pr; so for u uniform on [0,1) the two
     targets have probabilities |[0,pr)| = pr and |[pr,1)| = 1-pr, and that is what prob_to (used by the telescoping
     theorem) assigns; coupling_state returns the state at coupling_index.  A swap of the two branches breaks this. *)
  Theorem C03_coupling_law : forall xs p pr, Nat.even p = false -> (p + 1 < length xs)%nat ->
    prob_right_at mf mass xs p = Some pr ->
    (forall u, coupling_index mf mass xs p u = Some (p + 1)%nat <-> u < pr)
    /\ (forall u, coupling_index mf mass xs p u = Some (p - 1)%nat <-> pr <= u)
    /\ prob_to mf mass xs p (p + 1) == pr /\ prob_to mf mass xs p (p - 1) == 1 - pr
    /\ (forall t, t <> (p + 1)%nat -> t <> (p - 1)%nat -> prob_to mf mass xs p t == 0).
  Proof. intros xs p pr. apply (coupling_law mf). Qed.
  Theorem C03_coupling_law_even : forall xs p u, Nat.even p = true ->
    coupling_index mf mass xs p u = Some p /\ prob_to mf mass xs p p == 1 /\ (forall t, t <> p -> prob_to mf mass xs p t == 0).
  Proof. intros xs p u. apply (coupling_law_even mf). Qed.
  Theorem C03_coupling_state_is_index : forall xs o2 p u, (p < length xs)%nat ->
    coupling_state mf mass xs (2 * o2) (Z.of_nat p - Z.of_nat (2 * o2)) u = option_map (nthq xs) (coupling_index mf mass xs p u).
  Proof. intros xs o2 p u. apply (coupling_state_is_index mf). Qed.

  (* the probability used for an odd increment is a probability (states other than the origin) *)
  Theorem C03_prob_right_unit : forall xs o h p pr, admissible xs o h -> (p < length xs)%nat -> p <> o ->
    prob_right_at mf mass xs p = Some pr -> 0 <= pr <= 1.
  Proof. intros xs o h p pr A. apply (prob_right_unit_admissible mf) with (h := h); assumption. Qed.

  (* TELESCOPING: for every coarse state y = x_j (j <> origin) of ANY admissible axis, the sum over the fine states of
     (fine rate) x P(coupling sends that fine state to y) is the rate of y in the chain built on the un-refined axis.
     States of rate 0, where the code would divide 0/0, are never sampled and contribute 0. *)
  Theorem C03_telescoping_1d : forall xs o h, admissible xs o h ->
    forall j, (j < length xs)%nat -> j <> o ->
      inflow mf mass (refine_axis mc xs) (2 * o) (2 * j) == q_entry mc mass xs o j.
  Proof. intros xs o h A. apply (telescoping_admissible mc mf) with (h := h); assumption. Qed.

  (* ... and the fine mass coupled to a coarse increment of 0 is exactly the part of the old central cell
     [cell boundary left of 0, cell boundary right of 0] outside the new central cell *)
  Theorem C03_sent_to_origin : forall xs o h, admissible xs o h ->
    let xs' := refine_axis mc xs in
    inflow mf mass xs' (2 * o) (2 * o)
    == mass (nthq xs' (2 * o - 1)) (cell_lo mf xs' (2 * o)) + mass (cell_hi mf xs' (2 * o)) (nthq xs' (2 * o + 1))
    /\ nthq xs' (2 * o - 1) = cell_lo mc xs o /\ nthq xs' (2 * o + 1) = cell_hi mc xs o.
  Proof. intros xs o h A. apply (sent_to_origin_admissible mc mf) with (h := h); assumption. Qed.
End Measure.

(* the level state machine (any functions giving the fine chain's squared diffusion coefficient and drift on a grid):
   at every level l = n+1 >= 1 the coarse coefficient and the frozen coarse drift are the fine ones of level l-1,
   i.e. those of the chain on the grid refined l-1 times *)
Theorem C03_drift_diffusion_frozen : forall mid sig2_of drift_of x0 n g,
  let s := run_levels mid sig2_of drift_of x0 (S n) g in
  c_level s = S n
  /\ c_grid s = refine_n mid (S n) g
  /\ c_sig2_coarse s = c_sig2_fine (run_levels mid sig2_of drift_of x0 n g)
  /\ c_sig2_coarse s = sig2_of (refine_n mid n g)
  /\ c_sig2_fine s = sig2_of (refine_n mid (S n) g)
  /\ c_drift_fine s = drift_of (refine_n mid (S n) g)
  /\ (exists d, c_drift_coarse s = Some d /\ d == c_drift_fine (run_levels mid sig2_of drift_of x0 n g)
                /\ d == drift_of (refine_n mid n g)).
Proof. exact drift_diffusion_frozen. Qed.
Theorem C03_same_brownian_increments : forall cf cc dts w,
  snd (diffusion_pair cf cc dts w) = diffusion_path cc dts w /\ fst (diffusion_pair cf cc dts w) = diffusion_path cf dts w
  /\ length (diffusion_path cc dts w) = length (diffusion_path cf dts w).
Proof. exact same_brownian. Qed.

(* ---------------- the n-dimensional (Levy copula) coupling ---------------- *)
(* positive structural theorems about the faithful 2-d model Model/CouplingNd.v of __coupling_state; they hold of the current code.
   The n-d code always uses the arithmetic tuple-middle (amid).  Two axis lists xs, ys (they may differ; one origin index):
   the model follows the repaired code (fix-grid3), which reads an odd coordinate's neighbours on its own axis. *)
Theorem C03_copy_rule_nd : forall mid mass2 marg xs ys o i1 i2 u, (i1 mod 2 = 0)%Z -> (i2 mod 2 = 0)%Z ->
  coupling_state2 mid mass2 marg xs ys o i1 i2 u
  = Some (nthq xs (Z.to_nat (Z.of_nat o + i1)), nthq ys (Z.to_nat (Z.of_nat o + i2))).
Proof. exact copy_rule_2d. Qed.
Theorem C03_adjacency_nd : forall mid mass2 marg xs ys o i1 i2 u v1 v2,
  coupling_state2 mid mass2 marg xs ys o i1 i2 u = Some (v1, v2) ->
  let p1 := Z.to_nat (Z.of_nat o + i1) in let p2 := Z.to_nat (Z.of_nat o + i2) in
  ((i1 mod 2 = 0)%Z -> v1 = nthq xs p1) /\ ((i1 mod 2 <> 0)%Z -> v1 = nthq xs (p1 - 1) \/ v1 = nthq xs (p1 + 1))
  /\ ((i2 mod 2 = 0)%Z -> v2 = nthq ys p2) /\ ((i2 mod 2 <> 0)%Z -> v2 = nthq ys (p2 - 1) \/ v2 = nthq ys (p2 + 1)).
Proof. exact adjacency_2d. Qed.

Section NdMeasure.
  Variable marg : nat -> Q -> Q -> Q.      (* model.mass(a, b, [k]): margin over axis k *)
  Hypothesis marg_add : forall k a b c, a <= b -> b <= c -> (c < 0 \/ 0 < a) -> marg k a c == marg k a b + marg k b c.
  Hypothesis marg_pos : forall k a b, a <= b -> (b < 0 \/ 0 < a) -> 0 <= marg k a b.
  Hypothesis marg_proper : forall k a a' b b', a == a' -> b == b' -> marg k a b == marg k a' b'.
  Variable mass2 : Q * Q -> Q * Q -> Q.    (* model.mass(a, b): joint rectangle mass *)
  Hypothesis mass2_add1 : forall a1 b1 c1 y1 y2, a1 <= b1 -> b1 <= c1 -> avoids (a1, y1) (c1, y2) ->
    mass2 (a1, y1) (c1, y2) == mass2 (a1, y1) (b1, y2) + mass2 (b1, y1) (c1, y2).
  Hypothesis mass2_add2 : forall x1 x2 a2 b2 c2, a2 <= b2 -> b2 <= c2 -> avoids (x1, a2) (x2, c2) ->
    mass2 (x1, a2) (x2, c2) == mass2 (x1, a2) (x2, b2) + mass2 (x1, b2) (x2, c2).
  Hypothesis mass2_pos : forall a b, fst a <= fst b -> snd a <= snd b -> avoids a b -> 0 <= mass2 a b.
  Hypothesis mass2_proper : forall a1 a2 b1 b2 a1' a2' b1' b2', a1 == a1' -> a2 == a2' -> b1 == b1' -> b2 == b2' ->
    mass2 (a1, a2) (b1, b2) == mass2 (a1', a2') (b1', b2').

  (* the corner probabilities are a probability law whenever the mass in the denominator is not 0: one odd axis ... *)
  Theorem C03_corner1_is_law : forall k xs p pl pr, incr xs -> (1 <= p)%nat -> (p + 1 < length xs)%nat ->
    (cell_hi amid xs p < 0 \/ 0 < cell_lo amid xs p) ->
    corner1 amid marg k xs p = Some (pl, pr) -> 0 <= pl /\ 0 <= pr /\ pl + pr == 1.
  Proof. intros k xs p pl pr. apply (corner1_is_law marg); assumption. Qed.
  (* ... and both axes odd (joint quarter masses) *)
  Theorem C03_corner2_is_law : forall xs ys p1 p2 cs, incr xs -> incr ys -> (1 <= p1)%nat -> (p1 + 1 < length xs)%nat ->
    (1 <= p2)%nat -> (p2 + 1 < length ys)%nat -> (cell_hi amid xs p1 < 0 \/ 0 < cell_lo amid xs p1) ->
    corner2 amid mass2 xs ys p1 p2 = Some cs ->
    Forall (fun c => 0 <= snd c) cs /\ qsum (map (fun c => snd c) cs) == 1.
  Proof. intros xs ys p1 p2 cs. apply (corner2_is_law mass2); assumption. Qed.

  (* TELESCOPING, dimension 2, JOINT corner masses (the repaired rule prob_to2_joint / coupling_state2_joint of Model/CouplingNd.v; the code
     as it is takes margin masses and is REFUTED below): for ANY rectangle mass additive per coordinate and non-negative away from the origin
     and ANY two admissible axes with the common origin index, every coarse state (j1,j2) other than the origin receives
     sum_fine rate(fine) x P(fine -> (j1,j2)) = the rate of (j1,j2) in the chain built on the un-refined axes.  Fine states of rate 0
     (where the rule divides by 0) contribute 0. *)
  Theorem C03_telescoping_nd_joint : forall xs ys o h1 h2, admissible xs o h1 -> admissible ys o h2 ->
    forall j1 j2, (j1 < length xs)%nat -> (j2 < length ys)%nat -> (j1, j2) <> (o, o) ->
      inflow2_gen amid mass2 (prob_to2_joint amid mass2 marg) (refine_axis amid xs) (refine_axis amid ys) (2 * o) (2 * j1) (2 * j2)
      == q_entry2 amid mass2 xs ys o j1 j2.
  Proof. intros xs ys o h1 h2. apply (telescoping_nd_joint marg mass2); assumption. Qed.

  (* the joint corner probabilities of ONE odd axis are a probability law whenever the cell mass is not 0 *)
  Theorem C03_corner1_joint_is_law : forall xs ys p1 p2 pl pr,
    (incr xs -> (1 <= p1)%nat -> (p1 + 1 < length xs)%nat -> (cell_hi amid xs p1 < 0 \/ 0 < cell_lo amid xs p1) ->
     cell_lo amid ys p2 <= cell_hi amid ys p2 -> corner1_joint amid mass2 0 xs ys p1 p2 = Some (pl, pr) -> 0 <= pl /\ 0 <= pr /\ pl + pr == 1)
    /\ (incr ys -> (1 <= p2)%nat -> (p2 + 1 < length ys)%nat -> (cell_hi amid ys p2 < 0 \/ 0 < cell_lo amid ys p2) ->
        cell_lo amid xs p1 <= cell_hi amid xs p1 -> corner1_joint amid mass2 1 xs ys p1 p2 = Some (pl, pr) -> 0 <= pl /\ 0 <= pr /\ pl + pr == 1).
  Proof. intros xs ys p1 p2 pl pr. split; [apply (corner1_joint0_is_law mass2)|apply (corner1_joint1_is_law mass2)]; assumption. Qed.

  (* THE LAW OF THE 2-d COUPLING as a function of the coupling uniform u (audit3: prob_to2 and coupling_state2 were unlinked).
     joint = false: the code as it is (coupling_state2 / prob_to2, margin masses); joint = true: the repaired rule.
     One odd axis: the left neighbour exactly for u <= pl, the right one exactly for pl < u <= pl + pr, and prob_to2 assigns pl, pr to these
     two targets and 0 to every other one.  (pl + pr == 1 and 0 <= pl, pr: C03_corner1_is_law / C03_corner1_joint_is_law.) *)
  Theorem C03_coupling_law_nd_odd_even : forall (joint : bool) xs ys (o2 p1 p2 : nat) pl pr, Nat.even p1 = false -> Nat.even p2 = true ->
    incr xs -> (p1 + 1 < length xs)%nat -> 0 <= pr ->
    (if joint then corner1_joint amid mass2 0 xs ys p1 p2 else corner1 amid marg 0 xs p1) = Some (pl, pr) ->
    let cs := (if joint then coupling_state2_joint amid mass2 marg else coupling_state2 amid mass2 marg)
                xs ys (2 * o2)%nat (Z.of_nat p1 - Z.of_nat (2 * o2))%Z (Z.of_nat p2 - Z.of_nat (2 * o2))%Z in
    let pt := (if joint then prob_to2_joint amid mass2 marg else prob_to2 amid mass2 marg) xs ys p1 p2 in
    (forall u, cs u = Some (nthq xs (p1 - 1), nthq ys p2) <-> u <= pl)
    /\ (forall u, cs u = Some (nthq xs (p1 + 1), nthq ys p2) <-> pl < u /\ u <= pl + pr)
    /\ pt (p1 - 1)%nat p2 == pl /\ pt (p1 + 1)%nat p2 == pr
    /\ (forall t1 t2, ~ (t2 = p2 /\ (t1 = (p1 - 1)%nat \/ t1 = (p1 + 1)%nat)) -> pt t1 t2 == 0).
  Proof. intros joint xs ys o2 p1 p2 pl pr. apply law_odd_even. Qed.
  Theorem C03_coupling_law_nd_even_odd : forall (joint : bool) xs ys (o2 p1 p2 : nat) pl pr, Nat.even p1 = true -> Nat.even p2 = false ->
    incr ys -> (p2 + 1 < length ys)%nat -> 0 <= pr ->
    (if joint then corner1_joint amid mass2 1 xs ys p1 p2 else corner1 amid marg 1 ys p2) = Some (pl, pr) ->
    let cs := (if joint then coupling_state2_joint amid mass2 marg else coupling_state2 amid mass2 marg)
                xs ys (2 * o2)%nat (Z.of_nat p1 - Z.of_nat (2 * o2))%Z (Z.of_nat p2 - Z.of_nat (2 * o2))%Z in
    let pt := (if joint then prob_to2_joint amid mass2 marg else prob_to2 amid mass2 marg) xs ys p1 p2 in
    (forall u, cs u = Some (nthq xs p1, nthq ys (p2 - 1)) <-> u <= pl)
    /\ (forall u, cs u = Some (nthq xs p1, nthq ys (p2 + 1)) <-> pl < u /\ u <= pl + pr)
    /\ pt p1 (p2 - 1)%nat == pl /\ pt p1 (p2 + 1)%nat == pr
    /\ (forall t1 t2, ~ (t1 = p1 /\ (t2 = (p2 - 1)%nat \/ t2 = (p2 + 1)%nat)) -> pt t1 t2 == 0).
  Proof. intros joint xs ys o2 p1 p2 pl pr. apply law_even_odd. Qed.
  (* both axes odd (the two rules coincide): the four corners in itertools.product([-1,1]) order, corner k exactly for
     cum_(k-1) < u <= cum_k; the corner probabilities are >= 0, sum to 1, and are what prob_to2 assigns *)
  Theorem C03_coupling_law_nd_odd_odd : forall xs ys (o2 p1 p2 : nat) cs, Nat.even p1 = false -> Nat.even p2 = false ->
    incr xs -> incr ys -> (p1 + 1 < length xs)%nat -> (p2 + 1 < length ys)%nat ->
    (cell_hi amid xs p1 < 0 \/ 0 < cell_lo amid xs p1) ->
    corner2 amid mass2 xs ys p1 p2 = Some cs ->
    let i1 := (Z.of_nat p1 - Z.of_nat (2 * o2))%Z in let i2 := (Z.of_nat p2 - Z.of_nat (2 * o2))%Z in
    let st := coupling_state2 amid mass2 marg xs ys (2 * o2) i1 i2 in
    let pt := prob_to2 amid mass2 marg xs ys p1 p2 in
    let v := fun d1 d2 : bool => (nthq xs (step_idx p1 d1), nthq ys (step_idx p2 d2)) in
    exists q0 q1 q2 q3, cs = [(false, false, q0); (false, true, q1); (true, false, q2); (true, true, q3)]
    /\ 0 <= q0 /\ 0 <= q1 /\ 0 <= q2 /\ 0 <= q3 /\ q0 + q1 + q2 + q3 == 1
    /\ (forall u, (st u = Some (v false false) <-> u <= q0)
                 /\ (st u = Some (v false true) <-> q0 < u /\ u <= q0 + q1)
                 /\ (st u = Some (v true false) <-> q0 + q1 < u /\ u <= q0 + q1 + q2)
                 /\ (st u = Some (v true true) <-> q0 + q1 + q2 < u /\ u <= q0 + q1 + q2 + q3))
    /\ pt (p1 - 1)%nat (p2 - 1)%nat == q0 /\ pt (p1 - 1)%nat (p2 + 1)%nat == q1
    /\ pt (p1 + 1)%nat (p2 - 1)%nat == q2 /\ pt (p1 + 1)%nat (p2 + 1)%nat == q3
    /\ (forall u, coupling_state2_joint amid mass2 marg xs ys (2 * o2) i1 i2 u = st u)
    /\ (forall t1 t2, prob_to2_joint amid mass2 marg xs ys p1 p2 t1 t2 = pt t1 t2).
  Proof. intros xs ys o2 p1 p2 cs. apply (law_odd_odd marg mass2); assumption. Qed.
End NdMeasure.

(* the level machine of CouplingProcessLevyCopula: after any number n+1 of next_level calls the coarse diffusion matrix
   (_diffusion_matrix_2h) and the frozen coarse drift vector are the fine ones of level n = those of the chain on the grid
   refined n times *)
Theorem C03_frozen_nd : forall mid dmat_of driftv_of x0 n g, length x0 = length (driftv_of (refine_n mid n g)) ->
  let s := run_levels_nd mid dmat_of driftv_of x0 (S n) g in
  cn_level s = S n /\ cn_grid s = refine_n mid (S n) g
  /\ cn_dm_coarse s = Some (dmat_of (refine_n mid n g))
  /\ cn_dm_fine s = dmat_of (refine_n mid (S n) g)
  /\ cn_drift_fine s = driftv_of (refine_n mid (S n) g)
  /\ (exists d, cn_drift_coarse s = Some d /\ Forall2 Qeq d (driftv_of (refine_n mid n g))).
Proof. exact frozen_nd. Qed.

(* 'SAME GENERATOR' (one-dimensional coupling on CTMCGrid, ANY number n of refinements of ANY well-formed grid g): the generator data of the
   COARSE component of the level-(n+1) pair, read on the level machine's own state s -- the rate at which it jumps by each coarse state
   (the coupled inflow on s's grid), its squared diffusion coefficient and its (frozen) drift -- are EQUAL to the generator data of the
   level-n chain: the rates q_entry on the grid refined n times, sig2_of and drift_of of that grid.  What is left on paper is only
   'equal generator data => equal law'. *)
Section SameGenerator.
  Variable mass : Q -> Q -> Q.
  Hypothesis mass_add : forall a b c, a <= b -> b <= c -> (c < 0 \/ 0 < a) -> mass a c == mass a b + mass b c.
  Hypothesis mass_pos : forall a b, a <= b -> (b < 0 \/ 0 < a) -> 0 <= mass a b.
  Hypothesis mass_proper : forall a a' b b', a == a' -> b == b' -> mass a b == mass a' b'.
  Theorem C03_same_generator_1d : forall sig2_of drift_of x0 g xs0 n, grid_wf g -> g_axes g = [xs0] ->
    let gn := refine_n amid n g in
    let s := run_levels amid sig2_of drift_of x0 (S n) g in
    let fine_axis := nth 0 (g_axes (c_grid s)) [] in let coarse_axis := nth 0 (g_axes gn) [] in
    c_level s = S n
    /\ length fine_axis = (2 * length coarse_axis - 1)%nat /\ g_o (c_grid s) = (2 * g_o gn)%nat
    /\ (forall j, (j < length coarse_axis)%nat -> nthq fine_axis (2 * j) = nthq coarse_axis j)
    /\ (forall j, (j < length coarse_axis)%nat -> j <> g_o gn ->
          inflow amid mass fine_axis (g_o (c_grid s)) (2 * j) == q_entry amid mass coarse_axis (g_o gn) j)
    /\ c_sig2_coarse s = sig2_of gn
    /\ (exists d, c_drift_coarse s = Some d /\ d == drift_of gn).
  Proof. intros sig2_of drift_of x0 g xs0 n. apply (same_generator_1d mass); assumption. Qed.
End SameGenerator.

(* F-C03-1: the faithful model of couplinglevycopula.py:__coupling_state takes the corner probabilities of the odd axes
   from the MARGIN of the (untruncated) measure over those axes; there is a 2-d measure (an explicit additive table of
   cell masses) and a grid on which sum_fine rate * P(fine -> y) differs from the coarse rate of y *)
Theorem C03_telescoping_nd_refuted : exists (ps : list (Q * Q * Q * Q * Q)) (xs : list Q) (o j1 j2 : nat),
  admissible xs o 1 /\ Forall (fun p => 0 <= snd p) ps /\ (j1, j2) <> (o, o)
  /\ ~ inflow2 ps (refine_axis amid xs) (refine_axis amid xs) (2 * o) (2 * j1) (2 * j2) == q_entry2 amid (step_mass2 ps) xs xs o j1 j2.
Proof. exact telescoping_nd_refuted. Qed.
(* with the JOINT mass of (even-axes cell) x (odd-axes corner) the identity holds on the same instance: what a repair
   has to compute *)
Theorem C03_telescoping_nd_joint_instance :
  let '(ps, xs, o) := nd_witness in
  forallb (fun j1 => forallb (fun j2 => (Nat.eqb j1 o && Nat.eqb j2 o) ||
     Qeq_bool (inflow2_joint ps (refine_axis amid xs) (refine_axis amid xs) (2 * o) (2 * j1) (2 * j2)) (q_entry2 amid (step_mass2 ps) xs xs o j1 j2))
     (seq 0 (length xs))) (seq 0 (length xs)) = true.
Proof. exact telescoping_nd_joint_instance. Qed.

(* non-vacuity: a concrete refined chain; every coarse state receives its coarse rate *)
Example C03_nonvacuous :
  let ps := [(-2, 0, 3); (0, 3, 3#2)] in let xs := [-2; -1; -(1#2); 0; 1#2; 2; 3] in
  let xs' := refine_axis amid xs in
  forallb (fun j => Nat.eqb j 3 || Qeq_bool (step_inflow ps xs' 6 (2 * j)) (nth j (chain_q_vector ps xs 3) 0)) (seq 0 7) = true
  /\ option_map Qred (step_prob_right ps xs' 6 (-1)) = Some (1#2)
  /\ option_map Qred (step_coupling_state ps xs' 6 3 (1#4)) = Some 2
  /\ option_map Qred (step_coupling_state ps xs' 6 3 (3#4)) = Some (1#2).
Proof. vm_compute. repeat split. Qed.

(* non-vacuity of the 2-d law theorems and of the joint rule on the F-C03-1 witness table (fine axis = the refined witness axis, origin index 4):
   fine state (5,4) (first axis odd): the code's margin rule gives (pl, pr) = (2/9, 7/9), the joint rule (1, 0); the coupled values either
   side of the threshold; fine state (5,5): four joint corners; and the hypotheses of C03_same_generator_1d hold of a constructor's grid *)
Example C03_nd_law_nonvacuous :
  let '(ps, xs, o) := nd_witness in let xs' := refine_axis amid xs in
  let m2 := step_mass2 ps in let mg := table_marg ps in
  option_map (fun c => (Qred (fst c), Qred (snd c))) (corner1 amid mg 0 xs' 5) = Some (2 # 9, 7 # 9)
  /\ option_map (fun c => (Qred (fst c), Qred (snd c))) (corner1_joint amid m2 0 xs' xs' 5 4) = Some (1, 0)
  /\ coupling_state2 amid m2 mg xs' xs' 4 1 0 (2 # 9) = Some (0, 0) /\ coupling_state2 amid m2 mg xs' xs' 4 1 0 (1 # 2) = Some (1, 0)
  /\ coupling_state2_joint amid m2 mg xs' xs' 4 1 0 (1 # 2) = Some (0, 0)
  /\ option_map (map (fun c => Qred (snd c))) (corner2 amid m2 xs' xs' 5 5) = Some [0; 0; 1 # 2; 1 # 2]
  /\ coupling_state2_joint amid m2 mg xs' xs' 4 1 1 (1 # 2) = Some (1, 0)
  /\ Qeq_bool (inflow2_gen amid m2 (prob_to2_joint amid m2 mg) xs' xs' 4 6 4) (q_entry2 amid m2 xs xs o 3 2) = true.
Proof. vm_compute. repeat split. Qed.
Example C03_same_generator_nonvacuous : grid_wf (fixed_grid (1 # 2) 4 1) /\ exists xs0, g_axes (fixed_grid (1 # 2) 4 1) = [xs0].
Proof. split; [apply fixed_grid_wf; [reflexivity|lia]|eexists; reflexivity]. Qed.

Print Assumptions C03_coarse_grid_is_even_indices.
Print Assumptions C03_copy_or_adjacent_1d.
Print Assumptions C03_coupling_law.
Print Assumptions C03_coupling_law_even.
Print Assumptions C03_coupling_state_is_index.
Print Assumptions C03_prob_right_unit.
Print Assumptions C03_telescoping_1d.
Print Assumptions C03_sent_to_origin.
Print Assumptions C03_drift_diffusion_frozen.
Print Assumptions C03_same_brownian_increments.
Print Assumptions C03_copy_rule_nd.
Print Assumptions C03_adjacency_nd.
Print Assumptions C03_corner1_is_law.
Print Assumptions C03_corner2_is_law.
Print Assumptions C03_telescoping_nd_joint.
Print Assumptions C03_corner1_joint_is_law.
Print Assumptions C03_coupling_law_nd_odd_even.
Print Assumptions C03_coupling_law_nd_even_odd.
Print Assumptions C03_coupling_law_nd_odd_odd.
Print Assumptions C03_frozen_nd.
Print Assumptions C03_same_generator_1d.
Print Assumptions C03_telescoping_nd_refuted.
Print Assumptions C03_telescoping_nd_joint_instance.
Print Assumptions C03_nonvacuous.
Print Assumptions C03_nd_law_nonvacuous.
Print Assumptions C03_same_generator_nonvacuous.

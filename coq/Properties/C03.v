(* C03 -- Level coupling keeps the coarse path in the previous level's law.  Only statements; proofs in
   Proofs/C03_Coupling1d.v (and Proofs/C03_CouplingNd.v for the copula coupling).
   Model: Model/Coupling1d.v (couplingmarkovchain.py: probability_to_right_jump, coupling_state, next_level,
   simulate_diffusion_with_coupling) over Model/Grid.v (refine), Model/Chain.v (cells, rates), Model/Drift.v.
   `mass` = fine_process.model.mass, the Levy measure truncated to the grid's end points (which refine does not move):
   an arbitrary additive non-negative interval function over Q; `mid` = grid.middle. *)
From Coq Require Import ZArith QArith List.
From RV Require Import Base.QB Model.Grid Gen.GenC01Trunc Gen.GenC04Triplet Model.Chain Model.Drift Model.Coupling1d
  Model.CouplingNd Proofs.C13_Grid Proofs.C01_Chain Proofs.C03_Coupling1d Proofs.C03_CouplingNd.
Import ListNotations.
Open Scope Q_scope.

Section Measure.
  Variable mid : Q -> Q -> Q.
  Hypothesis mid_between : forall x y, x < y -> x < mid x y /\ mid x y < y.
  Hypothesis mid_refl : forall x, mid x x == x.
  Hypothesis mid_proper : forall x x' y y', x == x' -> y == y' -> mid x y == mid x' y'.
  Variable mass : Q -> Q -> Q.
  Hypothesis mass_add : forall a b c, a <= b -> b <= c -> mass a c == mass a b + mass b c.
  Hypothesis mass_pos : forall a b, a <= b -> 0 <= mass a b.
  Hypothesis mass_proper : forall a a' b b', a == a' -> b == b' -> mass a b == mass a' b'.

  (* after refine: even indices carry the old axis, odd indices the old cell boundaries; so the level-(l-1) cell of the
     coarse state x_{2j} is [x_{2j-1}, x_{2j+1}], clamped at the two ends *)
  Theorem C03_coarse_grid_is_even_indices : forall xs o h, admissible xs o h ->
    let xs' := refine_axis mid xs in
    length xs' = (2 * length xs - 1)%nat
    /\ (forall j, (j < length xs)%nat -> nthq xs' (2 * j) = nthq xs j)
    /\ (forall j, (1 <= j)%nat -> (j < length xs)%nat -> nthq xs' (2 * j - 1) = cell_lo mid xs j)
    /\ (forall j, (j + 1 < length xs)%nat -> nthq xs' (2 * j + 1) = cell_hi mid xs j)
    /\ cell_lo mid xs' 0 = cell_lo mid xs 0
    /\ cell_hi mid xs' (2 * (length xs - 1)) = cell_hi mid xs (length xs - 1).
  Proof. intros xs o h A. apply (coarse_grid_is_even_indices mid) with (o := o) (h := h); assumption. Qed.

  (* coupling_state on the refined grid: an even fine increment (a coarse-grid state) is copied unchanged; an odd one is
     moved to its left or right neighbour, the two coarse states adjacent to it; for every coupling uniform u *)
  Theorem C03_copy_or_adjacent_1d : forall xs o u, incr xs -> xs <> [] ->
    let xs' := refine_axis mid xs in
    (forall i, (i < length xs)%nat ->
        coupling_state mid mass xs' (2 * o) (Z.of_nat (2 * i) - Z.of_nat (2 * o)) u = Some (nthq xs i)
        /\ nthq xs' (2 * i) = nthq xs i)
    /\ (forall i v, (i + 1 < length xs)%nat ->
        coupling_state mid mass xs' (2 * o) (Z.of_nat (2 * i + 1) - Z.of_nat (2 * o)) u = Some v ->
        (v = nthq xs i \/ v = nthq xs (i + 1))
        /\ nthq xs i < nthq xs' (2 * i + 1) < nthq xs (i + 1)).
  Proof. intros xs o u Hi N. apply (copy_or_adjacent mid); assumption. Qed.

  (* the probability used for an odd increment is a probability *)
  Theorem C03_prob_right_unit : forall xs p pr, incr xs -> (p < length xs)%nat ->
    prob_right_at mid mass xs p = Some pr -> 0 <= pr <= 1.
  Proof. intros xs p pr Hi Hp. apply (prob_right_unit mid); assumption. Qed.

  (* TELESCOPING: for every coarse state y = x_j (j <> origin) of ANY admissible axis, the sum over the fine states of
     (fine rate) x P(coupling sends that fine state to y) is the rate of y in the chain built on the un-refined axis.
     States of rate 0, where the code would divide 0/0, are never sampled and contribute 0. *)
  Theorem C03_telescoping_1d : forall xs o h, admissible xs o h ->
    forall j, (j < length xs)%nat -> j <> o ->
      inflow mid mass (refine_axis mid xs) (2 * o) (2 * j) == q_entry mid mass xs o j.
  Proof. intros xs o h A. apply (telescoping_admissible mid) with (h := h); assumption. Qed.

  (* ... and the fine mass coupled to a coarse increment of 0 is exactly the part of the old central cell
     [cell boundary left of 0, cell boundary right of 0] outside the new central cell *)
  Theorem C03_sent_to_origin : forall xs o h, admissible xs o h ->
    let xs' := refine_axis mid xs in
    inflow mid mass xs' (2 * o) (2 * o)
    == mass (nthq xs' (2 * o - 1)) (cell_lo mid xs' (2 * o)) + mass (cell_hi mid xs' (2 * o)) (nthq xs' (2 * o + 1))
    /\ nthq xs' (2 * o - 1) = cell_lo mid xs o /\ nthq xs' (2 * o + 1) = cell_hi mid xs o.
  Proof. intros xs o h A. apply (sent_to_origin_admissible mid) with (h := h); assumption. Qed.
End Measure.

(* the level state machine (any functions giving the fine chain's squared diffusion coefficient and drift on a grid):
   at every level l = n+1 >= 1 the coarse coefficient and the frozen coarse drift are the fine ones of level l-1,
   i.e. those of the chain on the grid refined l-1 times *)
Theorem C03_drift_diffusion_frozen : forall mid sig2_of drift_of x0 n g,
  let s := run_levels mid sig2_of drift_of x0 (S n) g in
  c_level s = S n
  /\ c_grid s = refine_n mid (S n) g
  /\ c_sig2_coarse s = c_sig2_fine (run_levels mid sig2_of drift_of x0 n g)
  /\ c_sig2_coarse s = sig2_of (refine_n mid n g)
  /\ c_sig2_fine s = sig2_of (refine_n mid (S n) g)
  /\ c_drift_fine s = drift_of (refine_n mid (S n) g)
  /\ (exists d, c_drift_coarse s = Some d /\ d == c_drift_fine (run_levels mid sig2_of drift_of x0 n g)
                /\ d == drift_of (refine_n mid n g)).
Proof. exact drift_diffusion_frozen. Qed.
Theorem C03_same_brownian_increments : forall cf cc dts w,
  snd (diffusion_pair cf cc dts w) = diffusion_path cc dts w /\ fst (diffusion_pair cf cc dts w) = diffusion_path cf dts w
  /\ length (diffusion_path cc dts w) = length (diffusion_path cf dts w).
Proof. exact same_brownian. Qed.

(* ---------------- the n-dimensional (Levy copula) coupling ---------------- *)
(* F-C03-1: the faithful model of couplinglevycopula.py:__coupling_state takes the corner probabilities of the odd axes
   from the MARGIN of the (untruncated) measure over those axes; there is a 2-d measure (an explicit additive table of
   cell masses) and a grid on which sum_fine rate * P(fine -> y) differs from the coarse rate of y *)
Theorem C03_telescoping_nd_refuted : exists (ps : list (Q * Q * Q * Q * Q)) (xs : list Q) (o j1 j2 : nat),
  admissible xs o 1 /\ Forall (fun p => 0 <= snd p) ps /\ (j1, j2) <> (o, o)
  /\ ~ inflow2 ps (refine_axis amid xs) (2 * o) (2 * j1) (2 * j2) == q_entry2 amid (step_mass2 ps) xs xs o j1 j2.
Proof. exact telescoping_nd_refuted. Qed.
(* with the JOINT mass of (even-axes cell) x (odd-axes corner) the identity holds on the same instance: what a repair
   has to compute *)
Theorem C03_telescoping_nd_joint_instance :
  let '(ps, xs, o) := nd_witness in
  forallb (fun j1 => forallb (fun j2 => (Nat.eqb j1 o && Nat.eqb j2 o) ||
     Qeq_bool (inflow2_joint ps (refine_axis amid xs) (2 * o) (2 * j1) (2 * j2)) (q_entry2 amid (step_mass2 ps) xs xs o j1 j2))
     (seq 0 (length xs))) (seq 0 (length xs)) = true.
Proof. exact telescoping_nd_joint_instance. Qed.

(* non-vacuity: a concrete refined chain; every coarse state receives its coarse rate *)
Example C03_nonvacuous :
  let ps := [(-2, 0, 3); (0, 3, 3#2)] in let xs := [-2; -1; -(1#2); 0; 1#2; 2; 3] in
  let xs' := refine_axis amid xs in
  forallb (fun j => Nat.eqb j 3 || Qeq_bool (step_inflow ps xs' 6 (2 * j)) (nth j (chain_q_vector ps xs 3) 0)) (seq 0 7) = true
  /\ option_map Qred (step_prob_right ps xs' 6 (-1)) = Some (1#2)
  /\ option_map Qred (step_coupling_state ps xs' 6 3 (1#4)) = Some 2
  /\ option_map Qred (step_coupling_state ps xs' 6 3 (3#4)) = Some (1#2).
Proof. vm_compute. repeat split. Qed.

Print Assumptions C03_coarse_grid_is_even_indices.
Print Assumptions C03_copy_or_adjacent_1d.
Print Assumptions C03_prob_right_unit.
Print Assumptions C03_telescoping_1d.
Print Assumptions C03_sent_to_origin.
Print Assumptions C03_drift_diffusion_frozen.
Print Assumptions C03_same_brownian_increments.
Print Assumptions C03_telescoping_nd_refuted.
Print Assumptions C03_telescoping_nd_joint_instance.

(* C04 -- Drift compensation: the chain reproduces the mean of the process it replaces.  Only statements; proofs in
   Proofs/C04_Drift.v.  Model: Model/Drift.v (markovchain.py compute_mu_h / vol_adjustment / initialisation,
   LevyTriplet.set_representation) over Model/Chain.v, Model/Grid.v; the four drift conversions of LevyTriplet are the
   py2coq-generated Gen/GenC04Triplet.v, _truncated_interval is Gen/GenC01Trunc.v.
   m1, m2 = first / second moment integrals of the (untruncated) Levy measure: abstract additive interval functions over Q. *)
From Coq Require Import ZArith QArith List.
From RV Require Import Base.QB Model.Grid Gen.GenC01Trunc Gen.GenC04Triplet Model.Chain Model.Drift Proofs.C13_Grid Proofs.C01_Chain Proofs.C04_Drift.
Import ListNotations.
Open Scope Q_scope.

(* the running-boundary loop of compute_mu_h equals sum_k x_k * q_k with q = create_q_vector: ANY axis, ANY origin
   index that has a right neighbour, any mass function, any middle function *)
Theorem C04_mu_h_is_sum : forall (mid mass : Q -> Q -> Q) xs o, (o + 1 < length xs)%nat ->
  compute_mu_h mid mass xs o == mean_of_rates mid mass xs o.
Proof. exact mu_h_is_sum. Qed.

Section Measure.
  Variable m1 : Q -> Q -> Q.
  Hypothesis m1_add : forall a b c, a <= b -> b <= c -> m1 a c == m1 a b + m1 b c.
  Hypothesis m1_proper : forall a a' b b', a == a' -> b == b' -> m1 a b == m1 a' b'.
  Variables l r pinf : Q.                (* truncation bounds = end points of the axis; pinf stands for np.inf *)
  Hypothesis l_le_r : l <= r.
  Hypothesis pinf_ge_1 : 1 <= pinf.

  (* deterministic drift + rate-weighted states == first cumulant per unit time of (a, sigma, nu|[l,r]) in the declared
     representation (+ the model's own drift md, 0 for a Levy model, r-d+omega for the exponential wrapper),
     for each of ZERO/CENTER/ONEONE/TILDE (rep = 1..4) and both values of jump_of_finite_variation() *)
  Theorem C04_mean_identity : forall (mid mass : Q -> Q -> Q) xs o md rep fv a,
    (o + 1 < length xs)%nat -> (rep = 1 \/ rep = 2 \/ rep = 3 \/ rep = 4)%Z ->
    process_drift (tmass m1 l r) pinf md rep fv a (compute_mu_h mid mass xs o) + mean_of_rates mid mass xs o
    == md + mean_rate (tmass m1 l r) pinf rep fv a.
  Proof. intros. apply (mean_identity m1); assumption. Qed.

  (* the representation-conversion core: a~ + mu~ is the mean in every declared representation *)
  Theorem C04_tilde_conversion : forall rep fv a, (rep = 1 \/ rep = 2 \/ rep = 3 \/ rep = 4)%Z ->
    a_tilde (tmass m1 l r) pinf rep fv a + mu_tilde (tmass m1 l r) pinf fv == mean_rate (tmass m1 l r) pinf rep fv a.
  Proof. intros. apply (mean_identity_core m1); assumption. Qed.

  Variable m2 : Q -> Q -> Q.
  Hypothesis m2_pos : forall a b, a <= b -> 0 <= m2 a b.
  Hypothesis m2_proper : forall a a' b b', a == a' -> b == b' -> m2 a b == m2 a' b'.

  (* sigma_h^2: nothing added for finite variation; for infinite variation the second moment of the jumps inside the
     central cell [-h/2,h/2] (cut at +-1), which is that cell's jump variance; never smaller than sigma^2 *)
  Theorem C04_variance_added : forall sigma fv h, 0 < h ->
    (fv = true -> sig_h2 (tmass m2 l r) sigma fv h == sigma * sigma)
    /\ (fv = false -> sig_h2 (tmass m2 l r) sigma fv h == sigma * sigma + tmass m2 l r (Qmaxb (- h / 2) (- (1))) (Qminb (h / 2) 1))
    /\ (fv = false -> h <= 2 -> sig_h2 (tmass m2 l r) sigma fv h == sigma * sigma + tmass m2 l r (- (h / 2)) (h / 2))
    /\ sigma * sigma <= sig_h2 (tmass m2 l r) sigma fv h.
  Proof. intros. apply (variance_added m2); assumption. Qed.
End Measure.

(* the hypotheses on m1 are satisfiable: first moments of the step measures used to run the model *)
Theorem C04_step_m1_additive : forall ps,
  (forall a b c, a <= b -> b <= c -> step_m1 ps a c == step_m1 ps a b + step_m1 ps b c)
  /\ (forall a a' b b', a == a' -> b == b' -> step_m1 ps a b == step_m1 ps a' b').
Proof. intros ps. split; [exact (step_m1_add ps)|exact (step_m1_proper ps)]. Qed.

(* non-vacuity: density 3 on [-2,0], 3/2 on [0,3]; CENTER representation, a = 3/8: drift + sum x_k q_k = a *)
Example C04_nonvacuous :
  let ps := [(-2, 0, 3); (0, 3, 3#2)] in let xs := [-2; -1; -(1#2); 0; 1#2; 2; 3] in
  Qeq_bool (chain_process_drift ps xs 3 0 2 true (3#8) + chain_mean ps xs 3) (3#8) = true
  /\ Qeq_bool (chain_process_drift ps xs 3 0 2 false (3#8) + chain_mean ps xs 3) (3#8) = true
  /\ Qeq_bool (chain_mu_h ps xs 3) (chain_mean ps xs 3) = true
  /\ Qeq_bool (chain_sig_h2 ps xs (1#2) false (1#2)) ((1#4) + (3#128)) = true.
Proof. vm_compute. repeat split. Qed.

Print Assumptions C04_mu_h_is_sum.
Print Assumptions C04_mean_identity.
Print Assumptions C04_tilde_conversion.
Print Assumptions C04_variance_added.
Print Assumptions C04_step_m1_additive.

(* C04 -- Drift compensation: the chain reproduces the mean of the process it replaces.  Only statements; proofs in
   Proofs/C04_Drift.v.  Model: Model/Drift.v (markovchain.py compute_mu_h / vol_adjustment / initialisation,
   LevyTriplet.set_representation) over Model/Chain.v, Model/Grid.v; the four drift conversions of LevyTriplet are the
   py2coq-generated Gen/GenC04Triplet.v, _truncated_interval is Gen/GenC01Trunc.v.
   m1, m2 = first / second moment integrals of the (untruncated) Levy measure: abstract additive interval functions over Q. *)
From Coq Require Import ZArith QArith List.
From RV Require Import Base.QB Base.Corr Model.Grid Gen.GenC01Trunc Gen.GenC04Triplet Gen.GenC04SetRep Model.Chain Model.Drift Model.DriftGen
  Model.CopulaDiffusion Proofs.C13_Grid Proofs.C01_Chain Proofs.C04_Drift Proofs.C04_SetRep Proofs.C04_CopulaDiffusion.
Import ListNotations.
From RV Require Gen.GenTieDrift Proofs.Tie_Drift.
Open Scope Q_scope.

(* the running-boundary loop of compute_mu_h equals sum_k x_k * q_k with q = create_q_vector: ANY axis, ANY origin
   index that has a right neighbour, any mass function, any middle function *)
Theorem C04_mu_h_is_sum : forall (mid mass : Q -> Q -> Q) xs o, (o + 1 < length xs)%nat ->
  compute_mu_h mid mass xs o == mean_of_rates mid mass xs o.
Proof. exact mu_h_is_sum. Qed.

Section Measure.
  Variable m1 : Q -> Q -> Q.
  (* total additivity of int x nu: satisfiable when int_{|x|<1} |x| nu < inf (finite variation, or any representation that is
     legitimately declared for the model); for infinite variation see C04_mean_identity_infinite_variation below *)
  Hypothesis m1_add : forall a b c, a <= b -> b <= c -> m1 a c == m1 a b + m1 b c.
  Hypothesis m1_proper : forall a a' b b', a == a' -> b == b' -> m1 a b == m1 a' b'.
  Variables l r pinf err : Q.            (* truncation bounds = end points of the axis; pinf stands for np.inf; err = value of a
                                            `raise` of the generated conversions: the theorems hold for EVERY err under the guard *)
  Hypothesis l_le_r : l <= r.
  Hypothesis pinf_ge_1 : 1 <= pinf.
  Hypothesis pinf_left : - pinf <= l.     (* np.inf lies beyond both truncation bounds *)
  Hypothesis pinf_right : r <= pinf.

  (* deterministic drift + rate-weighted states == first cumulant per unit time of (a, sigma, nu|[l,r]) in the declared
     representation (+ the model's own drift md, 0 for a Levy model, r-d+omega for the exponential wrapper),
     for each of ZERO/CENTER/ONEONE/TILDE (rep = 1..4) and both values of jump_of_finite_variation() *)
  Theorem C04_mean_identity : forall (mid mass : Q -> Q -> Q) xs o md rep fv a,
    (o + 1 < length xs)%nat -> (rep = 1 \/ rep = 2 \/ rep = 3 \/ rep = 4)%Z -> (fv = true \/ rep <> 1%Z) ->
    process_drift (tmass m1 l r) pinf err md rep fv a (compute_mu_h mid mass xs o) + mean_of_rates mid mass xs o
    == md + mean_rate (tmass m1 l r) pinf rep fv a
    (* ... where the right-hand side is the first cumulant of the measure restricted to [l, r] (needs np.inf beyond l, r) *)
    /\ (rep = 1%Z -> mean_rate (tmass m1 l r) pinf rep fv a == a + m1 l r)
    /\ (rep = 2%Z -> mean_rate (tmass m1 l r) pinf rep fv a == a)
    /\ (rep = 4%Z -> fv = true -> mean_rate (tmass m1 l r) pinf rep fv a == a + m1 l r)
    /\ tmass m1 l r (- pinf) pinf == m1 l r.
  Proof. intros. apply (mean_identity m1); assumption. Qed.

  (* the representation-conversion core: a~ + mu~ is the mean in every declared representation *)
  Theorem C04_tilde_conversion : forall rep fv a, (rep = 1 \/ rep = 2 \/ rep = 3 \/ rep = 4)%Z -> (fv = true \/ rep <> 1%Z) ->
    a_tilde (tmass m1 l r) pinf err rep fv a + mu_tilde (tmass m1 l r) pinf fv == mean_rate (tmass m1 l r) pinf rep fv a.
  Proof. intros. apply (mean_identity_core m1); assumption. Qed.

  (* the first cumulant in terms of the measure on [l,r]: ZERO: a + int_l^r x nu; CENTER: a; TILDE with finite variation:
     a + int_l^r x nu; ONEONE: a + int_l^r x nu - int_{[-1,1] cap [l,r]} x nu *)
  Theorem C04_mean_rate_explicit : forall fv a,
    mean_rate (tmass m1 l r) pinf 1 fv a == a + m1 l r /\ mean_rate (tmass m1 l r) pinf 2 fv a == a
    /\ mean_rate (tmass m1 l r) pinf 4 true a == a + m1 l r
    /\ mean_rate (tmass m1 l r) pinf 3 fv a == a + m1 l r - tmass m1 l r (- (1)) 1.
  Proof. intros. apply (mean_rate_explicit m1); assumption. Qed.

  (* representation invariance: the four generated conversions change the drift but never the first cumulant *)
  Theorem C04_conversions_preserve_mean : forall rep fv a, (rep = 1 \/ rep = 2 \/ rep = 3 \/ rep = 4)%Z -> (fv = true \/ rep <> 1%Z) ->
    mean_rate (tmass m1 l r) pinf 3 fv (canonical_drift (tmass m1 l r) pinf err rep fv a) == mean_rate (tmass m1 l r) pinf rep fv a
    /\ (fv = true -> mean_rate (tmass m1 l r) pinf 1 fv (zero_drift (tmass m1 l r) pinf err rep fv a) == mean_rate (tmass m1 l r) pinf rep fv a)
    /\ mean_rate (tmass m1 l r) pinf 2 fv (center_drift (tmass m1 l r) pinf err rep fv a) == mean_rate (tmass m1 l r) pinf rep fv a
    /\ mean_rate (tmass m1 l r) pinf 4 fv (tilde_drift (tmass m1 l r) pinf err rep fv a) == mean_rate (tmass m1 l r) pinf rep fv a.
  Proof. intros. apply (conversions_preserve_mean m1); assumption. Qed.

  (* outside the guard (ZERO declared with jumps of infinite variation, or a conversion TO ZERO with infinite variation) the
     generated conversions return the error value: levymodel.py raises ValueError *)
  Theorem C04_zero_infinite_variation_is_error : forall a,
    canonical_drift (tmass m1 l r) pinf err 1 false a = err /\ tilde_drift (tmass m1 l r) pinf err 1 false a == err
    /\ a_tilde (tmass m1 l r) pinf err 1 false a == err /\ (forall rep, zero_drift (tmass m1 l r) pinf err rep false a = err).
  Proof. intros. apply (zero_infinite_variation_is_error m1). Qed.

  (* what the copula chain did before the repair (cut-off of mu_tilde from the JOINT flag): the mean of a margin whose own
     flag differs from the joint one is off by the margin's int_{-1}^{1} x nu -- finding F-C04-2 *)
  Theorem C04_joint_flag_bias : forall (mid mass : Q -> Q -> Q) xs o md rep a,
    (o + 1 < length xs)%nat -> (rep = 2 \/ rep = 3 \/ rep = 4)%Z ->
    process_drift_v (tmass m1 l r) pinf err md rep true false a (compute_mu_h mid mass xs o) + mean_of_rates mid mass xs o
    == md + mean_rate (tmass m1 l r) pinf rep true a - tmass m1 l r (- (1)) 1
    /\ process_drift_v (tmass m1 l r) pinf err md rep false true a (compute_mu_h mid mass xs o) + mean_of_rates mid mass xs o
    == md + mean_rate (tmass m1 l r) pinf rep false a + tmass m1 l r (- (1)) 1.
  Proof. intros. apply (joint_flag_bias m1); assumption. Qed.

  Variable m2 : Q -> Q -> Q.
  Hypothesis m2_pos : forall a b, a <= b -> 0 <= m2 a b.
  Hypothesis m2_proper : forall a a' b b', a == a' -> b == b' -> m2 a b == m2 a' b'.

  (* sigma_h^2: nothing added for finite variation; for infinite variation the second moment of the jumps inside the
     central cell [-h/2,h/2] (cut at +-1), which is that cell's jump variance; never smaller than sigma^2 *)
  Theorem C04_variance_added : forall sigma fv h, 0 < h ->
    (fv = true -> sig_h2 (tmass m2 l r) sigma fv h == sigma * sigma)
    /\ (fv = false -> sig_h2 (tmass m2 l r) sigma fv h == sigma * sigma + tmass m2 l r (Qmaxb (- h / 2) (- (1))) (Qminb (h / 2) 1))
    /\ (fv = false -> h <= 2 -> sig_h2 (tmass m2 l r) sigma fv h == sigma * sigma + tmass m2 l r (- (h / 2)) (h / 2))
    /\ sigma * sigma <= sig_h2 (tmass m2 l r) sigma fv h.
  Proof. intros. apply (variance_added m2); assumption. Qed.
End Measure.

(* infinite variation (fv = false), compensated representations CENTER / ONEONE / TILDE: the identity holds with NO hypothesis
   on the first-moment integral (only the tails |x| >= 1 are ever integrated; int |x| nu near 0 may be infinite) *)
Theorem C04_mean_identity_infinite_variation : forall (m1t : Q -> Q -> Q) pinf err (mid mass : Q -> Q -> Q) xs o md rep a,
  (o + 1 < length xs)%nat -> (rep = 2 \/ rep = 3 \/ rep = 4)%Z ->
  process_drift m1t pinf err md rep false a (compute_mu_h mid mass xs o) + mean_of_rates mid mass xs o
  == md + mean_rate m1t pinf rep false a.
Proof. exact mean_identity_iv. Qed.

(* each margin of the (repaired) copula chain: MarkovChainLevyCopula.initialisation computes one drift per margin with the
   margin's own triplet, flag and axis; every margin reproduces its own mean.  cm_ok (Proofs/C04_Drift.v): total additivity of
   int x nu only for margins of finite variation; an infinite-variation margin needs a compensated representation and NO
   hypothesis on its first-moment integral; the truncation bounds are the end points of the margin's own axis and np.inf lies
   beyond them. *)
Theorem C04_copula_margins : forall mid ms, Forall cm_ok ms ->
  Forall (fun m => cm_drift mid m + mean_of_rates mid (cm_mass m) (cm_xs m) (cm_o m)
                   == cm_md m + mean_rate (cm_m1t m) (cm_pinf m) (cm_rep m) (cm_fv m) (cm_a m)
                   /\ (cm_fv m = true -> cm_m1t m (- cm_pinf m) (cm_pinf m) == cm_m1 m (headq (cm_xs m)) (lastq (cm_xs m)))) ms.
Proof. exact copula_margins_mean. Qed.

(* the diffusion matrix of the (repaired) copula chain, margin by margin: nothing is added to sigma_k^2 for a margin of finite
   variation, the margin's second moment over the central cell [-h/2, h/2] for infinite variation *)
Theorem C04_copula_variance_added : forall h ms, 0 < h -> h <= 2 -> Forall cv_ok ms ->
  Forall (fun m => let '(m2, l, r, sigma, fv) := m in
            sig_h2 (tmass m2 l r) sigma fv h == sigma * sigma + (if fv then 0 else tmass m2 l r (- (h / 2)) (h / 2))
            /\ sigma * sigma <= sig_h2 (tmass m2 l r) sigma fv h) ms.
Proof. exact copula_variance_added. Qed.

(* VARIANCE GAP.  q_k = nu(cell_k) (mass), int_cell x^2 nu (m2); if on every cell inf2 k <= x^2 <= sup2 k (so that, x^2 nu being
   non-negative, inf2 k * q_k <= int_cell_k x^2 nu <= sup2 k * q_k -- the hypothesis C09 discharges) then the rate-weighted
   second moment of the states differs from the second moment of the measure OUTSIDE the central cell by at most the per-cell
   oscillation of x^2 weighted by the cell masses.  With C04_variance_added: for infinite variation the central cell's second
   moment is added to sigma^2, so the approximation's variance differs from sigma^2 + int_l^r x^2 nu by at most that sum; for
   finite variation nothing is added and the gap is larger by exactly the central cell's second moment. *)
Section VarianceGap.
  Variable mid : Q -> Q -> Q.
  Hypothesis mid_between : forall x y, x < y -> x < mid x y /\ mid x y < y.
  Hypothesis mid_refl : forall x, ~ x == 0 -> mid x x == x.
  Hypothesis mid_proper : forall x x' y y', x == x' -> y == y' -> mid x y == mid x' y'.
  Variables mass m2 : Q -> Q -> Q.
  Hypothesis mass_pos : forall a b, a <= b -> (b < 0 \/ 0 < a) -> 0 <= mass a b.
  Hypothesis m2_add : forall a b c, a <= b -> b <= c -> (c < 0 \/ 0 < a) -> m2 a c == m2 a b + m2 b c.
  Hypothesis m2_proper : forall a a' b b', a == a' -> b == b' -> m2 a b == m2 a' b'.
  Variable xs : list Q.
  Variables (o : nat) (h : Q).
  Hypothesis Hadm : admissible xs o h.
  Variables inf2 sup2 : nat -> Q.
  Hypothesis state_in_bounds : forall k, (k < length xs)%nat -> k <> o -> inf2 k <= nthq xs k * nthq xs k <= sup2 k.
  Hypothesis cell_moment_bounds : forall k, (k < length xs)%nat -> k <> o ->
    inf2 k * mass (cell_lo mid xs k) (cell_hi mid xs k) <= m2 (cell_lo mid xs k) (cell_hi mid xs k)
    <= sup2 k * mass (cell_lo mid xs k) (cell_hi mid xs k).

  Theorem C04_variance_gap :
    let outside := m2 (headq xs) (h_left mid xs o) + m2 (h_right mid xs o) (lastq xs) in
    let osc := qsum (map (fun k => (sup2 k - inf2 k) * q_entry mid mass xs o k) (seq 0 (length xs))) in
    - osc <= second_moment_of_rates mid mass xs o - outside <= osc.
  Proof.
    exact (variance_gap mid mid_between mid_refl mid_proper mass m2 mass_pos m2_add m2_proper xs o h Hadm inf2 sup2
             state_in_bounds cell_moment_bounds).
  Qed.
End VarianceGap.

(* the hypotheses on m1 are satisfiable: first moments of the step measures used to run the model *)
Theorem C04_step_m1_additive : forall ps,
  (forall a b c, a <= b -> b <= c -> step_m1 ps a c == step_m1 ps a b + step_m1 ps b c)
  /\ (forall a a' b b', a == a' -> b == b' -> step_m1 ps a b == step_m1 ps a' b').
Proof. intros ps. split; [exact (step_m1_add ps)|exact (step_m1_proper ps)]. Qed.

(* non-vacuity: density 3 on [-2,0], 3/2 on [0,3]; CENTER representation, a = 3/8: drift + sum x_k q_k = a *)
Example C04_nonvacuous :
  let ps := [(-2, 0, 3); (0, 3, 3#2)] in let xs := [-2; -1; -(1#2); 0; 1#2; 2; 3] in
  Qeq_bool (chain_process_drift ps xs 3 0 2 true (3#8) + chain_mean ps xs 3) (3#8) = true
  /\ Qeq_bool (chain_process_drift ps xs 3 0 2 false (3#8) + chain_mean ps xs 3) (3#8) = true
  /\ Qeq_bool (chain_mu_h ps xs 3) (chain_mean ps xs 3) = true
  /\ Qeq_bool (chain_sig_h2 ps xs (1#2) false (1#2)) ((1#4) + (3#128)) = true.
Proof. vm_compute. repeat split. Qed.

(* ================= wave 5: the drift DISPATCH, regenerated from the source =================
   Gen/GenC04SetRep.v: set_representation target rep fv a = (a', rep') is LevyTriplet.set_representation together with the
   _drift_mapping dict of LevyTriplet.__init__ and the enum values (harness/py2coq_c04.py), a state transformer on
   (triplet.a, triplet.representation) in the statement order of the source.  Model/DriftGen.v states the chain on it
   (a_after_init / rep_after_init = the triplet after MarkovChainProcess.__init__ / MarkovChainLevyCopula.__init__). *)

(* DEFINITIONAL on the generated term (unfold; destruct; reflexivity): its content is that the term is regenerated from the source.
   What the dispatch does: the triplet ends in the target representation; the same target again changes nothing; a target
   different from the current representation calls exactly the generated conversion registered for it -- stated UNDER THE GUARD
   (wave 8, audit 5a B5): fv = true or neither side is ZERO.  Outside the guard the Python call raises ValueError and the value of
   the generated term is NOT the behaviour of the call (err is a value that arithmetic does not propagate: center_drift 1 false a
   = err + tails; Example C04_error_value_not_absorbing); an unregistered key is the error value (KeyError). *)
Theorem C04_set_representation_dispatch : forall (m1t : Q -> Q -> Q) pinf err t rep fv a,
  snd (set_representation m1t pinf err t rep fv a) = t
  /\ set_representation m1t pinf err t t fv a = (a, t)
  /\ (let s := set_representation m1t pinf err t rep fv a in set_representation m1t pinf err t (snd s) fv (fst s) = s)
  /\ (rep <> 1%Z -> fv = true -> fst (set_representation m1t pinf err 1 rep fv a) = zero_drift m1t pinf err rep fv a)
  /\ (rep <> 2%Z -> fv = true \/ rep <> 1%Z -> fst (set_representation m1t pinf err 2 rep fv a) = center_drift m1t pinf err rep fv a)
  /\ (rep <> 3%Z -> fv = true \/ rep <> 1%Z -> fst (set_representation m1t pinf err 3 rep fv a) = canonical_drift m1t pinf err rep fv a)
  /\ (rep <> 4%Z -> fv = true \/ rep <> 1%Z -> fst (set_representation m1t pinf err 4 rep fv a) = tilde_drift m1t pinf err rep fv a)
  /\ (~ (t = 1 \/ t = 2 \/ t = 3 \/ t = 4)%Z -> t <> rep -> fst (set_representation m1t pinf err t rep fv a) = err).
Proof.
  intros. destruct (set_representation_dispatch m1t pinf err rep fv a) as (D1 & D2 & D3 & D4 & D5).
  split; [apply set_representation_lands|]. split; [apply set_representation_same|]. split; [apply set_representation_idempotent|].
  split; [intros; apply D1; assumption|]. split; [intros; apply D2; assumption|]. split; [intros; apply D3; assumption|].
  split; [intros; apply D4; assumption|]. intros. apply D5; assumption.
Qed.

(* the error value is not absorbing in the GENERATED term, and is made absorbing by the observation wrapper (Model/DriftGen.v
   setrep_call_raises): density 3 on [-2,0], 3/2 on [0,3]; ZERO-declared, infinite variation -> CENTER: the generated term is the
   number err + 3/2 (not err), the wrapper the correspondence compares with the code says None (the call raises ValueError); and
   the wrapper is the generated term whenever the guard of the theorems holds *)
Example C04_error_value_not_absorbing :
  let ps := [(-2, 0, 3); (0, 3, 3#2)] in
  Qeq_bool (fst (set_representation (tmass (step_m1 ps) (-2) 3) 6 chain_err 2 1 false (3#8))) (chain_err + (3#2)) = true
  /\ Qeq_bool (fst (set_representation (tmass (step_m1 ps) (-2) 3) 6 chain_err 2 1 false (3#8))) chain_err = false
  /\ step_set_representation ps (-2) 3 2 1 false (3#8) = None
  /\ step_set_representation ps (-2) 3 3 1 false (3#8) = None /\ step_set_representation ps (-2) 3 1 2 false (3#8) = None
  /\ (forall t rep fv, (fv = true \/ (rep <> 1 /\ t <> 1)%Z) -> setrep_call_raises t rep fv = false).
Proof.
  assert (G : forall t rep fv, (fv = true \/ (rep <> 1 /\ t <> 1)%Z) -> setrep_call_raises t rep fv = false).
  { intros t rep fv [-> | [A B]]; [reflexivity|]. unfold setrep_call_raises.
    destruct (Z.eqb_spec t 1); [contradiction|]. destruct (Z.eqb_spec rep 1); [contradiction|]. rewrite !Bool.andb_false_r. reflexivity. }
  repeat split; try (vm_compute; reflexivity). exact G.
Qed.

(* route independence: rep -> t1 -> t2 gives the drift of rep -> t2 (in particular rep -> t1 -> rep gives a back), for EVERY
   function m1t (no additivity: the conversions only ever use int_{-1}^{1} and the two tails as atoms).  Guard: the ZERO
   representation is neither declared nor targeted when the jumps have infinite variation (those calls raise). *)
Theorem C04_set_representation_route_independent : forall (m1t : Q -> Q -> Q) pinf err rep t1 t2 fv a,
  (rep = 1 \/ rep = 2 \/ rep = 3 \/ rep = 4)%Z -> (t1 = 1 \/ t1 = 2 \/ t1 = 3 \/ t1 = 4)%Z -> (t2 = 1 \/ t2 = 2 \/ t2 = 3 \/ t2 = 4)%Z ->
  (fv = true \/ (rep <> 1 /\ t1 <> 1 /\ t2 <> 1)%Z) ->
  let s1 := set_representation m1t pinf err t1 rep fv a in
  fst (set_representation m1t pinf err t2 (snd s1) fv (fst s1)) == fst (set_representation m1t pinf err t2 rep fv a)
  /\ snd (set_representation m1t pinf err t2 (snd s1) fv (fst s1)) = snd (set_representation m1t pinf err t2 rep fv a).
Proof. exact set_representation_route_independent. Qed.

(* the hand table of Model/Drift.v is the TILDE instance of the generated dispatch; hence the executable chain models agree *)
Theorem C04_generated_dispatch_is_a_tilde : forall (m1t : Q -> Q -> Q) pinf err rep fv a,
  a_after_init m1t pinf err rep fv a = a_tilde m1t pinf err rep fv a /\ rep_after_init m1t pinf err rep fv a = TILDE.
Proof. exact set_representation_tilde_is_a_tilde. Qed.
Theorem C04_generated_chain_is_hand_chain : forall ps xs o md rep fv a,
  chain_process_drift_gen ps xs o md rep fv a = chain_process_drift ps xs o md rep fv a
  /\ chain_process_drift_gen_opt ps xs o md rep fv a = chain_process_drift_opt ps xs o md rep fv a.
Proof. exact chain_process_drift_gen_eq. Qed.

Section MeasureGen.
  Variable m1 : Q -> Q -> Q.
  Hypothesis m1_add : forall a b c, a <= b -> b <= c -> m1 a c == m1 a b + m1 b c.
  Hypothesis m1_proper : forall a a' b b', a == a' -> b == b' -> m1 a b == m1 a' b'.
  Variables l r pinf err : Q.
  Hypothesis l_le_r : l <= r.
  Hypothesis pinf_ge_1 : 1 <= pinf.
  Hypothesis pinf_left : - pinf <= l.
  Hypothesis pinf_right : r <= pinf.

  (* ANY call set_representation(target) on a triplet in ANY representation keeps the first cumulant of (a, nu|[l,r]) *)
  Theorem C04_set_representation_preserves_mean : forall target rep fv a,
    (rep = 1 \/ rep = 2 \/ rep = 3 \/ rep = 4)%Z -> (target = 1 \/ target = 2 \/ target = 3 \/ target = 4)%Z ->
    (fv = true \/ (rep <> 1 /\ target <> 1)%Z) ->
    let s := set_representation (tmass m1 l r) pinf err target rep fv a in
    mean_rate (tmass m1 l r) pinf (snd s) fv (fst s) == mean_rate (tmass m1 l r) pinf rep fv a /\ snd s = target.
  Proof. intros. apply (set_representation_preserves_mean m1); assumption. Qed.

  (* C04_mean_identity on the generated dispatch: drift (with the triplet as __init__ leaves it) + rate-weighted states == the
     first cumulant in the DECLARED representation; the triplet is then in TILDE with the same first cumulant *)
  Theorem C04_mean_identity_generated : forall (mid mass : Q -> Q -> Q) xs o md rep fv a,
    (o + 1 < length xs)%nat -> (rep = 1 \/ rep = 2 \/ rep = 3 \/ rep = 4)%Z -> (fv = true \/ rep <> 1%Z) ->
    process_drift_gen (tmass m1 l r) pinf err md rep fv a (compute_mu_h mid mass xs o) + mean_of_rates mid mass xs o
    == md + mean_rate (tmass m1 l r) pinf rep fv a
    /\ rep_after_init (tmass m1 l r) pinf err rep fv a = TILDE
    /\ mean_rate (tmass m1 l r) pinf TILDE fv (a_after_init (tmass m1 l r) pinf err rep fv a) == mean_rate (tmass m1 l r) pinf rep fv a
    /\ tmass m1 l r (- pinf) pinf == m1 l r.
  Proof. intros. apply (mean_identity_gen m1); assumption. Qed.
End MeasureGen.

Theorem C04_mean_identity_generated_infinite_variation : forall (m1t : Q -> Q -> Q) pinf err (mid mass : Q -> Q -> Q) xs o md rep a,
  (o + 1 < length xs)%nat -> (rep = 2 \/ rep = 3 \/ rep = 4)%Z ->
  process_drift_gen m1t pinf err md rep false a (compute_mu_h mid mass xs o) + mean_of_rates mid mass xs o
  == md + mean_rate m1t pinf rep false a.
Proof. exact mean_identity_gen_iv. Qed.

Theorem C04_copula_margins_generated : forall mid ms, Forall cm_ok ms ->
  Forall (fun m => cm_drift_gen mid m + mean_of_rates mid (cm_mass m) (cm_xs m) (cm_o m)
                   == cm_md m + mean_rate (cm_m1t m) (cm_pinf m) (cm_rep m) (cm_fv m) (cm_a m)
                   /\ rep_after_init (cm_m1t m) (cm_pinf m) (cm_err m) (cm_rep m) (cm_fv m) (cm_a m) = TILDE) ms.
Proof. exact copula_margins_mean_gen. Qed.

(* non-vacuity of the dispatch theorems: density 3 on [-2,0], 3/2 on [0,3], truncation [-2,3], a = 3/8 declared ONEONE:
   -> CENTER gives a + tails = 3/8 - 9/2 + 6; ONEONE -> CENTER -> TILDE equals ONEONE -> TILDE; ZERO from infinite variation raises;
   and the chain of C04_nonvacuous through the generated dispatch *)
Example C04_dispatch_nonvacuous :
  let ps := [(-2, 0, 3); (0, 3, 3#2)] in let xs := [-2; -1; -(1#2); 0; 1#2; 2; 3] in
  option_eqb (fun x y => Qeq_bool (fst x) (fst y) && Z.eqb (snd x) (snd y)) (step_set_representation ps (-2) 3 2 3 true (3#8)) (Some (15#8, 2%Z)) = true
  /\ option_eqb (fun x y => Qeq_bool (fst x) (fst y) && Z.eqb (snd x) (snd y))
       (step_set_representation2 ps (-2) 3 2 4 3 true (3#8)) (step_set_representation ps (-2) 3 4 3 true (3#8)) = true
  /\ step_set_representation ps (-2) 3 1 3 false (3#8) = None
  /\ Qeq_bool (chain_process_drift_gen ps xs 3 0 3 true (3#8) + chain_mean ps xs 3) ((3#8) - (9#2) + 6) = true.
Proof. vm_compute. repeat split. Qed.

(* ================= wave 5: the variance matrix of a copula chain (MCLevyCopulaSimulation.__init__) =================
   Model/CopulaDiffusion.v: the unpacking loop over the pool's outputs, the margin loop, variance_matrix = adj + diag(sigma^2), the
   joint flag LevyCopulaModel.jump_of_finite_variation = all margins of finite variation (repaired by d166938, finding F-C04-5).
   vadj i j (i <= j) stands for vol_adjustment_ij(i, j, h, model) (scipy nquad: not modelled, data in the correspondence). *)

(* every entry, for every dimension: the loop invariant of the unpacking + the margin loop.  variance_matrix[r][c] = sigma_r^2 [r = c]
   + vol_adjustment_ij(min, max) unless one of the two margins has jumps of finite variation (the joint flag drops out: it is true
   only when every margin's flag is); symmetric.  Second conjunct: the same for an ARBITRARY joint flag (any definition of it) *)
Theorem C04_copula_variance_matrix_entries : forall d flags sig2 vadj r c, length flags = d -> (r < d)%nat -> (c < d)%nat ->
  copula_variance_matrix_cur d flags sig2 vadj r c
  = (if nth r flags false || nth c flags false then 0 else sym_entry vadj r c) + (if Nat.eqb r c then nth r sig2 0 else 0)
  /\ (forall joint, copula_variance_matrix d joint flags sig2 vadj r c
      = (if joint || nth r flags false || nth c flags false then 0 else sym_entry vadj r c) + (if Nat.eqb r c then nth r sig2 0 else 0))
  /\ copula_variance_matrix_cur d flags sig2 vadj r c = copula_variance_matrix_cur d flags sig2 vadj c r.
Proof.
  intros. split; [apply copula_variance_matrix_cur_entries; assumption|split].
  - intros. apply copula_variance_matrix_entries; assumption.
  - apply copula_variance_matrix_symmetric; assumption.
Qed.

(* CONDITIONAL + REPACKAGING (entries theorem plus a rewrite; m2s, ls, rs, h occur only through the hypothesis and sig_h2).
   IF vol_adjustment_ij(k,k) returned margin k's second moment over the margin's central cell {|x_k| <= h/2}, the diagonal would be
   the sigma_h^2 of the 1-d chain of every margin.  On /repo this hypothesis holds ONLY when the Levy measure has no mass in the
   strip {|x_k| <= h/2, some |x_j| > h/2} (independent copula: mass on the axes; tables supported in cube + outside the strips):
   vol_adjustment_ij integrates over the central CUBE.  For a copula with mass off the axes it is FALSE (Clayton, CGMY y = 1.3,
   h = 0.1: -6.2 % and -3.1 %; table witness: 1/384 against 1/96) -- finding F-C04-6, C04_copula_margin_variance_is_1d_chain_refuted.
   (renamed in wave 8 from C04_copula_diagonal_is_margin_chain_partial.)  Second conjunct: a cross term vanishes whenever one of the
   two margins has jumps of finite variation (unconditional). *)
Theorem C04_copula_diagonal_is_margin_chain_if_no_strip_mass_partial :
  forall (d : nat) (flags : list bool) (sigmas : list Q) (m2s : nat -> Q -> Q -> Q) (ls rs : nat -> Q) (h : Q) vadj,
  length flags = d ->
  (forall k, (k < d)%nat -> nth k flags false = false -> vadj k k == vol_adj2 (tmass (m2s k) (ls k) (rs k)) false h) ->
  (forall k, (k < d)%nat ->
     copula_variance_matrix_cur d flags (map (fun s => s * s) sigmas) vadj k k
     == sig_h2 (tmass (m2s k) (ls k) (rs k)) (nth k sigmas 0) (nth k flags false) h)
  /\ (forall r c, (r < d)%nat -> (c < d)%nat -> r <> c -> nth r flags false = true \/ nth c flags false = true ->
        copula_variance_matrix_cur d flags (map (fun s => s * s) sigmas) vadj r c = 0 + 0).
Proof.
  intros. split; [apply copula_diagonal_is_margin_chain; assumption|]. intros. apply copula_cross_term_zero; try assumption. tauto.
Qed.

(* BOOKKEEPING, without the hypothesis: for a margin of infinite variation the diagonal entry is the 1-d chain's sigma_h^2 MINUS
   the amount by which vol_adjustment_ij(k,k) falls short of the margin's central-cell second moment (m2t k = any second-moment
   function of margin k) *)
Theorem C04_copula_diagonal_gap : forall (d : nat) (flags : list bool) (sigmas : list Q) (m2t : nat -> Q -> Q -> Q) (h : Q) vadj,
  length flags = d -> forall k, (k < d)%nat -> nth k flags false = false ->
  copula_variance_matrix_cur d flags (map (fun s => s * s) sigmas) vadj k k
  == sig_h2 (m2t k) (nth k sigmas 0) false h - (vol_adj2 (m2t k) false h - vadj k k).
Proof. exact copula_diagonal_gap. Qed.

(* REFUTED (finding F-C04-6): "each margin of a copula chain gets sigma_k^2 + the second moment of ITS central cell".  tab2_vadj t h =
   what vol_adjustment_ij integrates on a 2-d density table t: the central cube [-h/2,h/2]^2 (Model/CopulaDiffusion.v; tied to
   /repo by the correspondence group copulastrip on the matrix handed to sqrtm); tab2_margin_m2 t big k = the second-moment
   function of margin k of the same table (what the 1-d chain of that margin integrates).  Witness: density 1 on [0,1]^2 and
   [-1,0]^2, h = 1/2: the copula chain adds 1/384 to margin 0, its 1-d chain 1/96; the difference 1/128 is the second moment of x_0
   over {|x_0| <= 1/4, |x_1| > 1/4}: those jumps move the chain to states whose coordinate 0 is 0. *)
Theorem C04_copula_margin_variance_is_1d_chain_refuted :
  exists (t : table2) (h big : Q) (sigmas : list Q) (k : nat),
    0 < h /\ (k < 2)%nat
    /\ copula_variance_matrix_cur 2 [false; false] (map (fun s => s * s) sigmas) (tab2_vadj t h) k k
       < sig_h2 (tmass (tab2_margin_m2 t big k) (- big) big) (nth k sigmas 0) false h
    /\ 0 < tab2_strip_gap t big h k.
Proof. exact copula_margin_variance_is_1d_chain_refuted. Qed.
Example C04_copula_strip_witness_values :
  Qeq_bool (copula_variance_matrix_cur 2 [false; false] (map (fun s => s * s) [1#2; 1#4]) (tab2_vadj strip_witness (1#2)) 0%nat 0%nat) ((1#4) + (1#384)) = true
  /\ Qeq_bool (sig_h2 (tmass (tab2_margin_m2 strip_witness 1 0%nat) (-(1)) 1) (1#2) false (1#2)) ((1#4) + (1#96)) = true
  /\ Qeq_bool (copula_variance_matrix_cur 2 [false; false] (map (fun s => s * s) [1#2; 1#4]) (tab2_vadj strip_witness (1#2)) 1%nat 1%nat) ((1#16) + (1#384)) = true
  /\ Qeq_bool (sig_h2 (tmass (tab2_margin_m2 strip_witness 1 1%nat) (-(1)) 1) (1#4) false (1#2)) ((1#16) + (1#96)) = true
  /\ Qeq_bool (tab2_strip_gap strip_witness 1 (1#2) 0%nat) (1#128) = true.
Proof. exact strip_witness_values. Qed.

(* non-vacuity: d = 3, margins (iv, fv, iv), outputs 11 12 13 / 22 23 / 33 in the pool's order: the matrix keeps 11, 13, 33 only *)
Example C04_copula_matrix_nonvacuous :
  copula_chain_variance_matrix [(1#2, false); (1, true); (0, false)] [11; 12; 13; 22; 23; 33]
  = [[11 + (1#2) * (1#2); 0 + 0; 13 + 0]; [0 + 0; 0 + 1 * 1; 0 + 0]; [13 + 0; 0 + 0; 33 + 0 * 0]]
  /\ copula_joint_fv_all [false; true; false] = false /\ copula_joint_fv_all [true; true] = true.
Proof. vm_compute. repeat split. Qed.

(* the code BEFORE d166938 (finding F-C04-5, fixed): joint flag = max_k BG-index_k <= 1.  Two margins with index exactly 1 that report
   jumps of infinite variation (CGMY y = 1), pool outputs 5 / 1 / 7: the old code added nothing, the repaired code adds 5 and 7 *)
Example C04_copula_joint_flag_before_repair :
  copula_joint_fv_orig [1; 1] = true /\ copula_joint_fv_all [false; false] = false
  /\ copula_chain_variance_matrix_orig [1; 1] [(0, false); (0, false)] [] = [[0 + 0 * 0; 0 + 0]; [0 + 0; 0 + 0 * 0]]
  /\ copula_chain_variance_matrix [(0, false); (0, false)] [5; 1; 7] = [[5 + 0 * 0; 1 + 0]; [1 + 0; 7 + 0 * 0]].
Proof. vm_compute. repeat split. Qed.

(* ================= TIE: compute_mu_h regenerated from markovchain.py (Gen/GenTieDrift.v) is the hand model =================
   every C04 theorem about Drift.compute_mu_h is a theorem about the generated loop (enumerate with two accumulators) *)
Theorem C04_gen_compute_mu_h_is_model : forall (mass mid : Q -> Q -> Q) xs (o : nat),
  GenTieDrift.compute_mu_h mass mid xs (Z.of_nat o) = Drift.compute_mu_h mid mass xs o.
Proof. exact Tie_Drift.gen_compute_mu_h_eq_model. Qed.

Print Assumptions C04_mu_h_is_sum.
Print Assumptions C04_mean_identity.
Print Assumptions C04_tilde_conversion.
Print Assumptions C04_mean_rate_explicit.
Print Assumptions C04_conversions_preserve_mean.
Print Assumptions C04_zero_infinite_variation_is_error.
Print Assumptions C04_joint_flag_bias.
Print Assumptions C04_variance_added.
Print Assumptions C04_mean_identity_infinite_variation.
Print Assumptions C04_copula_margins.
Print Assumptions C04_copula_variance_added.
Print Assumptions C04_variance_gap.
Print Assumptions C04_step_m1_additive.
Print Assumptions C04_nonvacuous.
Print Assumptions C04_set_representation_dispatch.
Print Assumptions C04_error_value_not_absorbing.
Print Assumptions C04_set_representation_route_independent.
Print Assumptions C04_generated_dispatch_is_a_tilde.
Print Assumptions C04_generated_chain_is_hand_chain.
Print Assumptions C04_set_representation_preserves_mean.
Print Assumptions C04_mean_identity_generated.
Print Assumptions C04_mean_identity_generated_infinite_variation.
Print Assumptions C04_copula_margins_generated.
Print Assumptions C04_dispatch_nonvacuous.
Print Assumptions C04_copula_variance_matrix_entries.
Print Assumptions C04_copula_diagonal_is_margin_chain_if_no_strip_mass_partial.
Print Assumptions C04_copula_diagonal_gap.
Print Assumptions C04_copula_margin_variance_is_1d_chain_refuted.
Print Assumptions C04_copula_strip_witness_values.
Print Assumptions C04_copula_matrix_nonvacuous.
Print Assumptions C04_copula_joint_flag_before_repair.
Print Assumptions C04_gen_compute_mu_h_is_model.

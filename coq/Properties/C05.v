(* C05 -- the multilevel estimator is the sum of the per-level means over exactly the simulated samples.
   Only statements; proofs live in Proofs/C05_Mlmc.v, the model in Model/Mlmc.v (engine state machine over
   oracles) and Model/McStats.v (statistics).  All theorems are for ALL oracles: every sample function, cost
   function, sequence of compute_mc_paths answers (`alloc`), sequence of criteria answers (`conv`), every
   np.empty content (`garbage`), every df / notional / maximum level / initial level L0 / initial sample
   size N0, and every fuel (an out-of-fuel run is not a return of Engine.price and is excluded).
   `price_run ... 0 fuel L0 N0` is the repaired Engine.price (a new level starts with Nl = 0). *)
From Coq Require Import List ZArith QArith Qabs Bool.
From Coq Require Import Permutation.
From RV Require Import Base.QB Model.McStats Model.Mlmc Model.MlmcVec Proofs.C07_StatsLemmas Proofs.C05_Mlmc Proofs.C05_Vec Proofs.C05_Fault.
Import ListNotations.
Open Scope Q_scope.

(* invariant: at every return, level l holds exactly the N_l simulated samples, in order, no placeholder,
   none dropped / duplicated / overwritten, and N_l equals the number of paths its process has simulated *)
Theorem C05_rows_are_samples :
  forall sample cost alloc conv garbage df notional level_max fuel L0 N0,
    match price_run sample cost alloc conv garbage df notional level_max 0 fuel L0 N0 with
    | Converged s | Fallthrough s =>
        all_lev (fun l v => lcnt v = lN v /\
                            lrows v = map (fun i => mk_row df notional l (sample l i)) (seq 0 (lN v))) 0 (levels s)
    | OutOfFuel => True
    end.
Proof. exact rows_are_samples. Qed.

(* price() = sum over the levels of the mean of (fine - coarse) over those samples; coarse = 0 at level 0 *)
Theorem C05_price_is_sum_of_means :
  forall sample cost alloc conv garbage df notional level_max fuel L0 N0 s,
    (price_run sample cost alloc conv garbage df notional level_max 0 fuel L0 N0 = Converged s \/
     price_run sample cost alloc conv garbage df notional level_max 0 fuel L0 N0 = Fallthrough s) ->
    mlmc_price (levels s) == sum_level_means sample df notional 0 (levels s)
    /\ forall x, snd (mk_row df notional 0 x) == 0.
Proof. exact price_is_sum_of_means_full. Qed.

(* ml, vl, mean_level_l, var_level_l, kurtosis, cl are the textbook functions of the same rows
   (the code's central-moment detour equals the raw moments) *)
Theorem C05_results_from_same_rows :
  forall sample cost alloc conv garbage df notional level_max fuel L0 N0 s,
    (price_run sample cost alloc conv garbage df notional level_max 0 fuel L0 N0 = Converged s \/
     price_run sample cost alloc conv garbage df notional level_max 0 fuel L0 N0 = Fallthrough s) ->
    all_lev (results_ok sample df notional) 0 (levels s).
Proof. exact results_from_same_rows. Qed.

(* sum_cost[l] is the sum over the passes of one_simulation_cost * dNl, N_l the sum of the dNl (ghost list lpasses),
   and cl = sum_cost / N_l *)
Theorem C05_cost_from_passes :
  forall sample cost alloc conv garbage df notional level_max fuel L0 N0,
    match price_run sample cost alloc conv garbage df notional level_max 0 fuel L0 N0 with
    | Converged s | Fallthrough s =>
        Forall (fun v => cost_ok v /\ ((0 < lN v)%nat -> res_cl v == pass_cost (lpasses v) / qnat (pass_count (lpasses v)))) (levels s)
    | OutOfFuel => True
    end.
Proof. exact cost_from_passes. Qed.

(* N pricings on ONE engine (repaired: the path-manager list restarts at every initialisation): whatever earlier
   pricings left behind, pricing e holds on every level l exactly its own samples, seen through the deterministic path
   of the manager (e, l) created for it *)
Theorem C05_engine_reuse :
  forall offs ps e prev, seq_own offs e ps (run_seq offs true e prev ps).
Proof. exact engine_reuse. Qed.

(* price_with_constant_mc_paths_and_level (initial_level <= maximum_level; otherwise the code raises) *)
Theorem C05_fixed_level_variant :
  forall sample cost garbage df notional L0 Lmax N vs,
    fixed_run sample cost garbage df notional L0 Lmax N = Some vs ->
    length vs = S Lmax /\ all_lev (lev_done sample df notional) 0 vs /\ Forall (fun v => lN v = N) vs
    /\ mlmc_price vs == sum_level_means sample df notional 0 vs.
Proof. exact fixed_level_variant. Qed.

(* ---------------------------------------------------------------- wave 5: vector payoffs, control variates, multi-process merge
   Model/MlmcVec.v: the engine stores for every path ALL payoff components and the rows of all controls; after every pass
   compute_coefficients_mlmc replaces the with_cv rows.  For ALL raw-sample / payoff / control / price / regression-rule
   (bst) / cost / allocation / convergence / np.empty oracles, all dimensions d, numbers of controls nc, L0, N0, fuel. *)

(* at every return every level holds, for every payoff component and every control, exactly the N_l simulated rows in order,
   and the with_cv rows are the adjustment of exactly those rows with coefficients computed from exactly those rows *)
Theorem C05_vec_rows_are_samples :
  forall sample pay d ctl cnot nc prices bst df notional cost alloc conv garbA garbB level_max fuel L0 N0,
    match gprice_run (srow_of sample pay d ctl cnot nc df notional) (coef_c d bst) (adj_c d prices) (zero_srow d nc)
                     (repeat zero_row d) cost alloc conv garbA garbB level_max fuel L0 N0 with
    | Converged s | Fallthrough s =>
        all_ix (fun l v => gcnt v = gN v /\
                           grows v = map (srow_of sample pay d ctl cnot nc df notional l) (seq 0 (gN v)) /\
                           gcv v = derive (coef_c d bst) (adj_c d prices) l
                                          (map (srow_of sample pay d ctl cnot nc df notional l) (seq 0 (gN v)))) 0 (glevels s)
    | OutOfFuel => True
    end.
Proof. exact vec_rows_are_samples. Qed.

(* with controls: entry (i, j) of the with_cv rows is Y_i - b (X_i - price) (Model/McStats.v cv_adj, fine and coarse side each
   with its own b = bst of the columns of exactly the simulated rows), and the column means price() sums are the textbook
   control-variate estimators  mean Y - b (mean X - price)  over exactly the N_l simulated rows *)
Theorem C05_cv_rows_textbook :
  forall sample pay d ctl cnot nc prices bst df notional cost alloc conv garbA garbB level_max fuel L0 N0,
    match gprice_run (srow_of sample pay d ctl cnot nc df notional) (coef_c d bst) (adj_c d prices) (zero_srow d nc)
                     (repeat zero_row d) cost alloc conv garbA garbB level_max fuel L0 N0 with
    | Converged s | Fallthrough s => all_ix (cv_level_ok sample pay d ctl cnot nc prices bst df notional) 0 (glevels s)
    | OutOfFuel => True
    end.
Proof. exact cv_rows_textbook. Qed.

(* SIMULATION (audit 5a B7: this is parametricity of the engine in the stored row type plus ONE concrete fact).  The generic engine
   never inspects a row: alloc / conv are oracles, so `map pr` commutes with every step for ANY projection pr with
   pr (rowof l n) = mk_row .. (smp l n) and pr zero = zero (Proofs/C05_Vec.v gloop_simulates) -- it also holds for the projection
   that forgets the row, onto the scalar engine fed with zero samples.  The concrete fact is pr_j j (srow_of .. l n) =
   mk_row df notional l (pay_j of the raw sample) for j < d.  Reading: component j of the stored rows is what the scalar model
   stores when BOTH engines are given the SAME allocation / convergence answers -- answers the code computes from component 0
   (F-C05-5).  It is NOT a pricing of pay_j (a scalar pricing of pay_j would get other N_l; no rmse guarantee for j >= 1); it reads
   the RAW rows (with controls price() reads the with_cv rows: C05_cv_rows_textbook).  What it buys: the row / count / cost theorems
   of the scalar model transport to every component (C05_vec_component_price, C05_vec_reported_results_no_controls). *)
Theorem C05_vec_component_is_scalar_run :
  forall sample pay d ctl cnot nc prices bst df notional cost alloc conv garbA garbB level_max j fuel L0 N0, (j < d)%nat ->
    pout (pr_j j) (gprice_run (srow_of sample pay d ctl cnot nc df notional) (coef_c d bst) (adj_c d prices) (zero_srow d nc)
                              (repeat zero_row d) cost alloc conv garbA garbB level_max fuel L0 N0)
    = price_run (smp_j sample pay j) cost alloc conv (fun l n => pr_j j (garbA l n)) df notional level_max 0 fuel L0 N0.
Proof. exact component_is_scalar_run. Qed.

(* transported corollary (C05_price_is_sum_of_means through the simulation): the component-j estimator over the RAW rows *)
Theorem C05_vec_component_price :
  forall sample pay d ctl cnot nc prices bst df notional cost alloc conv garbA garbB level_max j fuel L0 N0 s, (j < d)%nat ->
    (gprice_run (srow_of sample pay d ctl cnot nc df notional) (coef_c d bst) (adj_c d prices) (zero_srow d nc)
                (repeat zero_row d) cost alloc conv garbA garbB level_max fuel L0 N0 = Converged s \/
     gprice_run (srow_of sample pay d ctl cnot nc df notional) (coef_c d bst) (adj_c d prices) (zero_srow d nc)
                (repeat zero_row d) cost alloc conv garbA garbB level_max fuel L0 N0 = Fallthrough s) ->
    mlmc_price (map (plev (pr_j j)) (glevels s))
      == sum_level_means (smp_j sample pay j) df notional 0 (map (plev (pr_j j)) (glevels s))
    /\ forall x, snd (mk_row df notional 0 x) == 0.
Proof. exact component_price. Qed.

(* fixed-level variant of the vector / control-variate engine *)
Theorem C05_vec_fixed_level_variant :
  forall (A B C : Type) (rowof : nat -> nat -> A) (coef : nat -> list A -> C) (adj : nat -> C -> A -> B) zA zB cost garbA garbB L0 Lmax N vs,
    gfixed_run rowof coef adj zA zB cost garbA garbB L0 Lmax N = Some vs ->
    length vs = S Lmax /\ all_ix (glev_done rowof coef adj) 0 vs /\ Forall (fun v => gN v = N) vs.
Proof. intros A B C. exact (@gfixed_rows_are_samples A B C). Qed.

(* multi-process branch.  (audit 5a B8 / A5) By itself this is C05_vec_rows_are_samples' invariant on the sampler renamed through sigma
   (mp_rowof rowat sample sigma l n = rowat l (sample l (sigma l n)) by definition); that the pool callback IS that engine is
   C05_callback_merge / _chunks / _is_single_process_loop below.  Whatever assignment sigma of the level's draws to the iteration
   indices the pool produces, at every return level l holds in iteration order the rows of the draws sigma l 0 .. sigma l (N_l - 1) and
   N_l = number of paths simulated; CONDITIONAL clause: if every draw was handed to exactly one iteration (sigma l permutes
   0 .. N_l - 1) the stored rows are a permutation of the simulated samples.  That hypothesis is discharged only on the harness'
   scripted process (draw index from a shared-memory counter; sigma read from an independent tag channel of the path).  For a REAL
   fixed-date process it is FALSE (finding F-C08-3 of C08: every map_async chunk pops the parent's pre-drawn rows 0, 1, .. again;
   64 paths on 2 workers store 13-27 distinct rows) -- sigma := fun _ _ => 0 is also an instance of the unconditional part. *)
Theorem C05_mp_rows_permutation :
  forall (A B C : Type) (rowat : nat -> Q * Q -> A) sample sigma (coef : nat -> list A -> C) (adj : nat -> C -> A -> B)
         zA zB cost alloc conv garbA garbB level_max fuel L0 N0,
    match gprice_run (mp_rowof rowat sample sigma) coef adj zA zB cost alloc conv garbA garbB level_max fuel L0 N0 with
    | Converged s | Fallthrough s => all_ix (mp_level_ok rowat sample sigma) 0 (glevels s)
    | OutOfFuel => True
    end.
Proof. intros A B C. exact (@mp_rows_permutation A B C). Qed.

(* ... and everything price() / mlmc_results report is invariant under a permutation of the rows of a level *)
Theorem C05_results_permutation_invariant :
  forall v w : lev, Permutation (lrows v) (lrows w) -> lcost v == lcost w -> lN v = lN w ->
    mean (fines v) - mean (coarses v) == mean (fines w) - mean (coarses w)
    /\ res_ml v == res_ml w /\ res_vl v == res_vl w /\ res_mean_level v == res_mean_level w
    /\ res_var_level v == res_var_level w /\ res_kurtosis v == res_kurtosis w /\ res_cl v == res_cl w.
Proof. exact results_perm_invariant. Qed.

(* ---------------------------------------------------------------- wave 7: an exception raised by a simulation; the pool callback
   Model/MlmcVec.v gloop_f: simulation_path() raises at iteration fi of level fl in pass fp (KeyboardInterrupt or any exception;
   Engine.price has no handler).  For ALL fault points and all oracles: either the point is never reached and the run IS the
   uninterrupted one, or the exception leaves Engine.price (nothing is returned) and the state the engine object still exposes
   is: levels before fl finished the pass (exactly their N_l samples), level fl holds fi more simulated rows than N_l counts
   followed by dNl - fi placeholders, later levels still hold their placeholders; on EVERY level the first N_l rows are exactly
   the N_l simulated samples.  (That arrays are longer than N_l there is why returning them -- seeded change C05_g -- violates C05.) *)
Theorem C05_abort_exposed_state :
  forall (A B C : Type) (rowof : nat -> nat -> A) (coef : nat -> list A -> C) (adj : nat -> C -> A -> B) zA zB cost alloc conv
         garbA garbB level_max fp fl fi fuel L0 N0,
    match gprice_run_f rowof coef adj zA zB cost alloc conv garbA garbB level_max fp fl fi fuel L0 N0 with
    | AReturn o => o = gprice_run rowof coef adj zA zB cost alloc conv garbA garbB level_max fuel L0 N0
    | ARaised e => all_ix (exposed_at rowof coef adj fl fi) 0 (glevels e)
                   /\ all_ix (fun l v => (gN v <= gcnt v)%nat /\ exists P, grows v = gsamples rowof l (gN v) ++ P) 0 (glevels e)
    end.
Proof. intros A B C. exact (@abort_spec A B C). Qed.

(* the map_async callback `for it, path in res: statistics.add(current + it, ...)`: for ANY order of the (iteration, row) pairs
   in which every iteration index 0..k-1 occurs once, the array (a = rows of the earlier passes, b = the k rows extend() padded)
   ends as a followed by the row handed with iteration 0, 1, .., k-1: nothing dropped, duplicated or overwritten, no zero row left *)
Theorem C05_callback_merge :
  forall (A : Type) start k (res : list (nat * A)) (a b : list A) d,
    Permutation (map fst res) (seq 0 k) -> length a = start -> length b = k ->
    merge start res (a ++ b) = a ++ map (fun i => lookup d i res) (seq 0 k).
Proof. intros A. exact (@merge_spec A). Qed.

(* ... cut into ANY chunks (several callback invocations) ... *)
Theorem C05_callback_chunks :
  forall (A : Type) start (chunks : list (list (nat * A))) s,
    fold_left (fun s c => merge start c s) chunks s = merge start (concat chunks) s.
Proof. intros A. exact (@merge_chunks A). Qed.

(* ... hence it IS the single-process loop of the model (gdraw) storing at iteration i the row the pool handed with index i,
   which is the engine C05_mp_rows_permutation is about *)
Theorem C05_callback_is_single_process_loop :
  forall (A : Type) l start c k (res : list (nat * A)) (a b : list A) d,
    Permutation (map fst res) (seq 0 k) -> length a = start -> length b = k ->
    merge start res (a ++ b) = gdraw (fun _ n => lookup d (n - c) res) l start c k (a ++ b).
Proof. intros A. exact (@merge_is_gdraw A). Qed.

(* wave 8: what price() / mlmc_results read (Model/MlmcVec.v lev_of, gprice -- the definitions the correspondence evaluates), without
   controls: the records of component j are the projections of the stored rows (bookkeeping), they satisfy results_ok for the samples
   pay_j of exactly the simulated paths (transported through the simulation), and the model's price() is mlmc_price of component 0 *)
Theorem C05_vec_reported_results_no_controls :
  forall sample pay d ctl cnot prices bst df notional cost alloc conv garbA garbB level_max j fuel L0 N0 s, (j < d)%nat ->
    (gprice_run (srow_of sample pay d ctl cnot 0 df notional) (coef_c d bst) (adj_c d prices) (zero_srow d 0)
                (repeat zero_row d) cost alloc conv garbA garbB level_max fuel L0 N0 = Converged s \/
     gprice_run (srow_of sample pay d ctl cnot 0 df notional) (coef_c d bst) (adj_c d prices) (zero_srow d 0)
                (repeat zero_row d) cost alloc conv garbA garbB level_max fuel L0 N0 = Fallthrough s) ->
    map (lev_of 0 j) (glevels s) = map (proj_lev j) (glevels s)
    /\ all_lev (results_ok (smp_j sample pay j) df notional) 0 (map (lev_of 0 j) (glevels s))
    /\ gprice 0 (glevels s) = mlmc_price (map (lev_of 0 0) (glevels s)).
Proof. exact reported_results_no_controls. Qed.

(* non-vacuity, and the behaviour before the repair (F-C05-1, fixed by d6e63ca on fix-mc) *)
Example C05_nonvacuous_repaired :
  exists s v, w_run 0 = Converged s /\ nth_error (levels s) 3 = Some v /\
              lN v = 4%nat /\ lcnt v = 4%nat /\ map fst (lrows v) = [1; 2; 3; 4].
Proof. exact no_phantom_after_repair. Qed.
Example C05_stale_manager_before_repair :
  exists o0 o1 s v, run_seq pm_offs false 0 [] [w_pricing; w_pricing] = [o0; o1] /\ o1 = Converged s /\
    nth_error (levels s) 0 = Some v /\ map (fun r => Qred (fst r)) (lrows v) = [1; 2] /\ ~ own_rows pm_offs 1 w_pricing o1.
Proof. exact stale_manager_before_repair. Qed.
Example C05_phantom_sample_before_repair :
  exists s v, w_run 1 = Converged s /\ nth_error (levels s) 3 = Some v /\
              lN v = 4%nat /\ lcnt v = 3%nat /\ nth 0 (lrows v) (1, 1) = zero_row.
Proof. exact phantom_sample_before_repair. Qed.

(* non-vacuity of the wave-5 theorems: a run with a 2-component payoff and one control that adds a level
   (level 1 ends with 3 rows of 2 components and 3 adjusted rows) ... *)
Definition w5_samples : list (list (Q * Q)) := [[(1, 0); (2, 0); (4, 0); (7, 0)]; [(3, 2); (5, 4); (9, 7); (2, 1)]; [(1, 1)]].
Definition w5_run : outcome (gstate srow vrow) :=
  vrun_tab 2 1 [1] w5_samples [1; 2; 4] [[3; 0]; [3; 3]; [3; 3]]%Z [false; true] 1 1 1 10 0 2.
Example C05_vec_cv_nonvacuous :
  exists s v, w5_run = Converged s /\ length (glevels s) = 2%nat /\ nth_error (glevels s) 1 = Some v /\ gN v = 3%nat /\
              gcnt v = 3%nat /\ map (fun r => length (fst r)) (grows v) = [2; 2; 2]%nat /\ length (gcv v) = 3%nat /\
              map (fun r => Qred (fst (comp 1 (fst r)))) (grows v) = [25 # 4; 41 # 4; 73 # 4].
Proof. vm_compute. eexists. eexists. repeat split. Qed.
(* ... and a pool that hands draw 1 to iteration 0 and draw 0 to iteration 1: the hypothesis of the permutation clause holds and
   the stored rows are NOT in draw order *)
Definition w5_sigma (l n : nat) : nat := match n with 0 => 1 | 1 => 0 | _ => n end%nat.
Example C05_mp_nonvacuous :
  Permutation (map (w5_sigma 0) (seq 0 3)) (seq 0 3) /\
  exists s v, gprice_run (mp_rowof (fun l x => mk_row 1 1 l x) (tab_sample w5_samples) w5_sigma) (fun _ _ => tt) (fun _ _ _ => tt)
                         zero_row tt (fun _ _ => 1) (tab_alloc [[3]]%Z) (tab_conv [true]) const_garbage (fun _ _ => tt) 0 5 0 3
              = Converged s /\ nth_error (glevels s) 0 = Some v /\ map (fun r => Qred (fst r)) (grows v) = [2; 1; 4].
Proof. split; [simpl; apply perm_swap|]. vm_compute. eexists. eexists. repeat split. Qed.

(* non-vacuity of C05_vec_reported_results_no_controls: the same history without controls, component 1 of level 1 *)
Example C05_vec_reported_nonvacuous :
  exists s v, vrun_tab 2 0 [] w5_samples [1; 2; 4] [[3; 0]; [3; 3]; [3; 3]]%Z [false; true] 1 1 1 10 0 2 = Converged s /\
              nth_error (map (lev_of 0 1) (glevels s)) 1 = Some v /\ lN v = 3%nat /\
              map (fun r => Qred (fst r)) (lrows v) = [25 # 4; 41 # 4; 73 # 4].
Proof. vm_compute. eexists. eexists. repeat split. Qed.

(* non-vacuity of the wave-7 theorems: initial level 1, one path each; second pass asks for 1 and 2 more; the simulation of the
   first extra path of level 0 raises: level 1 (N = 1) is exposed with two zero placeholders behind its sample; a fault point
   that is never reached gives the uninterrupted run *)
Example C05_abort_nonvacuous :
  (exists e v0 v1, vfault_tab (1, 0, 0)%nat 1 w5_samples [1; 2; 4] [[2; 3]; [2; 3]]%Z [true] 1 1 1 10 1 1 = ARaised e /\
     glevels e = [v0; v1] /\ gN v0 = 1%nat /\ gN v1 = 1%nat /\ gcnt v1 = 1%nat /\
     map (fun r => Qred (fst (comp 0 (fst r)))) (grows v1) = [3; 0; 0] /\ skipn 1 (map fst (grows v1)) = [[zero_row]; [zero_row]])
  /\ vfault_tab (7, 0, 0)%nat 1 w5_samples [1; 2; 4] [[2; 3]; [2; 3]]%Z [true] 1 1 1 10 1 1
     = AReturn (vrun_tab 1 0 [] w5_samples [1; 2; 4] [[2; 3]; [2; 3]]%Z [true] 1 1 1 10 1 1).
Proof. split; [vm_compute; do 3 eexists; repeat split|vm_compute; reflexivity]. Qed.
(* two chunks completing out of order: iterations 2, 0 then 1 behind one earlier row *)
Example C05_callback_nonvacuous :
  Permutation (map fst [(2, 30); (0, 10); (1, 20)]%nat) (seq 0 3) /\
  fold_left (fun s c => merge 1 c s) [[(2, 30); (0, 10)]; [(1, 20)]]%nat [7; 0; 0; 0]%nat = [7; 10; 20; 30]%nat.
Proof. split; [|reflexivity]. simpl. apply (Permutation_cons_app [0%nat; 1%nat] [] 2%nat). simpl. apply Permutation_refl. Qed.

Print Assumptions C05_rows_are_samples.
Print Assumptions C05_price_is_sum_of_means.
Print Assumptions C05_results_from_same_rows.
Print Assumptions C05_cost_from_passes.
Print Assumptions C05_engine_reuse.
Print Assumptions C05_fixed_level_variant.
Print Assumptions C05_vec_rows_are_samples.
Print Assumptions C05_cv_rows_textbook.
Print Assumptions C05_vec_component_is_scalar_run.
Print Assumptions C05_vec_component_price.
Print Assumptions C05_vec_fixed_level_variant.
Print Assumptions C05_mp_rows_permutation.
Print Assumptions C05_results_permutation_invariant.
Print Assumptions C05_abort_exposed_state.
Print Assumptions C05_callback_merge.
Print Assumptions C05_callback_chunks.
Print Assumptions C05_callback_is_single_process_loop.
Print Assumptions C05_vec_reported_results_no_controls.
Print Assumptions C05_nonvacuous_repaired.
Print Assumptions C05_stale_manager_before_repair.
Print Assumptions C05_phantom_sample_before_repair.
Print Assumptions C05_vec_cv_nonvacuous.
Print Assumptions C05_mp_nonvacuous.
Print Assumptions C05_vec_reported_nonvacuous.
Print Assumptions C05_abort_nonvacuous.
Print Assumptions C05_callback_nonvacuous.

(* C05 -- the multilevel estimator is the sum of the per-level means over exactly the simulated samples.
   Only statements; proofs live in Proofs/C05_Mlmc.v, the model in Model/Mlmc.v (engine state machine over
   oracles) and Model/McStats.v (statistics).  All theorems are for ALL oracles: every sample function, cost
   function, sequence of compute_mc_paths answers (`alloc`), sequence of criteria answers (`conv`), every
   np.empty content (`garbage`), every df / notional / maximum level / initial level L0 / initial sample
   size N0, and every fuel (an out-of-fuel run is not a return of Engine.price and is excluded).
   `price_run ... 0 fuel L0 N0` is the repaired Engine.price (a new level starts with Nl = 0). *)
From Coq Require Import List ZArith QArith Qabs Bool.
From RV Require Import Base.QB Model.McStats Model.Mlmc Proofs.C07_StatsLemmas Proofs.C05_Mlmc.
Import ListNotations.
Open Scope Q_scope.

(* invariant: at every return, level l holds exactly the N_l simulated samples, in order, no placeholder,
   none dropped / duplicated / overwritten, and N_l equals the number of paths its process has simulated *)
Theorem C05_rows_are_samples :
  forall sample cost alloc conv garbage df notional level_max fuel L0 N0,
    match price_run sample cost alloc conv garbage df notional level_max 0 fuel L0 N0 with
    | Converged s | Fallthrough s =>
        all_lev (fun l v => lcnt v = lN v /\
                            lrows v = map (fun i => mk_row df notional l (sample l i)) (seq 0 (lN v))) 0 (levels s)
    | OutOfFuel => True
    end.
Proof. exact rows_are_samples. Qed.

(* price() = sum over the levels of the mean of (fine - coarse) over those samples; coarse = 0 at level 0 *)
Theorem C05_price_is_sum_of_means :
  forall sample cost alloc conv garbage df notional level_max fuel L0 N0 s,
    (price_run sample cost alloc conv garbage df notional level_max 0 fuel L0 N0 = Converged s \/
     price_run sample cost alloc conv garbage df notional level_max 0 fuel L0 N0 = Fallthrough s) ->
    mlmc_price (levels s) == sum_level_means sample df notional 0 (levels s)
    /\ forall x, snd (mk_row df notional 0 x) == 0.
Proof. exact price_is_sum_of_means_full. Qed.

(* ml, vl, mean_level_l, var_level_l, kurtosis, cl are the textbook functions of the same rows
   (the code's central-moment detour equals the raw moments) *)
Theorem C05_results_from_same_rows :
  forall sample cost alloc conv garbage df notional level_max fuel L0 N0 s,
    (price_run sample cost alloc conv garbage df notional level_max 0 fuel L0 N0 = Converged s \/
     price_run sample cost alloc conv garbage df notional level_max 0 fuel L0 N0 = Fallthrough s) ->
    all_lev (results_ok sample df notional) 0 (levels s).
Proof. exact results_from_same_rows. Qed.

(* sum_cost[l] is the sum over the passes of one_simulation_cost * dNl, N_l the sum of the dNl (ghost list lpasses),
   and cl = sum_cost / N_l *)
Theorem C05_cost_from_passes :
  forall sample cost alloc conv garbage df notional level_max fuel L0 N0,
    match price_run sample cost alloc conv garbage df notional level_max 0 fuel L0 N0 with
    | Converged s | Fallthrough s =>
        Forall (fun v => cost_ok v /\ ((0 < lN v)%nat -> res_cl v == pass_cost (lpasses v) / qnat (pass_count (lpasses v)))) (levels s)
    | OutOfFuel => True
    end.
Proof. exact cost_from_passes. Qed.

(* N pricings on ONE engine (repaired: the path-manager list restarts at every initialisation): whatever earlier
   pricings left behind, pricing e holds on every level l exactly its own samples, seen through the deterministic path
   of the manager (e, l) created for it *)
Theorem C05_engine_reuse :
  forall offs ps e prev, seq_own offs e ps (run_seq offs true e prev ps).
Proof. exact engine_reuse. Qed.

(* price_with_constant_mc_paths_and_level (initial_level <= maximum_level; otherwise the code raises) *)
Theorem C05_fixed_level_variant :
  forall sample cost garbage df notional L0 Lmax N vs,
    fixed_run sample cost garbage df notional L0 Lmax N = Some vs ->
    length vs = S Lmax /\ all_lev (lev_done sample df notional) 0 vs /\ Forall (fun v => lN v = N) vs
    /\ mlmc_price vs == sum_level_means sample df notional 0 vs.
Proof. exact fixed_level_variant. Qed.

(* non-vacuity, and the behaviour before the repair (F-C05-1, fixed by d6e63ca on fix-mc) *)
Example C05_nonvacuous_repaired :
  exists s v, w_run 0 = Converged s /\ nth_error (levels s) 3 = Some v /\
              lN v = 4%nat /\ lcnt v = 4%nat /\ map fst (lrows v) = [1; 2; 3; 4].
Proof. exact no_phantom_after_repair. Qed.
Example C05_stale_manager_before_repair :
  exists o0 o1 s v, run_seq pm_offs false 0 [] [w_pricing; w_pricing] = [o0; o1] /\ o1 = Converged s /\
    nth_error (levels s) 0 = Some v /\ map (fun r => Qred (fst r)) (lrows v) = [1; 2] /\ ~ own_rows pm_offs 1 w_pricing o1.
Proof. exact stale_manager_before_repair. Qed.
Example C05_phantom_sample_before_repair :
  exists s v, w_run 1 = Converged s /\ nth_error (levels s) 3 = Some v /\
              lN v = 4%nat /\ lcnt v = 3%nat /\ nth 0 (lrows v) (1, 1) = zero_row.
Proof. exact phantom_sample_before_repair. Qed.

Print Assumptions C05_rows_are_samples.
Print Assumptions C05_price_is_sum_of_means.
Print Assumptions C05_results_from_same_rows.
Print Assumptions C05_cost_from_passes.
Print Assumptions C05_engine_reuse.
Print Assumptions C05_fixed_level_variant.
Print Assumptions C05_nonvacuous_repaired.
Print Assumptions C05_stale_manager_before_repair.
Print Assumptions C05_phantom_sample_before_repair.

(* C06 -- sample allocation meets the variance budget; runs stop only on stated criteria.
   Only statements.  Allocation / bias test: Proofs/C06_Alloc.v about the py2coq-GENERATED definitions
   Gen/GenC06Criteria.v (giles_alloc_core, criteria_giles; regenerated from criteria.py on every run) lifted to
   lists in Model/Alloc.v.  Loop: Proofs/C06_Loop.v about the state machine Model/Mlmc.v shared with C05.
   Tree: fix-mc (e8b4517: bias tolerance sqrt(theta)*rmse; d6e63ca: new level starts with Nl = 0). *)
From Coq Require Import Reals List ZArith QArith Bool.
From RV Require Import Base.RB Base.RCeilMC Gen.GenC06Criteria Gen.GenC06Regress Model.Alloc Model.Regress Model.McStats Model.Mlmc Model.MlmcTied
                       Proofs.C06_Alloc Proofs.C06_Loop Proofs.C06_Compose Proofs.C06_Regress Proofs.C06_RealAlloc Proofs.C06_Tied.
Import ListNotations.

(* for all variance vectors V >= 0, cost vectors C > 0 (same length) and all rmse > 0, the ceil'ed Giles
   allocation satisfies  sum_{l : V_l > 0} V_l / N_l <= (1 - theta) rmse^2 *)
Theorem C06_budget : forall rmse V C, (0 < rmse)%R -> length V = length C ->
  Forall (fun v => 0 <= v)%R V -> Forall (fun c => 0 < c)%R C ->
  in_range rmse (S_of V C) V C ->       (* every optimum below 2^63; otherwise the repaired code raises ValueError *)
  (est_var V (giles_alloc rmse V C) <= (1 - 1 / 4) * rmse ^ 2)%R.
Proof. exact budget. Qed.
(* the quotients V_l / N_l of est_var are meaningful: under the same hypotheses every level with variance gets at least one
   sample (Coq's x / 0 = 0 would otherwise let a starved level contribute nothing) *)
Theorem C06_samples_where_variance : forall rmse V C, (0 < rmse)%R -> length V = length C ->
  Forall (fun v => 0 <= v)%R V -> Forall (fun c => 0 < c)%R C -> in_range rmse (S_of V C) V C ->
  pos_where_var V (giles_alloc rmse V C).
Proof. exact samples_where_variance. Qed.
(* ... and so do ANY sample sizes N_l >= sqrt(V_l/C_l) * T / B (T = sum sqrt(V C) when T > 0) *)
Theorem C06_budget_general : forall B T, (0 < B)%R -> (0 < T)%R -> forall V C N,
  Forall (fun v => 0 <= v)%R V -> Forall (fun c => 0 < c)%R C -> ge_bound T B V C N ->
  (est_var V N <= S_of V C * B / T)%R.
Proof. exact budget_general. Qed.
(* F-C06-2 (recorded): with a zero cost (replaced by 1e30) and a positive variance the budget is exceeded *)
Theorem C06_budget_zero_cost_refuted :
  exists rmse V C, (0 < rmse)%R /\ Forall (fun v => 0 <= v)%R V /\ Forall (fun c => 0 <= c)%R C /\
                   ((1 - 1 / 4) * rmse ^ 2 < est_var V (giles_alloc rmse V C))%R.
Proof. exact budget_zero_cost_refuted. Qed.

(* squared bias tolerance + variance share <= rmse^2 (both shares read from the generated definitions; ml is the LIST
   of level means -- one, two, three or more entries; guard 2^alpha > 1: for alpha = 0 the code divides by zero) *)
Theorem C06_bias_plus_variance : forall alpha ml rmse,
  (0 <= rmse)%R -> Forall (fun m => 0 <= m)%R ml -> (1 < Rpower 2 alpha)%R -> criteria_giles alpha ml rmse = true ->
  ((giles_rem alpha ml) ^ 2 + (1 - 1 / 4) * rmse ^ 2 <= rmse ^ 2)%R
  /\ ((sqrt (1 / 4) * rmse) ^ 2 + (1 - 1 / 4) * rmse ^ 2 = rmse ^ 2)%R.
Proof. exact bias_plus_variance. Qed.

(* for ALL oracles and fuels, initial_level <= maximum_level: a return from the convergence branch happens only
   with at most level_max + 1 levels, every level within 1% of its optimal size, and the bias test passed or
   L = level_max; the only other return is the post-loop one (no demand left) *)
Theorem C06_safety :
  forall sample cost alloc conv garbage df notional level_max phantom fuel L0 N0, (L0 <= level_max)%nat ->
    match price_run sample cost alloc conv garbage df notional level_max phantom fuel L0 N0 with
    | Converged s =>
        (length (levels s) <= S level_max)%nat
        /\ Forall (fun v => 100 * ldN v <= lN v)%nat (levels s)
        /\ (1 <= nconv s)%nat
        /\ (conv (nconv s - 1)%nat = true \/ (length (levels s) - 1)%nat = level_max)
        /\ (1 <= nalloc s)%nat /\ dN_is (alloc (nalloc s - 1)%nat) 0 (levels s)   (* ldN = max(0, last answer - N_l) *)
    | Fallthrough s => (length (levels s) <= S level_max)%nat /\ total_dN (levels s) = 0%nat
    | OutOfFuel => True
    end.
Proof. exact price_safety_full. Qed.
Theorem C06_fallthrough_characterised :
  forall sample cost alloc conv df notional level_max phantom fuel s s',
    loop sample cost alloc conv df notional level_max phantom fuel s = Fallthrough s' ->
    total_dN (levels s') = 0%nat /\
    (s' = s \/ exists pre v, levels s' = pre ++ [v] /\ lN v = phantom /\ lcnt v = 0%nat /\ ldN v = 0%nat).
Proof. exact fallthrough_characterised. Qed.
(* F-C06-4 (recorded): that post-loop return is reachable without a passed bias test below the maximum level *)
Theorem C06_return_without_bias_test_refuted :
  exists sample cost alloc garbage s,
    price_run sample cost alloc (fun _ => false) garbage 1%Q 1%Q 5 0 10 2 3 = Fallthrough s
    /\ (length (levels s) - 1 < 5)%nat /\ nconv s = 1%nat /\ map lN (levels s) = [3; 3; 3; 0]%nat.
Proof. exact return_without_bias_test_ex. Qed.
(* F-C06-3 repaired (fix-mc4 fd99a8c): NO guard on the configuration -- Engine.price either refuses
   initial_level > maximum_level before anything is simulated (None) or returns safely *)
Theorem C06_never_above_maximum :
  forall sample cost alloc conv garbage df notional level_max phantom fuel L0 N0,
    match price_entry sample cost alloc conv garbage df notional level_max phantom fuel L0 N0 with
    | None => (level_max < L0)%nat
    | Some o => (L0 <= level_max)%nat /\ safe_outcome alloc conv level_max o
    end.
Proof. exact never_above_maximum. Qed.
(* F-C06-5 repaired (fix-mc4 f58964a): the generated allocation core never returns a wrapped integer -- it is the ceil of
   the optimum when that is below 2^63 and the error value -1 (ValueError) otherwise *)
Theorem C06_allocation_representable_or_error :
  forall rmse v c T,
    giles_alloc_core rmse v c T
    = if Rltb (giles_optimal rmse v c T) int_bound then Rceil (giles_optimal rmse v c T) else (-1)%R.
Proof. exact core_spec. Qed.

(* budget and loop composed: at a return from the convergence branch whose last allocation answer is the Giles allocation
   of (V, C), the estimator variance with the sample sizes ACTUALLY used is within the 1% rule of the variance share *)
Theorem C06_budget_at_converged_return :
  forall sample cost alloc conv garbage df notional level_max phantom fuel L0 N0 s rmse V C,
    (L0 <= level_max)%nat ->
    price_run sample cost alloc conv garbage df notional level_max phantom fuel L0 N0 = Converged s ->
    (0 < rmse)%R -> length V = length C -> Forall (fun v => 0 <= v)%R V -> Forall (fun c => 0 < c)%R C ->
    in_range rmse (S_of V C) V C ->
    length (alloc (nalloc s - 1)%nat) = length (levels s) ->
    map IZR (alloc (nalloc s - 1)%nat) = giles_alloc rmse V C ->
    (est_var V (map (fun v => INR (lN v)) (levels s)) <= 101 / 100 * ((1 - 1 / 4) * rmse ^ 2))%R.
Proof. exact budget_at_converged_return. Qed.

(* FULL statement wanted: "a pricing run always terminates".  Proved: for every oracle whose allocation answers
   are bounded (exists Bd, forall k l, alloc k [l] <= Bd) and initial_level <= maximum_level some fuel suffices.
   Unconditional termination is false of the loop (adversarial variance estimates can demand more forever). *)
Theorem C06_termination_partial :
  forall sample cost alloc conv garbage df notional level_max L0 N0 Bd,
    (forall k l, (nth l (alloc k) 0 <= Z.of_nat Bd)%Z) -> (L0 <= level_max)%nat ->
    exists fuel, price_run sample cost alloc conv garbage df notional level_max 0 fuel L0 N0 <> OutOfFuel.
Proof. exact termination_bounded_demand. Qed.

(* ------------------------------------------------------------------ wave 5: rate regression, real allocation, float range *)
(* np.linalg.lstsq as modelled (Model/Regress.v) IS least squares, for every number of levels (0, 1, 2, ...), every first
   level number x and every observation vector: no line has a smaller sum of squared residuals *)
Theorem C06_regression_is_least_squares : forall x ys a b,
  (sse (fst (lstsq (points x ys))) (snd (lstsq (points x ys))) (points x ys) <= sse a b (points x ys))%R.
Proof. exact lstsq_minimises. Qed.
(* ... with two or more levels it is the unique minimiser (the ordinary least-squares line) *)
Theorem C06_regression_unique_from_two_levels : forall x y1 y2 r a b, let ps := points x (y1 :: y2 :: r) in
  (sse a b ps <= sse (fst (lstsq ps)) (snd (lstsq ps)) ps)%R -> a = fst (lstsq ps) /\ b = snd (lstsq ps).
Proof. exact lstsq_unique. Qed.
(* ... with ONE level (Engine.price at L = 1) it is the minimum-norm solution of the single equation: not a slope *)
Theorem C06_regression_single_level_is_minimum_norm : forall x y a b, (a * x + b = y)%R ->
  (fst (lstsq (points x [y])) * x + snd (lstsq (points x [y])) = y)%R
  /\ (fst (lstsq (points x [y])) ^ 2 + snd (lstsq (points x [y])) ^ 2 <= a ^ 2 + b ^ 2)%R.
Proof. exact lstsq_single_level. Qed.
(* exact geometric decay m * 2^(-a l) on levels 1..n, n >= 2: the GENERATED log2_regression answers max(1/2, a) *)
Theorem C06_regression_recovers_geometric_rate : forall m0 m a n, (0 < m)%R -> (2 <= n)%nat ->
  let ml := m0 :: map (fun p => m * Rpower 2 (- a * fst p))%R (points 1 (repeat 0%R n)) in
  log2_regression ml log2_regression_default_max_val = Rmax (1 / 2) a.
Proof. exact regression_recovers_geometric_rate. Qed.
(* the clamp: for EVERY array (zeros, one level, none) the regressed rate r has 2^r >= sqrt 2 > 1: the bias test divides by
   2^alpha - 1 > 0 whenever alpha is regressed *)
Theorem C06_regressed_rate_guard : forall l,
  (sqrt 2 <= Rpower 2 (log2_regression l log2_regression_default_max_val))%R
  /\ (1 < Rpower 2 (log2_regression l log2_regression_default_max_val))%R.
Proof. exact regressed_rate_guard. Qed.
(* C06_bias_plus_variance with the weak rate the engine regresses (configured alpha = None).  Wave 7 (audit-4 B5): the generated
   log2_regression now has numpy's nan path (a zero level mean at a level >= 1 -> rate = the clamp 1/2, not a slope through
   Coq's ln 0 = 0), so `0 <= m` IS the right hypothesis: alpha is what Python computes for every non-negative ml, zeros included
   (Example C06_zero_level_mean_takes_nan_path: the audit's witness, where the bias test FAILS in Python and in the model) *)
Theorem C06_bias_plus_variance_regressed : forall prev ml rmse, (0 <= rmse)%R -> Forall (fun m => 0 <= m)%R ml ->
  let alpha := alpha_of_pass None prev ml in
  criteria_giles alpha ml rmse = true ->
  ((giles_rem alpha ml) ^ 2 + (1 - 1 / 4) * rmse ^ 2 <= rmse ^ 2)%R.
Proof. exact bias_plus_variance_regressed. Qed.
(* the ml / vl work-around (r = 2^rate > 0): levels 0-2 untouched, nothing decreased, and a positive level 2 makes every
   later entry positive (finite log2 from level 3 on) *)
Theorem C06_workaround_guarantee : forall r m0 m1 m2 t, (0 < r)%R -> (0 < m2)%R ->
  exists t', workaround r (m0 :: m1 :: m2 :: t) = m0 :: m1 :: m2 :: t'
             /\ Forall (fun m => 0 < m)%R t' /\ Forall2 (fun m m' => m <= m')%R t t'.
Proof. exact workaround_guarantee. Qed.

(* float range, in the real-number reading of the generated guard `optimal < 2.0**63`: the error value (ValueError) is
   returned EXACTLY when the optimum is not below 2^63; otherwise the answer is the least integer >= the optimum, in [0, 2^63] *)
Theorem C06_error_exactly_when_not_representable : forall rmse v c T, (0 <= T)%R ->
  (giles_alloc_core rmse v c T = (-1)%R <-> (int_bound <= giles_optimal rmse v c T)%R)
  /\ ((giles_optimal rmse v c T < int_bound)%R ->
      exists z : Z, giles_alloc_core rmse v c T = IZR z /\ (0 <= z <= 2 ^ 63)%Z
                    /\ (IZR z - 1 < giles_optimal rmse v c T <= IZR z)%R).
Proof. exact core_error_iff. Qed.

(* termination with the REAL callbacks, TIED TO THE STATE (wave 7, audit-4 B4).  `tied_run ... fuel L0 N0` (Model/MlmcTied.v) says,
   for every callback call the run makes within `fuel` passes: the allocation answer IS giles_alloc rmse V C where V, C are the
   state's own res_vl / res_cl (one entry per level, after the generated work-around; for an added level the generated
   extrapolation with the rates regressed in that pass), every level has samples when its statistics are read, the convergence
   answer IS the generated criteria_giles of the state's level means and regressed / configured alpha, and the estimates satisfy
   bounded_estimates Qb Smax (sqrt(V_l / C'_l) <= Qb, sum sqrt(V C) <= Smax).  Nothing is existential: an oracle answering the
   empty vector is NOT tied (C06_tied_answer_has_one_entry_per_level).  Still a hypothesis on the run: bounded estimates are not
   implied by the code (unconditional termination is false). *)
Theorem C06_termination_real_allocation :
  forall sample cost alloc conv garbage df notional level_max L0 N0 rmse cfg_alpha cfg_beta cfg_gamma Qb Smax,
    (0 < rmse)%R -> (L0 <= level_max)%nat ->
    (forall fuel, tied_run sample cost alloc conv df notional level_max rmse cfg_alpha cfg_beta cfg_gamma
                           (bounded_estimates Qb Smax) garbage fuel L0 N0) ->
    exists fuel, price_run sample cost alloc conv garbage df notional level_max 0 fuel L0 N0 <> OutOfFuel.
Proof. exact termination_tied_full. Qed.
Theorem C06_tied_answer_has_one_entry_per_level :
  forall sample cost alloc conv garbage df notional level_max L0 N0 rmse cfg_alpha cfg_beta cfg_gamma Qb Smax fuel, (0 < N0)%nat ->
    tied_run sample cost alloc conv df notional level_max rmse cfg_alpha cfg_beta cfg_gamma (bounded_estimates Qb Smax) garbage (S fuel) L0 N0 ->
    length (alloc 0%nat) = S L0.
Proof. exact tied_answer_length_full. Qed.
(* what the definitions GENERATED from the loop body (symbolic execution of Engine.price in source order) are, by construction
   (`_spec`: reflexivity; it FAILS when the source re-orders the work-around and the regressions or changes an argument):
   the work-around uses the PREVIOUS pass's rates, the regressions read the FLOORED arrays, the allocation gets (floored vl, raw cl),
   the bias test (regressed alpha, floored ml), an added level is extrapolated with the rates regressed in THIS pass *)
Theorem C06_generated_loop_body_spec : forall ca cb cg a b g ml vl cl r,
  let ml' := workaround (Rpower 2 a) ml in let vl' := workaround (Rpower 2 b) vl in
  pass_alloc_V ca cb cg a b g ml vl cl = vl' /\ pass_alloc_C ca cb cg a b g ml vl cl = cl
  /\ pass_bias_alpha ca cb cg a b g ml vl cl = alpha_of_pass ca a ml' /\ pass_bias_ml ca cb cg a b g ml vl cl = ml'
  /\ new_level_alloc_V ca cb cg a b g ml vl cl = (vl' ++ [last vl' 0 / Rpower 2 (beta_of_pass cb b vl')])%R
  /\ new_level_alloc_C ca cb cg a b g ml vl cl = (cl ++ [last cl 0 * Rpower 2 (gamma_of_pass cg g cl)])%R
  /\ pass_next_alpha ca cb cg a b g ml vl cl = alpha_of_pass ca a ml' /\ pass_next_beta ca cb cg a b g ml vl cl = beta_of_pass cb b vl'
  /\ pass_next_gamma ca cb cg a b g ml vl cl = gamma_of_pass cg g cl
  /\ (alpha_initial None = 0 /\ beta_initial None = 0 /\ gamma_initial None = 0                (* `rate = 0 if rate_0 is None else rate_0` *)
      /\ alpha_initial (Some r) = r /\ beta_initial (Some r) = r /\ gamma_initial (Some r) = r)%R.
Proof. exact generated_loop_body_spec. Qed.

(* BOUNDEDNESS LEMMAS (relabelled, audit-4 B4): answers that are the Giles allocation of SOME bounded vectors are bounded, hence
   the bounded-demand theorem applies.  V, C are existential and NOT the state's estimates (the empty answer qualifies): these two
   say nothing about the real engine beyond C06_termination_partial; the tied statement above is the one about the state. *)
Theorem C06_termination_bounded_giles_answers_partial :
  forall sample cost alloc conv garbage df notional level_max L0 N0 rmse Q Smax k0,
    (0 < rmse)%R ->
    (forall k, (k0 <= k)%nat -> exists V C, map IZR (alloc k) = giles_alloc rmse V C
                                             /\ Forall2 (ratio_le Q) V C /\ (S_of V C <= Smax)%R) ->
    (L0 <= level_max)%nat ->
    exists fuel, price_run sample cost alloc conv garbage df notional level_max 0 fuel L0 N0 <> OutOfFuel.
Proof. exact termination_bounded_estimates. Qed.
Theorem C06_termination_fixed_vectors_partial :
  forall sample cost alloc conv garbage df notional level_max L0 N0 rmse Vfix Cfix k0,
    (0 < rmse)%R -> length Vfix = length Cfix ->
    (forall k, (k0 <= k)%nat -> exists n, map IZR (alloc k) = giles_alloc rmse (firstn n Vfix) (firstn n Cfix)) ->
    (L0 <= level_max)%nat ->
    exists fuel, price_run sample cost alloc conv garbage df notional level_max 0 fuel L0 N0 <> OutOfFuel.
Proof. exact termination_fixed_estimates. Qed.

(* non-vacuity of the wave-5 statements *)
Example C06_regressed_bias_test_passes :
  alpha_of_pass None 0 ex_ml = 2%R /\ Forall (fun m => 0 <= m)%R ex_ml /\ criteria_giles (alpha_of_pass None 0 ex_ml) ex_ml 1 = true.
Proof. exact regressed_ex. Qed.
Example C06_single_level_rate_is_half_log : forall m0 m1, (0 < m1)%R ->
  log2_regression [m0; m1] log2_regression_default_max_val = Rmax (1 / 2) (- (log2R m1 / 2)).
Proof. exact single_level_rate. Qed.
Example C06_real_allocation_oracle_exists :
  exists alloc : nat -> list Z,
    (forall k, (0 <= k)%nat -> exists n, map IZR (alloc k) = giles_alloc 1 (firstn n ex_V) (firstn n ex_C))
    /\ alloc 0%nat = [12; 5; 2]%Z.
Proof. exact real_allocation_oracle_ex. Qed.
Example C06_error_branch_met : giles_alloc_core (1 / 2 ^ 40) 1 1 1 = (-1)%R.
Proof. exact core_error_ex. Qed.
(* wave 7: the nan path (audit-4 B5 witness ml = [3, 0, 1/4, 1/8], rmse = the double 0.2): rate = clamp, bias test fails *)
Example C06_zero_level_mean_takes_nan_path : forall prev,
  alpha_of_pass None prev nan_ml = (1 / 2)%R /\ Forall (fun m => 0 <= m)%R nan_ml
  /\ criteria_giles (alpha_of_pass None prev nan_ml) nan_ml (3602879701896397 / 18014398509481984) = false.
Proof. exact nan_path_ex. Qed.
(* wave 7: the hypothesis of C06_termination_real_allocation is satisfiable by a run that needs two passes (oracles = the real
   callbacks on the state: one level, variance 1, unit cost, rmse 1/2, all rates regressed) -- and that run returns with N = [6] *)
Example C06_tied_run_exists :
  (forall fuel, tied_run ex_sample ex_cost ex_alloc ex_conv 1 1 0 (1 / 2) None None None (bounded_estimates 1 1) ex_garbage fuel 0 2)
  /\ exists s, price_run ex_sample ex_cost ex_alloc ex_conv ex_garbage 1 1 0 0 2 0 2 = Converged s /\ map lN (levels s) = [6%nat] /\ nalloc s = 2%nat.
Proof. exact (conj tied_run_ex tied_run_ex_returns). Qed.

(* behaviour before the repair of F-C06-3: the loop entered above the maximum (price_run = the loop without the entry check) *)
Example C06_level_above_maximum_before_repair :
  exists sample cost alloc conv garbage s,
    price_run sample cost alloc conv garbage 1%Q 1%Q 1 0 10 3 3 = Converged s
    /\ map lN (levels s) = [3; 3; 3; 3]%nat /\ (1 < length (levels s) - 1)%nat.
Proof. exact level_above_maximum_ex. Qed.

(* behaviour before the repair of the bias tolerance (F-C06-1): rmse/sqrt 2 does not fit the 3/4 variance share *)
Example C06_bias_plus_variance_before_repair :
  forall rmse, (0 < rmse)%R -> (rmse ^ 2 < (rmse / sqrt 2) ^ 2 + (1 - 1 / 4) * rmse ^ 2)%R.
Proof. exact bias_plus_variance_before_repair. Qed.

Print Assumptions C06_budget.
Print Assumptions C06_samples_where_variance.
Print Assumptions C06_budget_general.
Print Assumptions C06_budget_zero_cost_refuted.
Print Assumptions C06_bias_plus_variance.
Print Assumptions C06_safety.
Print Assumptions C06_fallthrough_characterised.
Print Assumptions C06_return_without_bias_test_refuted.
Print Assumptions C06_never_above_maximum.
Print Assumptions C06_allocation_representable_or_error.
Print Assumptions C06_budget_at_converged_return.
Print Assumptions C06_termination_partial.
Print Assumptions C06_regression_is_least_squares.
Print Assumptions C06_regression_unique_from_two_levels.
Print Assumptions C06_regression_single_level_is_minimum_norm.
Print Assumptions C06_regression_recovers_geometric_rate.
Print Assumptions C06_regressed_rate_guard.
Print Assumptions C06_bias_plus_variance_regressed.
Print Assumptions C06_workaround_guarantee.
Print Assumptions C06_error_exactly_when_not_representable.
Print Assumptions C06_termination_real_allocation.
Print Assumptions C06_tied_answer_has_one_entry_per_level.
Print Assumptions C06_generated_loop_body_spec.
Print Assumptions C06_termination_bounded_giles_answers_partial.
Print Assumptions C06_termination_fixed_vectors_partial.
Print Assumptions C06_regressed_bias_test_passes.
Print Assumptions C06_single_level_rate_is_half_log.
Print Assumptions C06_real_allocation_oracle_exists.
Print Assumptions C06_error_branch_met.
Print Assumptions C06_zero_level_mean_takes_nan_path.
Print Assumptions C06_tied_run_exists.
Print Assumptions C06_level_above_maximum_before_repair.
Print Assumptions C06_bias_plus_variance_before_repair.

(* C07 -- standard Monte-Carlo price, error and control-variate adjustment are textbook.
   Only statements; proofs in Proofs/C07_McStats.v, model in Model/McStats.v.
   Models: Model/McStats.v (loop, statistics, 1-2 controls), Model/McCv.v (any number of controls), Model/McStdFull.v (both loop
   branches, spot statistics, n = 0 / 1, get_variance); proofs in Proofs/C07_McStats.v, C07_CvGeneral.v, C07_StdFull.v.
   The model follows the repaired tree (fix-mc: dee7ba4 mc_stddev divides by sqrt(shape[0]); 380d7c7 one error per component for n = 0, 1 (F-C07-6);
   f813372 every control is centred on its own price; fix-mc3 aaa3e1f scale-relative degenerate-control guard). *)
From Coq Require Import List ZArith QArith Qabs Bool Lia Permutation.
From RV Require Import Base.QB Model.McStats Model.McCv Proofs.C07_StatsLemmas Proofs.C07_McStats Proofs.C07_CvGeneral Model.McStdFull Proofs.C07_StdFull Proofs.C07_LstsqExists Model.McStdCv Proofs.C07_MpCv.
Import ListNotations.
Open Scope Q_scope.

(* Engine.price: whatever the np.empty array contained, after the loop row i is df*notional*payoff(path_i),
   every path exactly once and in order, and price() is df * notional * mean(payoff), per component *)
Theorem C07_price_is_df_mean :
  forall (payoff : Q -> list Q) (path : nat -> Q) df notional n init d j,
    length init = n -> (forall i, length (payoff (path i)) = d) -> (j < d)%nat ->
    std_engine payoff path df notional n init = map (std_row payoff path df notional) (seq 0 n)
    /\ nth j (std_price d (std_engine payoff path df notional n init)) 0
       == df * notional * mean (map (fun i => nth j (payoff (path i)) 0) (seq 0 n)).
Proof. exact price_is_df_mean_full. Qed.

(* Engine.price called repeatedly on ONE engine (other path count, other product).  The engine's statistics are STATE; the
   model has both behaviours of initialisation (keep = false: the code, a new MCStatistics whose np.empty content is an
   arbitrary oracle of the previous rows; keep = true: keep the buffers and only extend them).  For the code's branch every
   pricing holds exactly its own p_n paths, each once, whatever the garbage oracle and the previous state; the other
   branch does not (Example C07_keeping_the_buffers_is_wrong). *)
Theorem C07_repricing_uses_own_paths :
  forall (garb : list (list Q) -> nat -> list Q) ps prev,
    price_seq garb false prev ps = map (fun p => map (std_row (p_payoff p) (p_path p) (p_df p) (p_notional p)) (seq 0 (p_n p))) ps.
Proof. exact price_seq_own_paths. Qed.
Example C07_keeping_the_buffers_is_wrong :
  price_seq recycling_garb true [] [w_pr 2; w_pr 1] = [[[1]; [2]]; [[1]; [2]]]
  /\ price_seq recycling_garb false [] [w_pr 2; w_pr 1] = [[[1]; [2]]; [[1]]].
Proof. exact keeping_the_buffers_is_wrong. Qed.

(* mc_stddev()^2, component j = unbiased sample variance of column j divided by the number of paths n
   (n >= 2; for n = 1 the code returns [0.0]) *)
Theorem C07_error_per_component :
  forall d rows j, (j < d)%nat -> (2 <= length rows)%nat ->
    length (mc_var_repaired d rows) = d /\
    nth j (mc_var_repaired d rows) 0
    == (Qsum (map sq (column j rows)) - qlen rows * sq (mean (column j rows))) / (qlen rows - 1) / qlen rows.
Proof. exact error_per_component_full. Qed.

(* mean(Y - b.(X - price)) = mean Y - b.(mean X - price) for ANY b; equal to mean Y when mean X = price *)
Theorem C07_cv_mean :
  forall n, (0 < n)%nat -> forall b p X Y,
    En n (cv_adj b p X Y) == En n Y - dotf b (fun k => En n (X k) - p k) 0
    /\ ((forall k, En n (X k) == p k) -> En n (cv_adj b p X Y) == En n Y).
Proof. exact cv_mean_full. Qed.

(* any number of controls: if b solves the normal equations Sigma_X b = Sigma_XY (what inv(Sigma_X) @ Sigma_XY
   is specified to return), var(adj) = var Y - var(b.X) <= var Y; the fall-back b = 0 leaves Y unchanged;
   the closed forms for one and two controls do solve the normal equations *)
Theorem C07_cv_variance :
  forall n, (0 < n)%nat -> forall b p X Y, normal_eq n b X Y ->
    Cn n (cv_adj b p X Y) (cv_adj b p X Y) == Cn n Y Y - Cn n (Zlin b X) (Zlin b X)
    /\ 0 <= Cn n (Zlin b X) (Zlin b X)
    /\ Cn n (cv_adj b p X Y) (cv_adj b p X Y) <= Cn n Y Y.
Proof. exact cv_variance. Qed.
Theorem C07_cv_fallback_is_raw : forall nc p X Y i, cv_adj (repeat 0 nc) p X Y i == Y i.
Proof. exact cv_adj_zero. Qed.
Theorem C07_cv_bstar_solves_normal_equations :
  forall n X Y, (0 < n)%nat ->
    (degenerate n (X 0%nat) = false -> normal_eq n (b_star1 n X Y) X Y)
    /\ (let a := Cn n (X 0%nat) (X 0%nat) in let c := Cn n (X 0%nat) (X 1%nat) in let d := Cn n (X 1%nat) (X 1%nat) in
        (degenerate n (X 0%nat) || degenerate n (X 1%nat))%bool = false -> ~ a * d - c * c == 0 ->
        normal_eq n (b_star2 n X Y) X Y).
Proof. exact b_star_normal. Qed.
(* composed: with the b the code computes for one / two controls (guard included) var(adj) <= var Y *)
Theorem C07_cv_variance_with_code_b :
  forall n p X Y, (0 < n)%nat ->
    Cn n (cv_adj (b_star1 n X Y) p X Y) (cv_adj (b_star1 n X Y) p X Y) <= Cn n Y Y
    /\ (~ Cn n (X 0%nat) (X 0%nat) * Cn n (X 1%nat) (X 1%nat) - Cn n (X 0%nat) (X 1%nat) * Cn n (X 0%nat) (X 1%nat) == 0 ->
        Cn n (cv_adj (b_star2 n X Y) p X Y) (cv_adj (b_star2 n X Y) p X Y) <= Cn n Y Y).
Proof. exact cv_variance_with_code_b. Qed.

(* ------------------------------------------------------------------ ANY number k of controls (Model/McCv.v) *)
(* b* IS the sample regression coefficient: a solution b of the normal equations minimises the sample variance of
   Y - b'.(X - p') over all coefficient vectors b' of that length and all centring prices;
   var(adj b') = var(adj b) + var((b' - b).X).  (b' = 0 gives var(adj) <= var Y again.) *)
Theorem C07_cv_optimal_any_k :
  forall n, (0 < n)%nat -> forall X Y b p b' p', normal_eq n b X Y -> length b' = length b ->
    Cn n (cv_adj b' p' X Y) (cv_adj b' p' X Y)
    == Cn n (cv_adj b p X Y) (cv_adj b p X Y) + Cn n (Zlin (vsub b' b) X) (Zlin (vsub b' b) X)
    /\ Cn n (cv_adj b p X Y) (cv_adj b p X Y) <= Cn n (cv_adj b' p' X Y) (cv_adj b' p' X Y).
Proof. exact cv_optimal. Qed.

(* for every k and every sample the normal equations have a solution (Sigma_XY is in the range of Sigma_X, also for
   collinear controls): the least-squares problem np.linalg.lstsq solves is consistent, its minimiser is an exact solution *)
Theorem C07_normal_equations_solvable :
  forall n, (0 < n)%nat -> forall X k Y, exists b, length b = k /\ normal_eq n b X Y.
Proof. exact normal_eq_solvable. Qed.

(* the specification of lstsq (solution of the normal equations of minimal norm on the correlation scale, written without
   square roots: Sigma b = Sigma_XY and diag(Sigma) b = Sigma w) determines b uniquely, collinear controls or not *)
Theorem C07_lstsq_spec_unique :
  forall n, (0 < n)%nat -> forall X Y b w b' w',
    lstsq_spec n b w X Y -> lstsq_spec n b' w' X Y -> length b = length b' ->
    (forall j, (j < length b)%nat -> 0 < Cn n (X j) (X j)) ->
    forall j, (j < length b)%nat -> nth j b 0 == nth j b' 0.
Proof. exact lstsq_spec_unique. Qed.

(* composed, for the b of the code (code_b: guard, else lstsq by specification), k controls: never more variance than the raw
   sample; when the guard does not fire, the least variance among all coefficient vectors, and b is unique *)
Theorem C07_cv_code_b_any_k :
  forall n k b p X Y, (0 < n)%nat -> code_b n k b X Y ->
    Cn n (cv_adj b p X Y) (cv_adj b p X Y) <= Cn n Y Y
    /\ (any_degenerate n k X = false ->
        (forall b' p', length b' = k -> Cn n (cv_adj b p X Y) (cv_adj b p X Y) <= Cn n (cv_adj b' p' X Y) (cv_adj b' p' X Y))
        /\ (forall b', code_b n k b' X Y -> forall j, (j < k)%nat -> nth j b 0 == nth j b' 0)).
Proof. exact cv_code_b_general. Qed.

(* EXISTENCE of lstsq's answer, any number k of controls, collinear or not: when every control has positive sample variance
   there are b and a certificate w meeting the specification (Sigma b = Sigma_XY, diag(Sigma) b = Sigma w).  Proof: Gram-Schmidt
   for an abstract positive semi-definite form, instantiated with <u,v> = sum_l u_l v_l / Sigma_ll on the columns of Sigma_X. *)
Theorem C07_lstsq_answer_exists :
  forall n, (0 < n)%nat -> forall X Y k, (forall j, (j < k)%nat -> 0 < Cn n (X j) (X j)) ->
    exists b w, length b = k /\ lstsq_spec n b w X Y.
Proof. exact lstsq_spec_exists. Qed.

(* the same in the form audit5a B10 asks for: the lstsq branch of code_b is inhabited whenever the guard does not fire (corollary) *)
Theorem C07_lstsq_answer_exists_nondegenerate :
  forall n X Y k, (0 < n)%nat -> any_degenerate n k X = false -> exists b w, length b = k /\ lstsq_spec n b w X Y.
Proof. exact lstsq_answer_exists_nondegenerate. Qed.

(* C07_cv_code_b_any_k WITHOUT its hypothesis `code_b n k b X Y` (discharged by C07_code_b_exists_unique): for every sample and k
   there is a coefficient vector meeting the code's specification; it never has more variance than the raw sample and, guard not
   firing, the least variance over all b', p'.  This is about the EXACT b (over Q).  numpy's float lstsq works on the rounded
   correlation matrix with rcond = k*eps: on NEARLY collinear controls (relative determinant below ~1e-9) it drops a direction and
   keeps variance the exact b would remove (audit5a: 4.405 of 4.412); `least variance` is then false of the returned b, `<= var Y`
   still holds (oracle, every case).  The harness measures the excess over the exact minimum on every regular component. *)
Theorem C07_cv_code_b_unconditional :
  forall n k X Y, (0 < n)%nat ->
    exists b, code_b n k b X Y
      /\ (forall p, Cn n (cv_adj b p X Y) (cv_adj b p X Y) <= Cn n Y Y)
      /\ (any_degenerate n k X = false ->
          forall p b' p', length b' = k -> Cn n (cv_adj b p X Y) (cv_adj b p X Y) <= Cn n (cv_adj b' p' X Y) (cv_adj b' p' X Y)).
Proof. exact cv_code_b_unconditional. Qed.

(* hence: for EVERY sample and every k the specification of helper_compute_coefficients (guard -> 0, else lstsq) is met by
   exactly one coefficient vector -- "the b* of the code" is well defined without looking at a particular run *)
Theorem C07_code_b_exists_unique :
  forall n k X Y, (0 < n)%nat ->
    exists b, code_b n k b X Y /\ forall b', code_b n k b' X Y -> forall j, (j < k)%nat -> nth j b 0 == nth j b' 0.
Proof. exact code_b_exists_unique. Qed.

(* the boolean check the vm_compute correspondence evaluates on every replayed run implies code_b *)
Theorem C07_code_b_check_sound : forall n k b w X Y, code_bb n k b w X Y = true -> code_b n k b X Y.
Proof. exact code_bb_sound. Qed.

(* non-vacuity: three COLLINEAR controls {forward, call K=3, put K=3} (forward = call - put + 3) on five paths, payoff call K=2:
   Sigma_X is singular (null vector (1,-1,1)), the specification is met by b = (441/1240, 861/1240, -21/124) *)
Definition ex_xs : list (list Q) := [[1; 0; 2]; [2; 0; 1]; [3; 0; 0]; [4; 1; 0]; [6; 3; 0]].
Definition ex_y : list Q := [0; 0; 1; 2; 4].
Example C07_three_collinear_controls :
  code_bb 5 3 [441 # 1240; 861 # 1240; -21 # 124] [-29631 # 62000; 83139 # 62000; 0] (tabX ex_xs) (tabY ex_y) = true
  /\ (forall j, (j < 3)%nat -> sigma_row 5 (tabX ex_xs) [1; -1; 1] j == 0)
  /\ Cn 5 (cv_adj [441 # 1240; 861 # 1240; -21 # 124] (fun _ => 0) (tabX ex_xs) (tabY ex_y))
          (cv_adj [441 # 1240; 861 # 1240; -21 # 124] (fun _ => 0) (tabX ex_xs) (tabY ex_y)) < Cn 5 (tabY ex_y) (tabY ex_y).
Proof. split; [vm_compute; reflexivity|]. split; [|vm_compute; reflexivity].
  intros j Hj. destruct j as [|[|[|j]]]; [vm_compute; reflexivity..|]. exfalso. lia. Qed.

(* non-vacuity of C07_lstsq_answer_exists / C07_code_b_exists_unique on the same singular sample: no control is degenerate
   (all three variances positive), so the unique b of the theorem is the vector above *)
Example C07_collinear_sample_has_unique_b :
  any_degenerate 5 3 (tabX ex_xs) = false
  /\ (forall j, (j < 3)%nat -> 0 < Cn 5 (tabX ex_xs j) (tabX ex_xs j))
  /\ (forall b', code_b 5 3 b' (tabX ex_xs) (tabY ex_y) -> forall j, (j < 3)%nat -> nth j [441 # 1240; 861 # 1240; -21 # 124] 0 == nth j b' 0).
Proof. split; [vm_compute; reflexivity|]. split.
  - intros j Hj. destruct j as [|[|[|j]]]; [vm_compute; reflexivity..|]. exfalso. lia.
  - assert (Hc : code_b 5 3 [441 # 1240; 861 # 1240; -21 # 124] (tabX ex_xs) (tabY ex_y)).
    { apply (code_bb_sound 5 3 _ [-29631 # 62000; 83139 # 62000; 0]). vm_compute. reflexivity. }
    assert (H5 : (0 < 5)%nat) by lia.
    assert (G : any_degenerate 5 3 (tabX ex_xs) = false) by (vm_compute; reflexivity).
    exact (proj2 (proj2 (cv_code_b_general 5 3 _ (fun _ => 0) (tabX ex_xs) (tabY ex_y) H5 Hc) G)). Qed.

(* ------------------------------------------------------------------ both branches of the loop, spot statistics, n = 0 / 1, get_variance
   (Model/McStdFull.v) *)
(* the callback of the multi-process branch (and the single-process loop, its instance): for ALL orders / chunkings / repetitions
   `its` of the delivered results, every assignment sigma of draws to iteration indices and every np.empty content, row it of
   the payoff statistics is df*notional*payoff(path_(sigma it)), row it of the spot statistics (when on) is the spot of the same path.
   (sigma is bookkeeping: the statement is the single-process one for the path function path o sigma; the content is the
   independence of `its`.  Indices >= n are excluded by hypothesis -- numpy raises IndexError, the model's set_nth drops them.) *)
Theorem C07_merge_any_order :
  forall payoff path df notional spot_on its sigma g1 g2 n,
    length g1 = n -> length g2 = n -> Forall (fun it => (it < n)%nat) its -> (forall k, (k < n)%nat -> In k its) ->
    let s := mc_engine payoff path df notional spot_on its sigma g1 g2 in
    st_pay s = map (fun it => std_row payoff path df notional (sigma it)) (seq 0 n)
    /\ st_spot s = (if spot_on then Some (map (fun it => [path (sigma it)]) (seq 0 n)) else None).
Proof. exact merge_any_order. Qed.

(* CONDITIONAL on the pool: IF sigma permutes 0..n-1 (every simulated path handed to exactly one iteration index) the multi-process
   rows are a permutation of the single-process rows and price(), mc_stddev()^2 are the same numbers (over Q), per component.
   The hypothesis is about `path`, the values of the simulated paths by draw number.  It is discharged (observed, by a draw-number
   tag) ONLY on the harness's shared-counter scripted process.  For a real fixed-date process it does not describe the run: every
   chunk of map_async re-uses the same pre-drawn variates (known finding F-C08-3 of C08; 64 paths, 2 workers: 8 distinct spot values
   8 times each), so the pool's rows are NOT a permutation of a single-process run's rows and mc_stddev() is reported as for n
   independent paths.  The rest is C07_statistics_permutation_invariant transported along C07_merge_any_order. *)
Theorem C07_multiprocess_same_statistics :
  forall payoff path df notional spot_on its sigma g1 g2 g1' g2' n d j,
    length g1 = n -> length g2 = n -> length g1' = n -> length g2' = n ->
    Forall (fun it => (it < n)%nat) its -> (forall k, (k < n)%nat -> In k its) ->
    Permutation (map sigma (seq 0 n)) (seq 0 n) -> (j < d)%nat ->
    let rows := st_pay (mc_engine payoff path df notional spot_on its sigma g1 g2) in
    let rows1 := st_pay (mc_engine payoff path df notional spot_on (seq 0 n) (fun i => i) g1' g2') in
    Permutation rows rows1
    /\ nth j (price_reported d rows) 0 == nth j (price_reported d rows1) 0
    /\ (forall e e1, mc_stddev2_reported d rows = Some e -> mc_stddev2_reported d rows1 = Some e1 -> nth j e 0 == nth j e1 0)
    /\ (exists e e1, mc_stddev2_reported d rows = Some e /\ mc_stddev2_reported d rows1 = Some e1 /\ length e = d /\ length e1 = d).
Proof. exact multiprocess_same_statistics. Qed.

(* price, error^2 and variance are functions of each column as a multiset *)
Theorem C07_statistics_permutation_invariant :
  forall d rows rows' j, Permutation rows rows' -> (j < d)%nat ->
    nth j (std_price d rows) 0 == nth j (std_price d rows') 0
    /\ nth j (mc_var_repaired d rows) 0 == nth j (mc_var_repaired d rows') 0
    /\ nth j (map var_unbiased (columns d rows)) 0 == nth j (map var_unbiased (columns d rows')) 0.
Proof. exact stats_perm. Qed.

(* fewer than two paths, on the repaired tree (/repo 380d7c7, F-C07-6 fixed): mc_paths = 0: price() and mc_stddev() are 0 per component,
   get_variance() has no value (nan); mc_paths = 1: price() is the single discounted payoff, mc_stddev() and get_variance() are 0 per
   component.  The row and price clauses are theorems about the loop; the mc_stddev / get_variance clauses read the match arms of
   mc_stddev2_reported / get_variance_reported (DEFINITIONAL: their content is the tie on the n = 0, 1 cases). *)
Theorem C07_engine_small_n :
  forall payoff path df notional spot_on g1 g2 d j,
    (forall i, length (payoff (path i)) = d) -> (j < d)%nat ->
    (length g1 = 0%nat -> length g2 = 0%nat ->
       let rows := st_pay (mc_engine payoff path df notional spot_on (seq 0 0) (fun i => i) g1 g2) in
       rows = [] /\ nth j (price_reported d rows) 0 == 0 /\ length (price_reported d rows) = d
       /\ mc_stddev2_reported d rows = Some (repeat 0 d) /\ get_variance_reported d rows = None)
    /\ (length g1 = 1%nat -> length g2 = 1%nat ->
       let rows := st_pay (mc_engine payoff path df notional spot_on (seq 0 1) (fun i => i) g1 g2) in
       rows = [std_row payoff path df notional 0%nat]
       /\ nth j (price_reported d rows) 0 == df * notional * nth j (payoff (path 0%nat)) 0
       /\ mc_stddev2_reported d rows = Some (repeat 0 d) /\ get_variance_reported d rows = Some (repeat 0 d)).
Proof. exact engine_small_n. Qed.

(* one error per payoff component for EVERY number of paths, 0 and 1 included (small, by cases on the reported value) *)
Theorem C07_error_one_per_component_any_n :
  forall d rows, exists e, mc_stddev2_reported d rows = Some e /\ length e = d.
Proof. exact stddev2_one_per_component. Qed.

(* F-C07-6, FIXED: before the repair one path with d = 2 components gave ONE error number, no path gave none (AttributeError);
   pre-repair definition mc_stddev2_reported_orig against the current one on the same inputs *)
Example C07_error_per_component_before_repair :
  (length (price_reported 2 [[2; 1]]) = 2%nat /\ mc_stddev2_reported_orig 2 [[2; 1]] = Some [0]
     /\ mc_stddev2_reported 2 [[2; 1]] = Some [0; 0])
  /\ (mc_stddev2_reported_orig 3 [] = None /\ length (price_reported 3 []) = 3%nat /\ mc_stddev2_reported 3 [] = Some [0; 0; 0]).
Proof. exact error_per_component_before_repair. Qed.

(* n >= 2: get_variance() is the unbiased sample variance per component and mc_stddev()^2 is get_variance() / n *)
Theorem C07_get_variance_textbook :
  forall d rows j, (j < d)%nat -> (2 <= length rows)%nat ->
    exists v e, get_variance_reported d rows = Some v /\ mc_stddev2_reported d rows = Some e
      /\ length v = d /\ length e = d
      /\ nth j v 0 == (Qsum (map sq (column j rows)) - qlen rows * sq (mean (column j rows))) / (qlen rows - 1)
      /\ nth j e 0 == nth j v 0 / qlen rows.
Proof. exact get_variance_textbook. Qed.

(* non-vacuity: 3 paths handed out by a pool as sigma = (2,0,1), results delivered in the order 1,2,0,1 (one repeated), spot on *)
Example C07_two_process_run :
  let s := mc_engine (fun x => [x; x - 1]) (fun k => inject_Z (Z.of_nat k) + 1) 1 1 true [1; 2; 0; 1]%nat
                     (fun it => nth it [2; 0; 1]%nat 0%nat) [[7; 7]; [7; 7]; [7; 7]] [[7]; [7]; [7]] in
  st_pay s = [[3; 2]; [1; 0]; [2; 1]] /\ st_spot s = Some [[3]; [1]; [2]]
  /\ Permutation (map (fun it => nth it [2; 0; 1]%nat 0%nat) (seq 0 3)) (seq 0 3)
  /\ price_reported 2 (st_pay s) = [2; 1] /\ opt_close 0 (get_variance_reported 2 (st_pay s)) (Some [1; 1]) = true
  /\ opt_close 0 (mc_stddev2_reported 2 (st_pay s)) (Some [1 # 3; 1 # 3]) = true.
Proof. split; [vm_compute; reflexivity|]. split; [vm_compute; reflexivity|]. split.
  - simpl. apply Permutation_sym. apply (perm_trans (l' := [1; 0; 2]%nat)); [apply perm_swap|].
    apply (perm_trans (l' := [1; 2; 0]%nat)); [apply perm_skip, perm_swap|]. apply (perm_trans (l' := [2; 1; 0]%nat)); [apply perm_swap|].
    apply perm_skip. apply perm_swap.
  - split; [vm_compute; reflexivity|]. split; vm_compute; reflexivity. Qed.

(* ------------------------------------------------------------------ control variates in both branches of the loop (Model/McStdCv.v) *)
(* MCStatistics.add stores the payoff row and the control rows of the path the path manager holds at the same index: for ALL
   delivery orders / chunkings / repetitions, every assignment sigma and every np.empty content, row `it` of the payoff table and
   row `it` of the control table belong to the SAME draw sigma it *)
Theorem C07_cv_tables_any_order :
  forall (ycol : nat -> Q) (crow : nat -> list Q) its sigma gy gx n,
    length gy = n -> length gx = n -> Forall (fun it => (it < n)%nat) its -> (forall k, (k < n)%nat -> In k its) ->
    mpcv_engine ycol crow its sigma gy gx
    = (map (fun it => ycol (sigma it)) (seq 0 n), map (fun it => crow (sigma it)) (seq 0 n)).
Proof. exact mpcv_merge_any_order. Qed.

(* CONDITIONAL on the pool exactly as C07_multiprocess_same_statistics (sigma permutes 0..n-1: true of the shared-counter scripted
   process, where it is observed through a draw-number tag on every run; false of a real fixed-date process, F-C08-3): then a
   coefficient vector meeting the code's specification on the multi-process tables meets it on the single-process tables, and the
   control-variate price and sample variance are the same numbers (over Q; the harness compares floats at 1e-9) *)
Theorem C07_cv_multiprocess_same :
  forall n, (0 < n)%nat -> forall sigma, Permutation (map sigma (seq 0 n)) (seq 0 n) ->
  forall X Y k b p, code_b n k b (permX sigma X) (permY sigma Y) ->
    code_b n k b X Y
    /\ En n (cv_adj b p (permX sigma X) (permY sigma Y)) == En n (cv_adj b p X Y)
    /\ Cn n (cv_adj b p (permX sigma X) (permY sigma Y)) (cv_adj b p (permX sigma X) (permY sigma Y))
       == Cn n (cv_adj b p X Y) (cv_adj b p X Y).
Proof. exact cv_multiprocess_same. Qed.
Theorem C07_cv_multiprocess_same_b :
  forall n k sigma X Y b b1, (0 < n)%nat -> Permutation (map sigma (seq 0 n)) (seq 0 n) ->
    code_b n k b (permX sigma X) (permY sigma Y) -> code_b n k b1 X Y -> any_degenerate n k X = false ->
    forall j, (j < k)%nat -> nth j b 0 == nth j b1 0.
Proof. exact cv_multiprocess_same_b. Qed.

(* non-vacuity: the collinear five-path sample above, handed out by a pool as sigma = (2,0,4,1,3), results delivered in the order
   3,0,4,1,2,0: the tables are the permuted sample, and the SAME b meets the specification on them *)
Example C07_cv_three_process_run :
  let sg := fun it => nth it [2; 0; 4; 1; 3]%nat 0%nat in
  mpcv_engine (tabY ex_y) (fun dr => nth dr ex_xs []) [3; 0; 4; 1; 2; 0]%nat sg (repeat (9 # 7) 5) (repeat [9 # 7; 9 # 7; 9 # 7] 5)
    = ([1; 0; 4; 0; 2], [[3; 0; 0]; [1; 0; 2]; [6; 3; 0]; [2; 0; 1]; [4; 1; 0]])
  /\ code_bb 5 3 [441 # 1240; 861 # 1240; -21 # 124] [-29631 # 62000; 83139 # 62000; 0] (permX sg (tabX ex_xs)) (permY sg (tabY ex_y)) = true.
Proof. split; vm_compute; reflexivity. Qed.

(* non-vacuity / behaviour before the repair of mc_stddev (F-C07-1): two paths, two components *)
Example C07_error_vector_before_repair :
  let rows := [[0; 0]; [2; 2]] in
  nth 0 (mc_var_old 2 rows) 0 == 1 # 2 /\ nth 0 (mc_var_repaired 2 rows) 0 == 1.
Proof. exact error_vector_before_repair. Qed.

Print Assumptions C07_price_is_df_mean.
Print Assumptions C07_repricing_uses_own_paths.
Print Assumptions C07_keeping_the_buffers_is_wrong.
Print Assumptions C07_error_per_component.
Print Assumptions C07_cv_mean.
Print Assumptions C07_cv_variance.
Print Assumptions C07_cv_fallback_is_raw.
Print Assumptions C07_cv_bstar_solves_normal_equations.
Print Assumptions C07_cv_variance_with_code_b.
Print Assumptions C07_cv_optimal_any_k.
Print Assumptions C07_normal_equations_solvable.
Print Assumptions C07_lstsq_spec_unique.
Print Assumptions C07_cv_code_b_any_k.
Print Assumptions C07_lstsq_answer_exists.
Print Assumptions C07_lstsq_answer_exists_nondegenerate.
Print Assumptions C07_cv_code_b_unconditional.
Print Assumptions C07_code_b_exists_unique.
Print Assumptions C07_code_b_check_sound.
Print Assumptions C07_three_collinear_controls.
Print Assumptions C07_collinear_sample_has_unique_b.
Print Assumptions C07_merge_any_order.
Print Assumptions C07_multiprocess_same_statistics.
Print Assumptions C07_statistics_permutation_invariant.
Print Assumptions C07_engine_small_n.
Print Assumptions C07_error_one_per_component_any_n.
Print Assumptions C07_error_per_component_before_repair.
Print Assumptions C07_get_variance_textbook.
Print Assumptions C07_two_process_run.
Print Assumptions C07_cv_tables_any_order.
Print Assumptions C07_cv_multiprocess_same.
Print Assumptions C07_cv_multiprocess_same_b.
Print Assumptions C07_cv_three_process_run.
Print Assumptions C07_error_vector_before_repair.

(* C07 -- standard Monte-Carlo price, error and control-variate adjustment are textbook.
   Only statements; proofs in Proofs/C07_McStats.v, model in Model/McStats.v.
   The model follows the repaired tree (fix-mc: dee7ba4 mc_stddev divides by sqrt(shape[0]);
   f813372 every control is centred on its own price; fix-mc3 aaa3e1f scale-relative degenerate-control guard). *)
From Coq Require Import List ZArith QArith Qabs Bool.
From RV Require Import Base.QB Model.McStats Proofs.C07_StatsLemmas Proofs.C07_McStats.
Import ListNotations.
Open Scope Q_scope.

(* Engine.price: whatever the np.empty array contained, after the loop row i is df*notional*payoff(path_i),
   every path exactly once and in order, and price() is df * notional * mean(payoff), per component *)
Theorem C07_price_is_df_mean :
  forall (payoff : Q -> list Q) (path : nat -> Q) df notional n init d j,
    length init = n -> (forall i, length (payoff (path i)) = d) -> (j < d)%nat ->
    std_engine payoff path df notional n init = map (std_row payoff path df notional) (seq 0 n)
    /\ nth j (std_price d (std_engine payoff path df notional n init)) 0
       == df * notional * mean (map (fun i => nth j (payoff (path i)) 0) (seq 0 n)).
Proof. exact price_is_df_mean_full. Qed.

(* Engine.price called repeatedly on ONE engine (other path count, other product).  The engine's statistics are STATE; the
   model has both behaviours of initialisation (keep = false: the code, a new MCStatistics whose np.empty content is an
   arbitrary oracle of the previous rows; keep = true: keep the buffers and only extend them).  For the code's branch every
   pricing holds exactly its own p_n paths, each once, whatever the garbage oracle and the previous state; the other
   branch does not (Example C07_keeping_the_buffers_is_wrong). *)
Theorem C07_repricing_uses_own_paths :
  forall (garb : list (list Q) -> nat -> list Q) ps prev,
    price_seq garb false prev ps = map (fun p => map (std_row (p_payoff p) (p_path p) (p_df p) (p_notional p)) (seq 0 (p_n p))) ps.
Proof. exact price_seq_own_paths. Qed.
Example C07_keeping_the_buffers_is_wrong :
  price_seq recycling_garb true [] [w_pr 2; w_pr 1] = [[[1]; [2]]; [[1]; [2]]]
  /\ price_seq recycling_garb false [] [w_pr 2; w_pr 1] = [[[1]; [2]]; [[1]]].
Proof. exact keeping_the_buffers_is_wrong. Qed.

(* mc_stddev()^2, component j = unbiased sample variance of column j divided by the number of paths n
   (n >= 2; for n = 1 the code returns [0.0]) *)
Theorem C07_error_per_component :
  forall d rows j, (j < d)%nat -> (2 <= length rows)%nat ->
    length (mc_var_repaired d rows) = d /\
    nth j (mc_var_repaired d rows) 0
    == (Qsum (map sq (column j rows)) - qlen rows * sq (mean (column j rows))) / (qlen rows - 1) / qlen rows.
Proof. exact error_per_component_full. Qed.

(* mean(Y - b.(X - price)) = mean Y - b.(mean X - price) for ANY b; equal to mean Y when mean X = price *)
Theorem C07_cv_mean :
  forall n, (0 < n)%nat -> forall b p X Y,
    En n (cv_adj b p X Y) == En n Y - dotf b (fun k => En n (X k) - p k) 0
    /\ ((forall k, En n (X k) == p k) -> En n (cv_adj b p X Y) == En n Y).
Proof. exact cv_mean_full. Qed.

(* any number of controls: if b solves the normal equations Sigma_X b = Sigma_XY (what inv(Sigma_X) @ Sigma_XY
   is specified to return), var(adj) = var Y - var(b.X) <= var Y; the fall-back b = 0 leaves Y unchanged;
   the closed forms for one and two controls do solve the normal equations *)
Theorem C07_cv_variance :
  forall n, (0 < n)%nat -> forall b p X Y, normal_eq n b X Y ->
    Cn n (cv_adj b p X Y) (cv_adj b p X Y) == Cn n Y Y - Cn n (Zlin b X) (Zlin b X)
    /\ 0 <= Cn n (Zlin b X) (Zlin b X)
    /\ Cn n (cv_adj b p X Y) (cv_adj b p X Y) <= Cn n Y Y.
Proof. exact cv_variance. Qed.
Theorem C07_cv_fallback_is_raw : forall nc p X Y i, cv_adj (repeat 0 nc) p X Y i == Y i.
Proof. exact cv_adj_zero. Qed.
Theorem C07_cv_bstar_solves_normal_equations :
  forall n X Y, (0 < n)%nat ->
    (degenerate n (X 0%nat) = false -> normal_eq n (b_star1 n X Y) X Y)
    /\ (let a := Cn n (X 0%nat) (X 0%nat) in let c := Cn n (X 0%nat) (X 1%nat) in let d := Cn n (X 1%nat) (X 1%nat) in
        (degenerate n (X 0%nat) || degenerate n (X 1%nat))%bool = false -> ~ a * d - c * c == 0 ->
        normal_eq n (b_star2 n X Y) X Y).
Proof. exact b_star_normal. Qed.
(* composed: with the b the code computes for one / two controls (guard included) var(adj) <= var Y *)
Theorem C07_cv_variance_with_code_b :
  forall n p X Y, (0 < n)%nat ->
    Cn n (cv_adj (b_star1 n X Y) p X Y) (cv_adj (b_star1 n X Y) p X Y) <= Cn n Y Y
    /\ (~ Cn n (X 0%nat) (X 0%nat) * Cn n (X 1%nat) (X 1%nat) - Cn n (X 0%nat) (X 1%nat) * Cn n (X 0%nat) (X 1%nat) == 0 ->
        Cn n (cv_adj (b_star2 n X Y) p X Y) (cv_adj (b_star2 n X Y) p X Y) <= Cn n Y Y).
Proof. exact cv_variance_with_code_b. Qed.

(* non-vacuity / behaviour before the repair of mc_stddev (F-C07-1): two paths, two components *)
Example C07_error_vector_before_repair :
  let rows := [[0; 0]; [2; 2]] in
  nth 0 (mc_var_old 2 rows) 0 == 1 # 2 /\ nth 0 (mc_var_repaired 2 rows) 0 == 1.
Proof. exact error_vector_before_repair. Qed.

Print Assumptions C07_price_is_df_mean.
Print Assumptions C07_repricing_uses_own_paths.
Print Assumptions C07_error_per_component.
Print Assumptions C07_cv_mean.
Print Assumptions C07_cv_variance.
Print Assumptions C07_cv_fallback_is_raw.
Print Assumptions C07_cv_bstar_solves_normal_equations.
Print Assumptions C07_cv_variance_with_code_b.
Print Assumptions C07_error_vector_before_repair.

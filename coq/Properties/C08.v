(* C08 -- Randomness discipline: seeded runs repeat; no two samples share random variates.
   Only statements; the model is Model/Rng.v (tied to /repo by RNG tracing, harness/props/C08.py),
   the proofs are in Proofs/C08_Rng.v.

   Vocabulary: a variate is a position (python stream?, seed id, index); `init g` is the state of a
   process whose generators are in the ambient state g and whose deques hold no rows; std_ops /
   mlc_ops / mlp_ops are the instruction lists of Engine.price (standard), of
   price_with_constant_mc_paths_and_level and of the adaptive price (multilevel) for
   nb_of_processes = 1, for a seed option, a clock value t, a mode (fixed-date with nb dates and
   dimension d, or jump-time), and an explicit schedule (fresh draws of every sample; level/pass
   history); `consumed` = all positions used by the samples, in order. *)
From Coq Require Import ZArith List Bool Lia.
From RV Require Import Model.Rng Model.RngSim Model.RngMlPool Model.RngRuns Proofs.C08_Rng Proofs.C08_Sim Proofs.C08_MlPool Proofs.C08_Runs.
Import ListNotations.
Open Scope Z_scope.

(* nb_of_processes = 1, every configuration, schedule and history, every ambient state:
   (1) no position is used twice (by two samples or twice by one), (2) no pre-drawn row is popped
   twice, (3) the generators are seeded exactly once, with the configured seed (or the clock value),
   as the very first event, (4) no seed event follows a draw from the same seed id, (5) the variates
   compared by the coupling decisions (EUse events: one per variate of a draw made inside
   coupling_state) are pairwise different positions over the whole run -- all levels and passes. *)
Theorem C08_single_process_disjoint : forall seed t m g,
  (forall ss, disciplined (std_ops seed t m ss) (init g) (seed_choice seed false t))
  /\ (forall n0 levels, disciplined (mlc_ops seed t m n0 levels) (init g) (seed_choice seed false t))
  /\ (forall n0 passes, disciplined (mlp_ops seed t m n0 passes) (init g) (seed_choice seed false t)).
Proof. exact single_process_disjoint. Qed.

(* the pairwise reading of (1): two different samples of a disciplined run share no position *)
Theorem C08_samples_pairwise_disjoint : forall ops st s, disciplined ops st s ->
  forall l1 a l2 b l3 p, samples ops st = l1 ++ a :: l2 ++ b :: l3 -> In p (snd a) -> ~ In p (snd b).
Proof. exact samples_pairwise_disjoint. Qed.

(* standard engine and constant multilevel run (at least one level, mc_paths samples per level as
   the engine's loops produce): every pre-drawn row is consumed exactly once (created tags = popped
   tags, no tag popped twice, nothing left in the deques that were used, no pop on an empty deque) *)
Theorem C08_rows_exactly_once : forall seed t nb d g,
  (forall ss, rows_exactly_once (std_ops seed t (mkMode true nb d) ss) (init g) 0)
  /\ (forall levels n0, levels <> [] -> Forall (fun ss => len ss = n0) levels ->
        rows_exactly_once (mlc_ops seed t (mkMode true nb d) n0 levels) (init g) 1).
Proof. exact rows_exactly_once_engines. Qed.

(* with a seed and a GIVEN schedule/history (the same in both runs), the whole trace is the same from
   any two ambient generator states.  This is immediate from the model (the first instruction
   overwrites the generator, the deques start empty); that the schedule itself repeats is the content
   of C08_std_seeded_repeatable_derived (standard engine) and C08_seeded_repeatable_adaptive. *)
Theorem C08_seeded_repeatable : forall s t m g1 g2,
  (forall ss, events (std_ops (Some s) t m ss) (init g1) = events (std_ops (Some s) t m ss) (init g2)
              /\ samples (std_ops (Some s) t m ss) (init g1) = samples (std_ops (Some s) t m ss) (init g2))
  /\ (forall n0 lv, events (mlc_ops (Some s) t m n0 lv) (init g1) = events (mlc_ops (Some s) t m n0 lv) (init g2)
              /\ samples (mlc_ops (Some s) t m n0 lv) (init g1) = samples (mlc_ops (Some s) t m n0 lv) (init g2))
  /\ (forall n0 ps, events (mlp_ops (Some s) t m n0 ps) (init g1) = events (mlp_ops (Some s) t m n0 ps) (init g2)
              /\ samples (mlp_ops (Some s) t m n0 ps) (init g1) = samples (mlp_ops (Some s) t m n0 ps) (init g2)).
Proof. exact seeded_repeatable. Qed.

(* NOT definitional: the run may start from ANY state of the process object -- generators anywhere, deques holding
   whatever rows a previous pricing left behind (f1, f2 arbitrary; same creation counter c: the tracer numbers deques from
   the start of the run).  A seeded run of each engine has the same events and samples from any two such states.  The
   proof needs the discipline `lin` (a fixed-date sample pops only rows the run itself pre-drew): an engine that kept old
   rows would falsify it -- C08_leftover_rows_matter_refuted. *)
Theorem C08_engines_forget_state : forall s t m g1 g2 c f1 f2,
  (forall ss, events (std_ops (Some s) t m ss) (mkSt g1 c f1) = events (std_ops (Some s) t m ss) (mkSt g2 c f2)
              /\ samples (std_ops (Some s) t m ss) (mkSt g1 c f1) = samples (std_ops (Some s) t m ss) (mkSt g2 c f2))
  /\ (forall n0 lv, events (mlc_ops (Some s) t m n0 lv) (mkSt g1 c f1) = events (mlc_ops (Some s) t m n0 lv) (mkSt g2 c f2)
              /\ samples (mlc_ops (Some s) t m n0 lv) (mkSt g1 c f1) = samples (mlc_ops (Some s) t m n0 lv) (mkSt g2 c f2))
  /\ (forall n0 ps, events (mlp_ops (Some s) t m n0 ps) (mkSt g1 c f1) = events (mlp_ops (Some s) t m n0 ps) (mkSt g2 c f2)
              /\ samples (mlp_ops (Some s) t m n0 ps) (mkSt g1 c f1) = samples (mlp_ops (Some s) t m n0 ps) (mkSt g2 c f2)).
Proof. exact engines_forget_state. Qed.
Theorem C08_leftover_rows_matter_refuted :
  exists s ops g c f1 f2, events (OSeed s :: ops) (mkSt g c f1) <> events (OSeed s :: ops) (mkSt g c f2).
Proof. exact leftover_rows_matter_refuted. Qed.

(* the same with the schedule DERIVED by the run itself from the values of the variates: val (the generators as
   functions of the position) and nxt (the sampler/coupling logic of a sample: next fresh draw given the values seen so
   far, the popped Poisson row first) are arbitrary.  Two seeded standard-engine runs from two arbitrary states derive the
   same schedule, have the same events and the same values in every sample.  (Before the fix the derived schedules
   differ: C08_std_derived_orig_refuted.) *)
Theorem C08_std_seeded_repeatable_derived : forall val nxt fuel s t m n g1 g2 c f1 f2,
  let st1 := mkSt g1 c f1 in let st2 := mkSt g2 c f2 in
  let ss1 := std_derived_from val nxt fuel (Some s) t m n st1 in
  let ss2 := std_derived_from val nxt fuel (Some s) t m n st2 in
  ss1 = ss2
  /\ len ss1 = Z.of_nat n
  /\ events (std_ops (Some s) t m ss1) st1 = events (std_ops (Some s) t m ss2) st2
  /\ map (fun sm => map val (snd sm)) (samples (std_ops (Some s) t m ss1) st1)
     = map (fun sm => map val (snd sm)) (samples (std_ops (Some s) t m ss2) st2).
Proof. exact std_seeded_repeatable_derived. Qed.

(* any engine, arbitrary adaptive decisions D (instructions, schedules, levels, passes as functions of the history) taken
   within the discipline (garun stops at an instruction that violates it), from two arbitrary states: once the first
   instruction is the seed, the instructions chosen, the events and the samples are the same *)
Theorem C08_seeded_adaptive_forgets_state : forall D fuel s c g1 g2 f1 f2,
  garun fuel D (fst (step (mkSt g1 c f1) (OSeed s))) [OSeed s] [ESeed s] None
  = garun fuel D (fst (step (mkSt g2 c f2) (OSeed s))) [OSeed s] [ESeed s] None.
Proof. exact seeded_adaptive_forgets_state. Qed.

(* any engine: D, an arbitrary function of the instructions executed and of the events so far (with
   their positions, hence the values), chooses every instruction -- schedules, levels, passes.  If the
   first instruction is the seed (all three engine models start with OSeed), the instructions chosen,
   the events and the samples do not depend on the ambient generator state; and an adaptive run is the
   run of the instructions it chose, so the theorems above apply to it. *)
Theorem C08_seeded_repeatable_adaptive : forall D fuel s g1 g2,
  D [] [] = Some (OSeed s) -> arun fuel D (init g1) [] [] = arun fuel D (init g2) [] [].
Proof. exact seeded_repeatable_adaptive. Qed.
Theorem C08_adaptive_run_is_run : forall fuel D st oh hist,
  exists chosen, arun fuel D st oh hist = (oh ++ chosen, hist ++ events chosen st, samples chosen st).
Proof. exact arun_is_run. Qed.

(* no pop on an empty deque (IndexError in Python): standard engine and adaptive multilevel price for
   every schedule/history and mode; constant multilevel run when every level simulates n0 samples *)
Theorem C08_no_underflow : forall seed t m g,
  (forall ss, underflows (events (std_ops seed t m ss) (init g)) = O)
  /\ (forall n0 passes, underflows (events (mlp_ops seed t m n0 passes) (init g)) = O)
  /\ (forall nb d n0 levels, Forall (fun ss => len ss = n0) levels ->
        underflows (events (mlc_ops seed t (mkMode true nb d) n0 levels) (init g)) = O)
  /\ (forall nb d n0 levels, underflows (events (mlc_ops seed t (mkMode false nb d) n0 levels) (init g)) = O).
Proof. exact no_underflow. Qed.

(* worker pool of the standard engine, jump-time mode (no pre-drawn rows).  Every worker seeds itself
   with seed_of pid now = pid * 2^32 + now (repaired tree: np.random.seed([pid, now])): distinct
   processes get distinct seed ids, so for every assignment of chunks to workers all samples use
   disjoint positions.  General form: any pairwise different worker seeds. *)
Theorem C08_pool_jump_mode_disjoint : forall g0 nb d n pids now chunks,
  NoDup pids -> Forall (fun c : nat * list sched => (fst c < length pids)%nat) chunks ->
  NoDup (flat_map snd (snd (pool_run_pids g0 (mkMode false nb d) n pids now chunks))).
Proof. exact pool_jump_mode_disjoint_pids. Qed.
(* successive pools of one run (the multilevel engine builds one pool per level and pass), jump-time mode: if the
   (pid, clock) pairs of all workers of all pools are pairwise different -- a pid may recur in another second, a second
   may serve several pools with different pids -- all samples of all pools use disjoint positions.  That the OS does not
   hand the same pid to two workers within one second is a hypothesis (NoDup), not proved. *)
Theorem C08_pools_jump_mode_disjoint : forall g0 nb d pools,
  NoDup (pools_keys pools) -> Forall pool_ok pools ->
  NoDup (flat_map snd (pools_samples g0 (mkMode false nb d) pools)).
Proof. exact pools_jump_mode_disjoint. Qed.
Theorem C08_pool_jump_mode_disjoint_seeds : forall g0 nb d n wseeds chunks,
  NoDup wseeds -> Forall (fun c : nat * list sched => (fst c < length wseeds)%nat) chunks ->
  NoDup (flat_map snd (snd (pool_run g0 (mkMode false nb d) n wseeds chunks))).
Proof. exact pool_jump_mode_disjoint. Qed.
Theorem C08_seed_of_distinct : forall p q t u, 0 <= t < 2 ^ 32 -> 0 <= u < 2 ^ 32 ->
  seed_of p t = seed_of q u -> p = q /\ t = u.
Proof. exact seed_of_inj2. Qed.

(* ---- refuted on the delivered tree: F-C08-3.  Fixed-date mode with a worker pool: every chunk
   unpickles a copy of the same deques, so two workers (differently seeded) consume row 0 twice *)
Theorem C08_workers_share_rows_refuted :
  ~ NoDup (flat_map snd (snd pool_witness))
  /\ popped (nth 0 (snd (fst pool_witness)) []) = [(2, 0); (1, 0)]
  /\ popped (nth 1 (snd (fst pool_witness)) []) = [(2, 0); (1, 0)].
Proof. exact workers_share_rows_refuted. Qed.

(* ---- refuted for the tree BEFORE the fix: commits (models std_ops_orig / mlc_ops_orig /
   seed_choice_orig); kept as the machine-checked witnesses of F-C08-1, F-C08-2, F-C08-4 *)
Theorem C08_preseed_draws_refuted :
  (exists s t m ss g1 g2, samples (std_ops_orig (Some s) t m ss) (init g1) <> samples (std_ops_orig (Some s) t m ss) (init g2))
  /\ (exists s t m ss g, ~ NoDup (consumed (std_ops_orig (Some s) t m ss) (init g))).
Proof. exact preseed_draws_refuted. Qed.

Theorem C08_reseed_per_level_refuted :
  (exists s m n0 levels g, ~ NoDup (consumed (mlc_ops_orig (Some s) m n0 levels) (init g))
                           /\ ~ reseed_free (events (mlc_ops_orig (Some s) m n0 levels) (init g)))
  /\ (exists t m n0 ss0 ss1 g, ~ NoDup (consumed (mlc_ops_orig None m n0 [(ss0, t); (ss1, t)]) (init g))).
Proof. exact reseed_per_level_refuted. Qed.

Theorem C08_seed_zero_refuted :
  exists t1 t2 m ss g, samples (std_ops_orig (Some 0) t1 m ss) (init g) <> samples (std_ops_orig (Some 0) t2 m ss) (init g).
Proof. exact seed_zero_refuted. Qed.

(* ---- refuted on the delivered tree: F-C08-5.  "consumed exactly once" is false for the adaptive
   multilevel price(): rows pre-drawn by initialisation() (deques 1, 2) and by next_level() of an added
   level are never popped (at most once holds: C08_single_process_disjoint (2)) *)
Theorem C08_adaptive_price_exactly_once_refuted :
  exists seed t m n0 passes g tg,
    In tg (created (events (mlp_ops seed t m n0 passes) (init g)))
    /\ ~ In tg (popped (events (mlp_ops seed t m n0 passes) (init g))).
Proof. exact adaptive_price_exactly_once_refuted. Qed.

(* ---- refuted for the tree BEFORE the fix: commit of branch fix-rng2 (F-C08-8): the clock seed
   (pid * now) mod 123456789 is the same for two processes exactly when 123456789 | (p - q) * now, in
   particular for all processes when now = k * 123456789; then two workers in jump-time mode consume
   the same positions *)
Theorem C08_worker_seed_collision_exact : forall p q now,
  seed_of_orig p now = seed_of_orig q now <-> (123456789 | (p - q) * now).
Proof. exact seed_of_orig_collision. Qed.
Theorem C08_worker_seeds_collide_refuted :
  (forall p q k, seed_of_orig p (k * 123456789) = seed_of_orig q (k * 123456789))
  /\ ~ NoDup (flat_map snd (snd (pool_run_pids_orig (mkGen (-1) 0 0) (mkMode false 1 1) 2 [4001; 4002] (13 * 123456789)
                                   [(0%nat, [[(false, 1, false)]]); (1%nat, [[(false, 1, false)]])]))).
Proof. exact worker_seeds_collide_refuted. Qed.
Theorem C08_std_derived_orig_refuted :
  exists val nxt fuel s t m n g1 g2,
    std_derived_orig val nxt fuel (Some s) t m n g1 <> std_derived_orig val nxt fuel (Some s) t m n g2.
Proof. exact std_derived_orig_refuted. Qed.

(* ---- wave 5 (restated in wave 6 after audit4 B2): the jump-time simulators (SimulationWithJumpTimes, the four
   *MaximumStep simulators, the SDE processes, the series representation: nothing pre-drawn, Model/RngSim.v).
   nb_of_processes = 1, all three entry points, every schedule and level/pass history, every mode with m_fixed = false:
   NO VARIATE IS DRAWN OUTSIDE A SAMPLE WINDOW (the list of variates drawn during the run is the concatenation of the
   samples' position lists: nothing is drawn by pre_computation, between two samples or after the last) and NO POSITION
   IS ATTRIBUTED TO TWO SAMPLES or twice to one (NoDup).  In the model and in the tracer a sample's positions are by
   definition the draws made between its begin and end, so this does NOT say that every variate drawn inside a window
   is used by the path.  The statement has content: it is false in fixed-date mode
   (C08_fixed_mode_draws_outside_samples_refuted; for the adaptive price() some of those rows are never consumed at all:
   C08_adaptive_price_exactly_once_refuted). *)
Theorem C08_jump_mode_no_draw_outside_samples : forall seed t m g, m_fixed m = false ->
  (forall ss, drawn (events (std_ops seed t m ss) (init g)) = consumed (std_ops seed t m ss) (init g)
              /\ NoDup (drawn (events (std_ops seed t m ss) (init g))))
  /\ (forall n0 lv, drawn (events (mlc_ops seed t m n0 lv) (init g)) = consumed (mlc_ops seed t m n0 lv) (init g)
              /\ NoDup (drawn (events (mlc_ops seed t m n0 lv) (init g))))
  /\ (forall n0 ps, drawn (events (mlp_ops seed t m n0 ps) (init g)) = consumed (mlp_ops seed t m n0 ps) (init g)
              /\ NoDup (drawn (events (mlp_ops seed t m n0 ps) (init g)))).
Proof. exact jump_mode_no_draw_outside_samples. Qed.
Theorem C08_fixed_mode_draws_outside_samples_refuted :
  exists seed t m ss g, m_fixed m = true /\ exists p, In p (drawn (events (std_ops seed t m ss) (init g)))
                                           /\ drawn (events (std_ops seed t m ss) (init g)) <> consumed (std_ops seed t m ss) (init g).
Proof. exact fixed_mode_draws_outside_samples_refuted. Qed.

(* the standard engine on LevyCopula2dSeriesRepresentation, schedule = series_sched of the data of every sample
   (N1, N2 = the two Poisson variates, (a_k, b_k) = thinning draws per product interval, nb = number of intervals;
   series_wf: every arrival lies in exactly one interval): the run is disciplined (clauses (1)-(5) above), nothing is
   drawn outside a sample window, and sample i consumes exactly 2 + 3 (N1 + N2) + max (N1, N2) + 2 nb variates *)
Theorem C08_series_run_exactly_once : forall seed t ds g, Forall series_wf ds ->
  let ops := series_ops seed t ds in
  disciplined ops (init g) (seed_choice seed false t)
  /\ drawn (events ops (init g)) = consumed ops (init g)
  /\ map (fun s : sample => Z.of_nat (length (snd s))) (samples ops (init g))
     = map (fun d => 2 + 3 * (sr_n1 d + sr_n2 d) + Z.max (sr_n1 d) (sr_n2 d) + 2 * sr_nb d) ds.
Proof. exact series_run_exactly_once. Qed.

(* F-C08-3 for ALL pool schedules (delivered tree, fixed-date mode, nb_of_processes > 1): with at least one pre-drawn
   row and one product date, every schedule that has two non-empty chunks -- any workers, any order, any worker seeds,
   any other chunks before, between and after -- yields two different samples that both consume the first variate of
   row 0 (row0_pos g0 = the first Poisson count pre-drawn by the parent) *)
Theorem C08_pool_fixed_mode_chunks_share_refuted : forall g0 nb d n wseeds c0 w1 s1 ss1 mid w2 s2 ss2 rest,
  1 <= n -> 1 <= nb ->
  let sms := snd (pool_run g0 (mkMode true nb d) n wseeds (c0 ++ (w1, s1 :: ss1) :: mid ++ (w2, s2 :: ss2) :: rest)) in
  ~ NoDup (flat_map snd sms)
  /\ exists l1 a l2 b l3, sms = l1 ++ a :: l2 ++ b :: l3 /\ In (row0_pos g0) (snd a) /\ In (row0_pos g0) (snd b).
Proof. exact pool_fixed_mode_chunks_share. Qed.

(* non-vacuity: a concrete adaptive run (two passes, a level added) with its positions; the adaptive
   price() also pre-draws rows it never pops (created 1,2 by initialisation(), 9,10 by next_level()) *)
Example C08_nonvacuous :
  let r := run (mlp_ops (Some 7) 0 fixed1 2 [mkPass [[[(false, 1, false)]; []]; [[(false, 2, false); (false, 1, true)]]] (Some 3);
                                             mkPass [[]; []; [[(false, 1, true)]]] None])
               (init (mkGen (-1) 0 0)) in
  snd (fst r) = [(0, [(false, 7, 4); (false, 7, 8); (false, 7, 6)]); (0, [(false, 7, 5); (false, 7, 7)]);
                 (1, [(false, 7, 9); (false, 7, 11); (false, 7, 12); (false, 7, 13); (false, 7, 10)]);
                 (2, [(false, 7, 20); (false, 7, 22); (false, 7, 21)])]
  /\ popped (fst (fst r)) = [(4, 0); (3, 0); (4, 1); (3, 1); (8, 0); (7, 0); (16, 0); (15, 0)]
  /\ uses (fst (fst r)) = [(false, 7, 13); (false, 7, 22)]
  /\ seeds (fst (fst r)) = [7]
  /\ seed_choice (Some 0) false 5 = 0 /\ seed_choice None false 5 = 5 /\ seed_choice (Some 3) true 5 = 5.
Proof. vm_compute. repeat split. Qed.

(* non-vacuity of the wave-5 theorems: a series run of two samples ((N1,N2) = (2,1) and (0,3), 3 product intervals)
   satisfies series_wf, consumes 19 and 20 variates, the first at positions 0..19 of seed 7; a coupling sample whose
   decision draws are single numpy uniforms; the pool witness of F-C08-3 is an instance of the all-schedules theorem *)
Example C08_nonvacuous_sim :
  forallb series_wfb series_demo = true
  /\ map (fun s : sample => Z.of_nat (length (snd s))) (samples (series_ops (Some 7) 0 series_demo) (init (mkGen (-1) 0 0))) = [19; 20]
  /\ map snd (samples (series_ops (Some 7) 0 [mkSer 1 0 [(1, 0)] 1]) (init (mkGen (-1) 0 0)))
     = [[(false, 7, 0); (false, 7, 1); (false, 7, 2); (false, 7, 3); (false, 7, 4); (false, 7, 5); (false, 7, 6); (false, 7, 7)]]
  /\ dec_single [(false, 3, false); (false, 1, true); (true, 2, false); (false, 1, true)] = true
  /\ dec_single [(false, 2, true)] = false
  /\ pool_witness = pool_run (mkGen (-1) 0 0) (mkMode true 1 1) 2 [11; 22]
                      ([] ++ (0%nat, [(false, 1, false)] :: []) :: [] ++ (1%nat, [(false, 1, false)] :: []) :: [])
  /\ map (fun s : sample => existsb (fun p : pos => Z.eqb (snd p) 0 && Z.eqb (snd (fst p)) (-1)) (snd s)) (snd pool_witness) = [true; true].
Proof. vm_compute. repeat split. Qed.

(* ---- wave 6: the multilevel engine with worker pools (multilevel/engine.py with nb_of_processes <> 1, Model/RngMlPool.v):
   the parent never seeds and never simulates; compute_level_l builds one pool per level and pass (fresh workers seeded
   seed_of pid now, every chunk starts from a copy of the deques of the level's process as the parent holds them).
   mlcp_ops = price_with_constant_mc_paths_and_level, mlpp_ops = adaptive price(); a run is described by the list of its
   pools (pids, clock value, chunks = (worker, samples) in the order served), per level / per pass and level.
   Jump-time mode, both entry points, every number of levels / pass history (levels added or not), every chunking and
   assignment of chunks to workers in every pool, every ambient parent state: if the (pid, clock) pairs of all workers of
   the run are pairwise different, all samples -- across chunks, workers, levels and passes -- use pairwise disjoint
   positions.  (NoDup of the keys is the hypothesis about the OS of C08_pools_jump_mode_disjoint.)
   LABEL (audit5a B9 / top-10 #6): this is the older C08_pools_jump_mode_disjoint TRANSPORTED through jump_psamples (in
   jump-time mode the samples' positions of prun are those of pools_samples of the run's pools): the multilevel engine's
   control flow -- n0, g0, the slots and levels, the parent's pre_computations and copies -- is IRRELEVANT to it; an
   "engine" that put every pool on a wrong slot and level would satisfy the same statement.  It cannot fail for a reason
   inside the engine model; sharing is expressible in prun only through an out-of-range worker (pool_ok) or a key
   collision (the OS hypothesis).  A worker that is not seeded, re-seeds per chunk or inherits generator state cannot be
   written in the model: that is the business of the trace tie (seed events and generator-state hashes of real pools),
   not of this theorem.  What it adds to the older theorem is only that mlcp_ops / mlpp_ops hand the pools' samples through
   unchanged. *)
Theorem C08_mlpool_jump_mode_disjoint : forall nb d n0 g0,
  (forall pools, NoDup (pools_keys pools) -> Forall pool_ok pools ->
     NoDup (flat_map snd (psamples (mkMode false nb d) (mlcp_ops (mkMode false nb d) n0 pools) (init g0))))
  /\ (forall passes, NoDup (pools_keys (flat_map pp_levels passes)) -> Forall pool_ok (flat_map pp_levels passes) ->
     NoDup (flat_map snd (psamples (mkMode false nb d) (mlpp_ops (mkMode false nb d) n0 passes) (init g0)))).
Proof. exact mlpool_jump_mode_disjoint. Qed.

(* the same for ANY interleaving of parent instructions and pools (any slots, any levels, any parent state), as long as
   the parent itself simulates no sample: the disjointness does not depend on the engine's control flow -- which is
   exactly why both statements are C08_pools_jump_mode_disjoint transported, not theorems about the engine (label above) *)
Theorem C08_mlpool_jump_mode_disjoint_any_order : forall nb d ops st, forallb par_quiet ops = true ->
  NoDup (pools_keys (pools_of ops)) -> Forall pool_ok (pools_of ops) ->
  NoDup (flat_map snd (psamples (mkMode false nb d) ops st)).
Proof. exact mlpool_jump_disjoint_gen. Qed.

(* ---- refuted on the delivered tree: F-C08-3 lifted to the multilevel engine, for ALL schedules.  Fixed-date mode with
   at least one product date: in the constant run (n0 >= 1 paths per level) and in the adaptive price() (any pass
   history), as soon as ONE pool of the run -- any level, any pass -- serves two non-empty chunks (any workers, pids,
   clock values; anything before, between, after), two different samples OF THE SAME LEVEL consume the same pre-drawn
   variate (Shared: the first Poisson count of the first row of that level's deque), so NoDup fails *)
Theorem C08_mlpool_fixed_mode_share_refuted : forall nb d n0 g0, 1 <= nb ->
  (forall pools, 1 <= n0 -> Exists two_chunks pools ->
     Shared (psamples (mkMode true nb d) (mlcp_ops (mkMode true nb d) n0 pools) (init g0))
     /\ ~ NoDup (flat_map snd (psamples (mkMode true nb d) (mlcp_ops (mkMode true nb d) n0 pools) (init g0))))
  /\ (forall passes, Exists two_chunks (flat_map pp_levels passes) ->
     Shared (psamples (mkMode true nb d) (mlpp_ops (mkMode true nb d) n0 passes) (init g0))
     /\ ~ NoDup (flat_map snd (psamples (mkMode true nb d) (mlpp_ops (mkMode true nb d) n0 passes) (init g0)))).
Proof. exact mlpool_fixed_mode_share. Qed.

(* non-vacuity of the wave-6 theorems: mlpool_demo (two levels, two workers each) meets every hypothesis (two non-empty
   chunks per pool, pairwise different (pid, clock) keys, clock < 2^32, worker numbers in range); its samples in
   jump-time mode (level :: positions; seed ids seed_of pid now) and in fixed-date mode, where both samples of level 0
   consume position 0 of the parent's ambient stream (the first Poisson count) and the three of level 1 position 4 *)
Example C08_nonvacuous_mlpool :
  Forall two_chunks mlpool_demo /\ NoDup (pools_keys mlpool_demo) /\ Forall pool_ok mlpool_demo
  /\ seed_of 101 1700000000 = 435491696896
  /\ map enc_sample (psamples jump (mlcp_ops jump 2 mlpool_demo) (init (mkGen (-1) 0 0)))
     = [[0; 0; 435491696896; 0]; [0; 0; 439786664192; 0; 0; 439786664192; 1]; [1; 0; 448376598784; 0]; [1; 0; 444081631488; 0]; [1]]
  /\ map enc_sample (psamples fixed1 (mlcp_ops fixed1 2 mlpool_demo) (init (mkGen (-1) 0 0)))
     = [[0; 0; -1; 0; 0; 435491696896; 0; 0; -1; 2]; [0; 0; -1; 0; 0; 439786664192; 0; 0; 439786664192; 1; 0; -1; 2];
        [1; 0; -1; 4; 0; 448376598784; 0; 0; -1; 6]; [1; 0; -1; 4; 0; 444081631488; 0; 0; -1; 6]; [1; 0; -1; 4; 0; -1; 6]]
  /\ map enc_sample (psamples fixed1 (mlpp_ops fixed1 2 [mkPPass mlpool_demo (Some 1); mkPPass [([105], 1700000001, [(0%nat, [[]])])] None])
                       (init (mkGen (-1) 0 0)))
     = [[0; 0; -1; 4; 0; 435491696896; 0; 0; -1; 6]; [0; 0; -1; 4; 0; 439786664192; 0; 0; 439786664192; 1; 0; -1; 6];
        [1; 0; -1; 8; 0; 448376598784; 0; 0; -1; 11]; [1; 0; -1; 8; 0; 444081631488; 0; 0; -1; 11]; [1; 0; -1; 8; 0; -1; 11];
        [0; 0; -1; 16; 0; -1; 17]].
Proof.
  split; [|split; [|split; [|vm_compute; repeat split]]].
  - repeat constructor.
    + exists [], 0%nat, [(false, 1, false)], [], [], 1%nat, [(false, 2, false)], [], []. reflexivity.
    + exists [], 1%nat, [(false, 1, true)], [], [], 0%nat, [(false, 1, false)], [], [(1%nat, [[]])]. reflexivity.
  - vm_compute. repeat constructor; simpl; intuition congruence.
  - repeat constructor; simpl; lia.
Qed.

(* ---- wave 8 (audit5a D2), refuted on the delivered tree: F-C08-9.  seed = None, nb_of_processes = 1:
   initialisation_seed seeds with [os.getpid(), int(time.time())] at EVERY pricing, so the seed of an unseeded run is a
   function of (pid, whole second).  Two pricings of one process whose clock reads fall into the same second
   (Model/RngRuns.v: the second run starts from next_run_state of the first run's final state -- generators and deques as
   they were left, the tracer's deque numbering restarted): C08's "within one run" clauses hold for each run, but over the
   two runs of the process (1) every position is consumed twice -- "no two samples share random variates" fails --,
   (2) the second seed event moves the generators to a (seed id, position 0) that has already produced samples.
   Witness: pid 4242, second 1700000000, two paths, fixed-date and jump-time mode. *)
Theorem C08_unseeded_same_second_refuted :
  (let ops := std_unseeded ss_pid ss_now (mkMode true 1 1) ss_sched in
     ~ NoDup (two_runs_consumed ops ops (mkGen (-1) 0 0)) /\ ~ reseed_free (two_runs_events ops ops (mkGen (-1) 0 0)))
  /\ (let ops := std_unseeded ss_pid ss_now (mkMode false 1 1) ss_sched in
     ~ NoDup (two_runs_consumed ops ops (mkGen (-1) 0 0)) /\ ~ reseed_free (two_runs_events ops ops (mkGen (-1) 0 0))).
Proof. exact unseeded_same_second_refuted. Qed.

(* the same for ALL pids, seconds, modes, schedules / histories, ambient states and all three entry points: the second
   run has exactly the events and the samples (same positions) of the first.
   LABEL: this is C08_engines_forget_state TRANSPORTED through `an unseeded run is the run seeded with seed_of pid now`
   (unseeded_is_seeded, by computation); the only new content is that reading of the seed.  It says "identical" for a
   GIVEN schedule; that the real schedule repeats as well is C08_std_seeded_repeatable_derived and, on the
   implementation, the same-second oracle (bit-identical stored values and prices). *)
Theorem C08_unseeded_same_second_runs_identical : forall pid now m g,
  (forall ss, let ops := std_unseeded pid now m ss in let st2 := next_run_state (final ops (init g)) in
              events ops st2 = events ops (init g) /\ samples ops st2 = samples ops (init g))
  /\ (forall n0 lv, let ops := mlc_unseeded pid now m n0 lv in let st2 := next_run_state (final ops (init g)) in
              events ops st2 = events ops (init g) /\ samples ops st2 = samples ops (init g))
  /\ (forall n0 ps, let ops := mlp_unseeded pid now m n0 ps in let st2 := next_run_state (final ops (init g)) in
              events ops st2 = events ops (init g) /\ samples ops st2 = samples ops (init g)).
Proof. exact unseeded_same_second_runs_identical. Qed.

(* non-vacuity: the witness runs consume variates (positions of seed id seed_of 4242 1700000000), the second run starts
   from a state that differs from the first one's (generator advanced, deques emptied) and still has the same samples;
   a second later the seed id is another one *)
Example C08_nonvacuous_runs :
  seed_of ss_pid ss_now = 18220951269632
  /\ (let ops := std_unseeded ss_pid ss_now (mkMode true 1 1) ss_sched in
      map snd (samples ops (init (mkGen (-1) 0 0)))
      = [[(false, 18220951269632, 0); (false, 18220951269632, 4); (false, 18220951269632, 2)];
         [(false, 18220951269632, 1); (false, 18220951269632, 5); (false, 18220951269632, 6); (false, 18220951269632, 3)]]
      /\ samples ops (next_run_state (final ops (init (mkGen (-1) 0 0)))) = samples ops (init (mkGen (-1) 0 0))
      /\ s_gen (final ops (init (mkGen (-1) 0 0))) = mkGen 18220951269632 7 0)
  /\ seed_of ss_pid (ss_now + 1) = 18220951269633.
Proof. vm_compute. repeat split. Qed.

Print Assumptions C08_single_process_disjoint.
Print Assumptions C08_samples_pairwise_disjoint.
Print Assumptions C08_rows_exactly_once.
Print Assumptions C08_seeded_repeatable.
Print Assumptions C08_engines_forget_state.
Print Assumptions C08_leftover_rows_matter_refuted.
Print Assumptions C08_std_seeded_repeatable_derived.
Print Assumptions C08_seeded_adaptive_forgets_state.
Print Assumptions C08_seeded_repeatable_adaptive.
Print Assumptions C08_adaptive_run_is_run.
Print Assumptions C08_no_underflow.
Print Assumptions C08_pool_jump_mode_disjoint.
Print Assumptions C08_pools_jump_mode_disjoint.
Print Assumptions C08_pool_jump_mode_disjoint_seeds.
Print Assumptions C08_seed_of_distinct.
Print Assumptions C08_workers_share_rows_refuted.
Print Assumptions C08_preseed_draws_refuted.
Print Assumptions C08_reseed_per_level_refuted.
Print Assumptions C08_seed_zero_refuted.
Print Assumptions C08_adaptive_price_exactly_once_refuted.
Print Assumptions C08_worker_seed_collision_exact.
Print Assumptions C08_worker_seeds_collide_refuted.
Print Assumptions C08_std_derived_orig_refuted.
Print Assumptions C08_jump_mode_no_draw_outside_samples.
Print Assumptions C08_fixed_mode_draws_outside_samples_refuted.
Print Assumptions C08_series_run_exactly_once.
Print Assumptions C08_pool_fixed_mode_chunks_share_refuted.
Print Assumptions C08_nonvacuous.
Print Assumptions C08_nonvacuous_sim.
Print Assumptions C08_mlpool_jump_mode_disjoint.
Print Assumptions C08_mlpool_jump_mode_disjoint_any_order.
Print Assumptions C08_mlpool_fixed_mode_share_refuted.
Print Assumptions C08_nonvacuous_mlpool.
Print Assumptions C08_unseeded_same_second_refuted.
Print Assumptions C08_unseeded_same_second_runs_identical.
Print Assumptions C08_nonvacuous_runs.

(* C10 -- Exponent, triplet, cumulants and simulation drifts describe one same process.
   Only statements; the proofs live in the Proofs/C10_ files.  canonical_drift, zero_drift, center_drift, tilde_drift, the pure-jump
   exponents hem_pj / merton_pj / vg_pj / cgmy_pj, the cumulants, hem_xi, the simulation drifts and exp_model_drift are regenerated
   from /repo by py2coq (modules RV.Gen.GenC10Triplet, GenC10Hem, GenC10Merton, GenC10Vg, GenC10Cgmy, GenC10Bs, GenC10Exp);
   set_representation, kappa (the exponent on the real axis, kappa s = psi(-i s)) and the route formulas are in Model/LevyExponent.v. *)
From Coq Require Import Reals Bool List.
From Coquelicot Require Import Coquelicot.
From RV Require Import Base.RB Gen.GenC10Triplet Gen.GenC10Hem Gen.GenC10Merton Gen.GenC10Vg Gen.GenC10Cgmy Gen.GenC10Bs Gen.GenC10Exp
  Model.LevyExponent Proofs.C10_Triplet Proofs.C10_Exponent.
Import ListNotations.
Open Scope R_scope.

(* --- converting the drift between representations is path-independent and reversible:
       for every measure (m1 = its first-moment function, fv = finite variation flag), every triplet, all representations *)
Theorem C10_conversions_path_independent : forall INF m1 fv r1 r2 r3 t,
  set_representation INF m1 fv r3 (set_representation INF m1 fv r2 (set_representation INF m1 fv r1 t))
  = set_representation INF m1 fv r3 t.
Proof. exact conversions_path_independent_3. Qed.
Theorem C10_conversions_any_sequence : forall INF m1 fv rs r t,
  set_representation INF m1 fv r (set_representations INF m1 fv rs t) = set_representation INF m1 fv r t.
Proof. exact conversions_path_independent. Qed.
Theorem C10_conversions_reversible : forall INF m1 fv rs t,
  set_representation INF m1 fv (t_rep t) (set_representations INF m1 fv rs t) = t.
Proof. exact conversions_reversible. Qed.
Theorem C10_conversions_meaning : forall INF m1 fv r t,
  t_rep (set_representation INF m1 fv r t) = r /\
  t_a (set_representation INF m1 fv r t) = of_canonical INF m1 fv r (to_canonical INF m1 fv (t_rep t) (t_a t)).
Proof. intros. split; [apply set_representation_rep | apply set_representation_a]. Qed.

(* --- martingale: characteristic function at -i (omega = -kappa(1)) *)
Theorem C10_martingale_cf : forall log_spot r d a sigma pj t,
  expected_spot_cf log_spot r d a sigma pj t = exp log_spot * exp ((r - d) * t).
Proof. exact martingale_cf. Qed.
(* --- martingale: drift of the directly simulated log-process (growth rate = process_drift + sigma^2/2 + pj(1)) *)
Theorem C10_martingale_direct_bs : forall r d sigma, direct_growth (bs_process_drift r d sigma) sigma (bs_pj 1) = r - d.
Proof. exact martingale_direct_bs. Qed.
Theorem C10_martingale_direct_merton : forall r d sigma lam mu_j sigma_j,
  direct_growth (merton_process_drift r d sigma lam mu_j sigma_j) sigma (merton_pj lam mu_j sigma_j 1) = r - d.
Proof. exact martingale_direct_merton. Qed.
Theorem C10_martingale_direct_hem : forall r d sigma lam p eta1 eta2, eta1 <> 1 -> eta2 <> -1 ->
  direct_growth (hem_process_drift r d sigma lam (hem_xi p eta1 eta2)) sigma (hem_pj lam p eta1 eta2 1) = r - d.
Proof. exact martingale_direct_hem. Qed.
Theorem C10_forward_direct : forall x0 pd sigma J0 r d t, direct_growth pd sigma J0 = r - d ->
  exp (deterministic_path x0 pd t) * exp (t * (sigma ^ 2 / 2 + J0)) = exp x0 * exp ((r - d) * t).
Proof. exact forward_direct. Qed.

(* --- cumulants are the derivatives of the exponent at zero (times t) *)
Theorem C10_cumulants_hem : forall a sigma lam p eta1 eta2, 0 < eta1 -> 0 < eta2 -> forall t,
  (is_derive (kappa a sigma (hem_pj lam p eta1 eta2)) 0 (hem_cumulant1 a lam p eta1 eta2 1)
   /\ hem_cumulant1 a lam p eta1 eta2 t = t * hem_cumulant1 a lam p eta1 eta2 1) /\
  (is_derive_n (kappa a sigma (hem_pj lam p eta1 eta2)) 2 0 (hem_cumulant2 sigma lam p eta1 eta2 1)
   /\ hem_cumulant2 sigma lam p eta1 eta2 t = t * hem_cumulant2 sigma lam p eta1 eta2 1).
Proof. intros. split; [apply hem_cumulant1_derive | apply hem_cumulant2_derive]; assumption. Qed.
Theorem C10_cumulants_merton : forall a sigma lam mu_j sigma_j t,
  (is_derive (kappa a sigma (merton_pj lam mu_j sigma_j)) 0 (merton_cumulant1 a lam mu_j sigma_j 1)
   /\ merton_cumulant1 a lam mu_j sigma_j t = t * merton_cumulant1 a lam mu_j sigma_j 1) /\
  (is_derive_n (kappa a sigma (merton_pj lam mu_j sigma_j)) 2 0 (merton_cumulant2 sigma lam mu_j sigma_j 1)
   /\ merton_cumulant2 sigma lam mu_j sigma_j t = t * merton_cumulant2 sigma lam mu_j sigma_j 1).
Proof. intros. split; [apply merton_cumulant1_derive | apply merton_cumulant2_derive]. Qed.
Theorem C10_cumulants_vg : forall a sigma nu theta, nu <> 0 -> forall t,
  (is_derive (kappa a 0 (vg_pj sigma nu theta)) 0 (vg_cumulant1 a sigma nu theta 1)
   /\ vg_cumulant1 a sigma nu theta t = t * vg_cumulant1 a sigma nu theta 1) /\
  (is_derive_n (kappa a 0 (vg_pj sigma nu theta)) 2 0 (vg_cumulant2 sigma nu theta 1)
   /\ vg_cumulant2 sigma nu theta t = t * vg_cumulant2 sigma nu theta 1).
Proof. intros. split; [apply vg_cumulant1_derive | apply vg_cumulant2_derive]; auto. Qed.

(* non-vacuity: a concrete chain of conversions *)
Example C10_nonvacuous : forall INF m1,
  t_a (set_representation INF m1 true CENTER (set_representation INF m1 true ONEONE (mkTriplet 5 ZERO)))
  = 5 + m1 (-1) 1 + (m1 (- INF) (-1) + m1 1 INF).
Proof. intros. rewrite set_representation_a, set_representation_canonical. unfold canonical_of, to_canonical, of_canonical, I11, Tails. simpl. ring. Qed.

Print Assumptions C10_conversions_path_independent.
Print Assumptions C10_conversions_any_sequence.
Print Assumptions C10_conversions_reversible.
Print Assumptions C10_conversions_meaning.
Print Assumptions C10_martingale_cf.
Print Assumptions C10_martingale_direct_bs.
Print Assumptions C10_martingale_direct_merton.
Print Assumptions C10_martingale_direct_hem.
Print Assumptions C10_forward_direct.
Print Assumptions C10_cumulants_hem.
Print Assumptions C10_cumulants_merton.
Print Assumptions C10_cumulants_vg.

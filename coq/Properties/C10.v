(* C10 -- Exponent, triplet, cumulants and simulation drifts describe one same process.
   Only statements; the proofs live in the Proofs/C10_ files.  canonical_drift, zero_drift, center_drift, tilde_drift, the pure-jump
   exponents hem_pj / merton_pj / vg_pj / cgmy_pj, the cumulants, hem_xi, the simulation drifts and exp_model_drift are regenerated
   from /repo by py2coq (modules RV.Gen.GenC10Triplet, GenC10Hem, GenC10Merton, GenC10Vg, GenC10Cgmy, GenC10Bs, GenC10Exp);
   set_representation, kappa (the exponent on the real axis, kappa s = psi(-i s)) and the route formulas are in Model/LevyExponent.v. *)
From Coq Require Import Reals Bool List.
From Coquelicot Require Import Coquelicot.
From RV Require Import Base.RB Gen.GenC10Triplet Gen.GenC10Hem Gen.GenC10Merton Gen.GenC10Vg Gen.GenC10Cgmy Gen.GenC10Bs Gen.GenC10Exp Gen.GenC10Jump
  Gen.GenC09Hem Gen.GenC09Vg Gen.GenC09Trunc Model.LevyClosedForms Model.LevyExponent Proofs.C10_Triplet Proofs.C10_Exponent Proofs.C10_HemLK
  Proofs.C10_Cgmy Proofs.C10_VgLK Proofs.C10_Jump Proofs.C10_Reinit
  Base.CxPair Gen.GenC10Cx Model.LevyExponentCx Proofs.C10_HemCx Proofs.C10_VgCx Proofs.C10_CxAxis
  Gen.GenC10SetRep Proofs.C10_SetRepGen.
Import ListNotations.
Open Scope R_scope.

(* --- converting the drift between representations is path-independent and reversible: for every measure (m1 = its
       first-moment function, fv = finite-variation flag), every triplet, all representations ADMISSIBLE for the measure:
       the ZERO representation exists only for jumps of finite variation (the code raises ValueError otherwise, modelled as the
       value 0 -- C10_conversions_zero_needs_finite_variation), so valid_rep fv r := fv = true \/ r <> ZERO guards every statement;
       C10_conversions_need_guard shows the unguarded statement is false in the model. *)
Theorem C10_conversions_path_independent : forall INF m1 fv r1 r2 r3 t,
  valid_rep fv (t_rep t) -> valid_rep fv r1 -> valid_rep fv r2 -> valid_rep fv r3 ->
  set_representation INF m1 fv r3 (set_representation INF m1 fv r2 (set_representation INF m1 fv r1 t))
  = set_representation INF m1 fv r3 t.
Proof. exact conversions_path_independent_3. Qed.
Theorem C10_conversions_any_sequence : forall INF m1 fv rs r t,
  valid_rep fv (t_rep t) -> List.Forall (valid_rep fv) rs -> valid_rep fv r ->
  set_representation INF m1 fv r (set_representations INF m1 fv rs t) = set_representation INF m1 fv r t.
Proof. exact conversions_path_independent. Qed.
Theorem C10_conversions_reversible : forall INF m1 fv rs t,
  valid_rep fv (t_rep t) -> List.Forall (valid_rep fv) rs ->
  set_representation INF m1 fv (t_rep t) (set_representations INF m1 fv rs t) = t.
Proof. exact conversions_reversible. Qed.
Theorem C10_conversions_meaning : forall INF m1 fv r t, valid_rep fv r -> valid_rep fv (t_rep t) ->
  t_rep (set_representation INF m1 fv r t) = r /\
  t_a (set_representation INF m1 fv r t) = of_canonical INF m1 fv r (to_canonical INF m1 fv (t_rep t) (t_a t)).
Proof. exact set_representation_meaning. Qed.
Theorem C10_conversions_zero_needs_finite_variation : forall INF m1 fv a r, fv = false ->
  zero_drift INF m1 fv a (rep_code r) = 0 /\ canonical_drift INF m1 fv a (rep_code ZERO) = 0.
Proof. exact zero_needs_finite_variation. Qed.
Theorem C10_conversions_need_guard : exists INF m1 t,
  set_representation INF m1 false CENTER (set_representation INF m1 false ZERO t) <> set_representation INF m1 false CENTER t.
Proof. exact conversions_need_guard. Qed.

(* --- characteristic-function route.  ALGEBRA, true by construction for any a, sigma, pj: omega = -kappa(1) cancels kappa(1);
       kappa, omega_of and expected_spot_cf are hand models of levy_exponent(-i s), omega and log_characteristic_function(t,-1j),
       tied to the code by interval case lemmas. *)
Theorem C10_martingale_cf_algebra : forall log_spot r d a sigma pj t,
  expected_spot_cf log_spot r d a sigma pj t = exp log_spot * exp ((r - d) * t).
Proof. exact martingale_cf. Qed.
(* --- drift of the directly simulated log-process (generated from the source): growth rate process_drift + sigma^2/2 + pj(1)
       is r - d.  That pj(1) IS the exponential moment int (e^x - 1) nu of the simulated jumps is C10_hem_exponent for HEM
       (hence 1 < eta1: for eta1 <= 1 the moment is infinite and the code now raises) and the quadrature oracle for Merton. *)
Theorem C10_martingale_direct_bs : forall r d sigma, direct_growth (bs_process_drift r d sigma) sigma (bs_pj 1) = r - d.
Proof. exact martingale_direct_bs. Qed.
Theorem C10_martingale_direct_merton : forall r d sigma lam mu_j sigma_j,
  direct_growth (merton_process_drift r d sigma lam mu_j sigma_j) sigma (merton_pj lam mu_j sigma_j 1) = r - d.
Proof. exact martingale_direct_merton. Qed.
Theorem C10_martingale_direct_hem : forall r d sigma lam p eta1 eta2, 1 < eta1 -> eta2 <> -1 ->
  direct_growth (hem_process_drift r d sigma lam eta1 (hem_xi p eta1 eta2)) sigma (hem_pj lam p eta1 eta2 1) = r - d.
Proof. exact martingale_direct_hem. Qed.
Theorem C10_forward_direct_algebra : forall x0 pd sigma J0 r d t, direct_growth pd sigma J0 = r - d ->
  exp (deterministic_path x0 pd t) * exp (t * (sigma ^ 2 / 2 + J0)) = exp x0 * exp ((r - d) * t).
Proof. exact forward_direct. Qed.

(* --- cumulants of ORDER 1 AND 2 are the first / second derivative of the exponent at zero (times t).  Orders 4 and 6 are checked
       by the Cauchy-integral oracle only; orders 3 and 5 are not offered by the library (NotImplementedError). *)
Theorem C10_cumulants_hem : forall a sigma lam p eta1 eta2, 0 < eta1 -> 0 < eta2 -> forall t,
  (is_derive (kappa a sigma (hem_pj lam p eta1 eta2)) 0 (hem_cumulant1 a lam p eta1 eta2 1)
   /\ hem_cumulant1 a lam p eta1 eta2 t = t * hem_cumulant1 a lam p eta1 eta2 1) /\
  (is_derive_n (kappa a sigma (hem_pj lam p eta1 eta2)) 2 0 (hem_cumulant2 sigma lam p eta1 eta2 1)
   /\ hem_cumulant2 sigma lam p eta1 eta2 t = t * hem_cumulant2 sigma lam p eta1 eta2 1).
Proof. exact hem_cumulants. Qed.
Theorem C10_cumulants_merton : forall a sigma lam mu_j sigma_j t,
  (is_derive (kappa a sigma (merton_pj lam mu_j sigma_j)) 0 (merton_cumulant1 a lam mu_j sigma_j 1)
   /\ merton_cumulant1 a lam mu_j sigma_j t = t * merton_cumulant1 a lam mu_j sigma_j 1) /\
  (is_derive_n (kappa a sigma (merton_pj lam mu_j sigma_j)) 2 0 (merton_cumulant2 sigma lam mu_j sigma_j 1)
   /\ merton_cumulant2 sigma lam mu_j sigma_j t = t * merton_cumulant2 sigma lam mu_j sigma_j 1).
Proof. exact merton_cumulants. Qed.
Theorem C10_cumulants_vg : forall a sigma nu theta, nu <> 0 -> forall t,
  (is_derive (kappa a 0 (vg_pj sigma nu theta)) 0 (vg_cumulant1 a sigma nu theta 1)
   /\ vg_cumulant1 a sigma nu theta t = t * vg_cumulant1 a sigma nu theta 1) /\
  (is_derive_n (kappa a 0 (vg_pj sigma nu theta)) 2 0 (vg_cumulant2 sigma nu theta 1)
   /\ vg_cumulant2 sigma nu theta t = t * vg_cumulant2 sigma nu theta 1).
Proof. exact vg_cumulants. Qed.

(* CGMY (after the representation fixes): kappa'(0) = drift for y = 0, y = 1 and every other y; second cumulant for y not in
   {0,1} given CG = c Gamma(-y) and the functional equation Gamma(2-y) = (1-y)(-y) Gamma(-y) (Gamma is an opaque function).
   Partial: cumulant2 for y in {0,1}, cumulant4/6 are covered by the oracle only. *)
Theorem C10_cumulants_cgmy_partial : forall a c g m y CG (Gamma : R -> R) t, 0 < g -> 0 < m ->
  is_derive (kappa a 0 (cgmy_kappa_pj c g m 0 CG)) 0 a /\
  is_derive (kappa a 0 (cgmy_kappa_pj c g m 1 CG)) 0 a /\
  (y <> 0 -> y <> 1 ->
     (is_derive (kappa a 0 (cgmy_kappa_pj c g m y CG)) 0 (cgmy_cumulant1 a y 1) /\ cgmy_cumulant1 a y t = t * cgmy_cumulant1 a y 1) /\
     (CG = c * Gamma (- y) -> Gamma (2 - y) = (1 - y) * (- y) * Gamma (- y) ->
        is_derive_n (kappa a 0 (cgmy_kappa_pj c g m y CG)) 2 0 (cgmy_cumulant2 Gamma c g m y 1) /\
        cgmy_cumulant2 Gamma c g m y t = t * cgmy_cumulant2 Gamma c g m y 1)).
Proof. exact cgmy_cumulants. Qed.

(* --- the exponent is the Levy-Khintchine integral of the model's own density in the declared representation.
   Proved for HEM (declared ZERO: integrand e^{s x} - 1) on the whole strip -eta2 < s < eta1 as the limit of finite integrals, and
   for Variance Gamma (C10_vg_exponent, Frullani) on the whole strip -lambda_m < s < lambda_p as an improper integral at both ends;
   for Merton / CGMY this clause is validated by the quadrature oracle only (see MODELLED). *)
Theorem C10_hem_exponent : forall lam p eta1 eta2 s, 0 < eta1 -> 0 < eta2 -> - eta2 < s < eta1 ->
  is_lim (fun a => RInt (fun x => lk_integrand ZERO true s x * hem_nu lam p eta1 eta2 x) a 0) m_infty (Ln lam p eta2 s) /\
  is_lim (fun b => RInt (fun x => lk_integrand ZERO true s x * hem_nu lam p eta1 eta2 x) 0 b) p_infty (Lp lam p eta1 s) /\
  hem_pj lam p eta1 eta2 s = Ln lam p eta2 s + Lp lam p eta1 s.
Proof. exact hem_exponent_is_LK. Qed.

(* Variance Gamma (declared ZERO, infinite activity): c, lambda_m, lambda_p are the py2coq translations of VGParameters.__init__,
   vg_nu that of _VGLevyMeasure.__call__ (Gen.GenC09Vg), vg_pj that of levy_exponent_pure_jump.  The integrand is singular at 0 and
   the range unbounded: is_RInt_gen with the filters (m_infty, at_left 0) and (at_right 0, p_infty).  Genuine proof (Frullani: substitution,
   Chasles, monotonicity of the integral of e^{-u}/u; explicit rates), no hypothesis on special functions. *)
Theorem C10_vg_exponent : forall sigma nu theta s, 0 < sigma -> 0 < nu ->
  let c := vg_init_c sigma nu theta in let lm := vg_init_lambda_m sigma nu theta in let lp := vg_init_lambda_p sigma nu theta in
  - lm < s < lp ->
  is_RInt_gen (fun x => lk_integrand ZERO true s x * vg_nu c lm lp x) (Rbar_locally m_infty) (at_left 0) (VLn c lm s) /\
  is_RInt_gen (fun x => lk_integrand ZERO true s x * vg_nu c lm lp x) (at_right 0) (Rbar_locally p_infty) (VLp c lp s) /\
  vg_pj sigma nu theta s = VLn c lm s + VLp c lp s.
Proof. exact vg_exponent_is_LK. Qed.

(* --- direct simulation of the NON-exponential Levy model L (LevyModel.process_drift = levy_triplet.a, regenerated): declared ZERO, the
       jumps are not compensated, so the mean rate of the simulated process is process_drift + int x nu(dx); it is cumulant1(1).
       HEM / VG: the first moment is the limit of the integrals of x times the generated density.  Merton (_algebra): the first
       moment lam mu_j is that of the generated sampler mu_j + sigma_j g for a symmetric g; E g = 0 is not formalised. *)
Theorem C10_levy_direct_mean_hem : forall INF lam p e1 e2, 0 < e1 -> 0 < e2 -> 0 < INF ->
  let a0 := hem_a lam p e1 e2 in
  let Mn := hem_integrate_x INF lam p e1 e2 (- INF) 0 in
  let Mp := hem_integrate_x INF lam p e1 e2 0 INF in
  is_lim (fun a => RInt (fun x => x ^ 1 * hem_nu lam p e1 e2 x) a 0) m_infty Mn /\
  is_lim (fun b => RInt (fun x => x ^ 1 * hem_nu lam p e1 e2 x) 0 b) p_infty Mp /\
  levy_process_drift a0 + (Mn + Mp) = hem_cumulant1 a0 lam p e1 e2 1 /\
  hem_cumulant1 a0 lam p e1 e2 1 = 0.
Proof. exact hem_levy_mean_rate. Qed.
Theorem C10_levy_direct_mean_vg : forall sigma nu theta, 0 < sigma -> 0 < nu ->
  let c := vg_init_c sigma nu theta in let lm := vg_init_lambda_m sigma nu theta in let lp := vg_init_lambda_p sigma nu theta in
  is_lim (fun a => RInt (fun x => x ^ 1 * vg_nu c lm lp x) a 0) m_infty (- c / lm) /\
  is_lim (fun b => RInt (fun x => x ^ 1 * vg_nu c lm lp x) 0 b) p_infty (c / lp) /\
  levy_process_drift 0 + (- c / lm + c / lp) = vg_cumulant1 0 sigma nu theta 1 /\
  vg_cumulant1 0 sigma nu theta 1 = theta.
Proof. exact vg_levy_mean_rate. Qed.
Theorem C10_levy_direct_mean_merton_algebra : forall lam mu_j sigma_j g,
  (merton_jump mu_j sigma_j g + merton_jump mu_j sigma_j (- g)) / 2 = mu_j /\
  levy_process_drift (merton_a lam mu_j sigma_j) + lam * mu_j = merton_cumulant1 (merton_a lam mu_j sigma_j) lam mu_j sigma_j 1 /\
  merton_cumulant1 (merton_a lam mu_j sigma_j) lam mu_j sigma_j 1 = 0.
Proof. exact merton_levy_mean_rate. Qed.

(* --- HEM's jump sampler (HEMModel.jump_increment read pointwise; u, v = the two uniforms it draws, in stream order) is the
       inverse-cdf method for the normalised jump density: u < p (probability p) gives a positive jump whose conditional cdf
       hem_cdf_up x = 1 - exp(-eta1 x) the map v |-> -ln(1-v)/eta1 inverts; p <= u gives a negative jump, v |-> ln(1-v)/eta2 inverts the
       survival function 1 - exp(eta2 x); {jump <= x} is an interval of v of length cdf(x), and lam p cdf_up / lam (1-p) cdf_down are
       the (improper) integrals of the generated density hem_nu. *)
Theorem C10_hem_jump_inverse_cdf : forall lam p e1 e2 u v, 0 < e1 -> 0 < e2 -> 0 <= v < 1 ->
  (u < p ->
     0 <= hem_jump p e1 e2 u v /\ hem_cdf_up e1 (hem_jump p e1 e2 u v) = v /\
     (forall x, 0 <= x -> (hem_jump p e1 e2 u v <= x <-> v <= hem_cdf_up e1 x))) /\
  (p <= u ->
     hem_jump p e1 e2 u v <= 0 /\ hem_cdf_down e2 (hem_jump p e1 e2 u v) = 1 - v /\
     (forall x, x <= 0 -> (hem_jump p e1 e2 u v <= x <-> 1 - hem_cdf_down e2 x <= v))) /\
  (forall x, 0 <= x -> is_RInt (fun y => y ^ 0 * hem_nu lam p e1 e2 y) 0 x (lam * p * hem_cdf_up e1 x)) /\
  (forall x, x <= 0 -> is_lim (fun a => RInt (fun y => y ^ 0 * hem_nu lam p e1 e2 y) a x) m_infty (lam * (1 - p) * hem_cdf_down e2 x)).
Proof. exact hem_jump_inverse_cdf. Qed.

(* --- after the calibration sequence (deepcopy parameters, setattr, Parameters.initialisation(), rebuild): the cached constants as
       initialisation() re-derives them (hem_reinit_xi, vg_reinit_*, cgmy_reinit_*: py2coq translations of the initialisation methods)
       carry the direct-route identity (HEM), the Levy-Khintchine clause (VG) and are what cgmy_pj reads (CGMY). *)
Theorem C10_after_initialisation :
  (forall r d sigma lam p eta1 eta2, 1 < eta1 -> eta2 <> -1 ->
     direct_growth (hem_process_drift r d sigma lam eta1 (hem_reinit_xi sigma p eta1 eta2 lam)) sigma (hem_pj lam p eta1 eta2 1) = r - d) /\
  (forall sigma nu theta s, 0 < sigma -> 0 < nu ->
     let c := vg_reinit_c sigma nu theta in let lm := vg_reinit_lambda_m sigma nu theta in let lp := vg_reinit_lambda_p sigma nu theta in
     - lm < s < lp ->
     is_RInt_gen (fun x => lk_integrand ZERO true s x * vg_nu c lm lp x) (Rbar_locally m_infty) (at_left 0) (VLn c lm s) /\
     is_RInt_gen (fun x => lk_integrand ZERO true s x * vg_nu c lm lp x) (at_right 0) (Rbar_locally p_infty) (VLp c lp s) /\
     kappa 0 0 (vg_pj sigma nu theta) s = VLn c lm s + VLp c lp s) /\
  (forall (Gamma : R -> R) c g m y,
     cgmy_reinit_CGammamY Gamma c g m y = cgmy_init_CGammamY Gamma c g m y /\
     cgmy_reinit_GpowerY Gamma c g m y = Rpower g y /\ cgmy_reinit_MpowerY Gamma c g m y = Rpower m y).
Proof. exact after_initialisation. Qed.

(* --- Markov-chain route.  The chain (markovchain.py) truncates the measure, converts the triplet to TILDE with the
   TRUNCATED first moments, and uses drift = model.drift() + a_tilde + mu_tilde - mu_h.
   (1) ALGEBRA (C10_ctmc_route_algebra): with Jc a free number, the growth under "the exact law" is
       r - d - (kappa(1) - (center_drift + sigma^2/2 + Jc)); it carries no measure or integral.
   (2) CONTENT for HEM without truncation (C10_martingale_ctmc_hem): Jc is the limit of the integrals of (e^x - 1 - x) times the
       generated density, the first-moment function is the generated closed form, and the growth is r - d.
   (3) With the truncation the code applies: C10_ctmc_truncation_bias_algebra (shape of the bias, free numbers) and
       C10_ctmc_truncated_hem (HEM instance on the generated density / closed forms: growth = r - d - removed tail, strictly
       below r - d for upward jumps only).  Other models: quadrature oracle (finding F-C10-5, recorded KNOWN). *)
Theorem C10_ctmc_route_algebra : forall INF m1 fv a0 rep,
  (fv = true -> m1 (- INF) (- 0) + m1 0 INF = m1 (- INF) (-1) + m1 (-1) 1 + m1 1 INF) ->
  forall r d sigma (pj : R -> R) Jc mu_h,
  ctmc_growth_exact
    (ctmc_process_drift (exp_model_drift r d (omega_of a0 sigma pj)) (tilde_drift INF m1 fv a0 (rep_code rep))
                        (ctmc_mu_tilde INF m1 fv) mu_h) mu_h sigma Jc
  = r - d - (kappa a0 sigma pj 1 - (center_drift INF m1 fv a0 (rep_code rep) + sigma ^ 2 / 2 + Jc)).
Proof. exact ctmc_growth_algebra. Qed.
Theorem C10_martingale_ctmc_hem : forall INF lam p eta1 eta2 r d sigma mu_h, 1 < eta1 -> 0 < eta2 -> 0 < INF ->
  is_lim (fun a => RInt (fun x => (exp x - 1 - x) * hem_nu lam p eta1 eta2 x) a 0) m_infty (JcN lam p eta2) /\
  is_lim (fun b => RInt (fun x => (exp x - 1 - x) * hem_nu lam p eta1 eta2 x) 0 b) p_infty (JcP lam p eta1) /\
  ctmc_growth_exact
    (ctmc_process_drift (exp_model_drift r d (omega_of (hem_a lam p eta1 eta2) sigma (hem_pj lam p eta1 eta2)))
       (tilde_drift INF (hem_integrate_x INF lam p eta1 eta2) true (hem_a lam p eta1 eta2) (rep_code ZERO))
       (ctmc_mu_tilde INF (hem_integrate_x INF lam p eta1 eta2) true) mu_h) mu_h sigma (JcN lam p eta2 + JcP lam p eta1) = r - d.
Proof. exact hem_ctmc_route. Qed.
(* algebra over free numbers (J0, J0t, It are not tied to a measure here): the shape of the bias once the chain's first moments
   are those of a truncated measure *)
Theorem C10_ctmc_truncation_bias_algebra : forall INF m1t a0 r d sigma (pj : R -> R) J0 J0t It mu_h,
  (m1t (- INF) (- 0) + m1t 0 INF = m1t (- INF) (-1) + m1t (-1) 1 + m1t 1 INF) ->
  pj 1 = J0 -> It = m1t (- INF) (-1) + m1t (-1) 1 + m1t 1 INF ->
  ctmc_growth_exact
    (ctmc_process_drift (exp_model_drift r d (omega_of a0 sigma pj)) (tilde_drift INF m1t true a0 (rep_code ZERO))
                        (ctmc_mu_tilde INF m1t true) mu_h) mu_h sigma (J0t - It)
  = r - d - (J0 - J0t).
Proof. exact ctmc_truncation_bias_zero. Qed.
(* CONTENT, HEM with the truncation the code applies (grid inside (-1,1): -1 < l < 0 < r < 1): the first-moment function is
   truncated_integrate of the GENERATED hem_integrate_x (what TruncatedLevyMeasure.integrate_against_x computes), Jct is the
   Riemann integral of (e^x - 1 - x) times the generated density over [l, r], and the growth rate under that exact truncated law is
   r - d minus the exponential moment of the removed tails (closed form removed_tail); with upward jumps only it is strictly
   below r - d: for this instance the chain route is not a martingale (finding F-C10-5). *)
Theorem C10_ctmc_truncated_hem : forall INF lam p eta1 eta2 l r r0 d sigma mu_h,
  1 < eta1 -> 0 < eta2 -> -1 < l < 0 -> 0 < r < 1 -> 1 < INF ->
  let m1t := truncated_integrate (hem_integrate_x INF lam p eta1 eta2) l r in
  let Jct := J0t lam p eta1 eta2 l r - hem_integrate_x INF lam p eta1 eta2 l r in
  let growth := ctmc_growth_exact
    (ctmc_process_drift (exp_model_drift r0 d (omega_of (hem_a lam p eta1 eta2) sigma (hem_pj lam p eta1 eta2)))
                        (tilde_drift INF m1t true (hem_a lam p eta1 eta2) (rep_code ZERO)) (ctmc_mu_tilde INF m1t true) mu_h)
    mu_h sigma Jct in
  is_RInt (fun x => (exp x - 1 - x) * hem_nu lam p eta1 eta2 x) l r Jct /\
  growth = r0 - d - removed_tail lam p eta1 eta2 l r /\
  (p = 1 -> 0 < lam -> growth < r0 - d).
Proof. exact hem_ctmc_truncated_route. Qed.

(* --- wave 6: the characteristic exponent at a REAL argument u (complex value).  levy_exponent_c is the py2coq translation of
       LevyModel.levy_exponent over C = R * R (the pure-jump exponent is a function argument), hem_pj_c / vg_pj_c those of
       HEMModel / VarianceGammaModel.levy_exponent_pure_jump for a complex argument (Gen.GenC10Cx, plug-in py2coq_c10cx);
       psi_c a sigma pj u = levy_exponent_c a sigma pj (RtoC u).
   HEM, H_rep on the real u axis: Re and Im of exp(i u x) - 1 (declared ZERO: no compensator) integrated against the generated
   density over each half-line (improper integrals from / to the point 0) are the closed forms CLn_re, CLp_re, CLn_im, CLp_im;
   the generated complex code at i u is their sum, and the full exponent adds - sigma^2 u^2 / 2 to Re and a u to Im. *)
Theorem C10_hem_char_exponent : forall a sigma lam p eta1 eta2 u, 0 < eta1 -> 0 < eta2 ->
  let nu := hem_nu lam p eta1 eta2 in
  is_RInt_gen (fun x => lk_integrand_re u x * nu x) (Rbar_locally m_infty) (at_point 0) (CLn_re lam p eta2 u) /\
  is_RInt_gen (fun x => lk_integrand_re u x * nu x) (at_point 0) (Rbar_locally p_infty) (CLp_re lam p eta1 u) /\
  is_RInt_gen (fun x => lk_integrand_im ZERO true u x * nu x) (Rbar_locally m_infty) (at_point 0) (CLn_im lam p eta2 u) /\
  is_RInt_gen (fun x => lk_integrand_im ZERO true u x * nu x) (at_point 0) (Rbar_locally p_infty) (CLp_im lam p eta1 u) /\
  hem_pj_c lam p eta1 eta2 (Cmult Ci (RtoC u))
  = (CLn_re lam p eta2 u + CLp_re lam p eta1 u, CLn_im lam p eta2 u + CLp_im lam p eta1 u) /\
  psi_c a sigma (hem_pj_c lam p eta1 eta2) u
  = (- (sigma ^ 2 * u ^ 2) / 2 + (CLn_re lam p eta2 u + CLp_re lam p eta1 u), a * u + (CLn_im lam p eta2 u + CLp_im lam p eta1 u)).
Proof. exact hem_char_exponent_is_LK. Qed.
(* Variance Gamma at a real u, PARTIAL: only the closed form of the generated complex code (numpy's complex log: Re = ln|z|,
   Im = atan2 = atan(B/A) because A >= 1); full statement, NOT proved:
     is_RInt_gen (fun x => lk_integrand_re u x * vg_nu c lm lp x) (at_right 0) (Rbar_locally p_infty) (- c / 2 * ln (1 + u^2 / lp^2)), the
     same on the left with lm, is_RInt_gen of lk_integrand_im ... = c atan(u / lp) and - c atan(u / lm), and Re / Im of
     vg_pj_c (i u) = the sums (needs the complex Frullani integral). *)
Theorem C10_vg_char_exponent_closed_form_partial : forall a sigma0 sigma nu theta u, 0 < nu ->
  1 <= vg_A sigma nu u /\
  vg_pj_c sigma nu theta (Cmult Ci (RtoC u))
  = (- ln (sqrt (vg_A sigma nu u ^ 2 + vg_B nu theta u ^ 2)) / nu, - atan (vg_B nu theta u / vg_A sigma nu u) / nu) /\
  psi_c a sigma0 (vg_pj_c sigma nu theta) u
  = (- (sigma0 ^ 2 * u ^ 2) / 2 + Cre (vg_pj_c sigma nu theta (Cmult Ci (RtoC u))), a * u + Cim (vg_pj_c sigma nu theta (Cmult Ci (RtoC u)))).
Proof. intros a sigma0 sigma nu theta u H. split; [apply vg_A_pos; exact H | split; [apply vg_pj_c_parts; exact H | apply psi_c_parts]]. Qed.
(* Variance Gamma at a real u, PARTIAL (real part): in the generated constants c, lambda_m, lambda_p of VGParameters.__init__ (those of the
   generated density vg_nu) the squared modulus of the logarithm's argument factors as (1 + u^2/lp^2)(1 + u^2/lm^2) and the real part of the
   generated complex exponent at i u is -(c/2) ln(1 + u^2/lm^2) - (c/2) ln(1 + u^2/lp^2): the closed forms of int (cos(u x) - 1) vg_nu over
   (-oo, 0) and (0, +oo).  NOT proved: those two integral identities, and the imaginary part c atan(u/lp) - c atan(u/lm). *)
Theorem C10_vg_char_exponent_re_partial : forall sigma nu theta u, 0 < sigma -> 0 < nu ->
  let c := vg_init_c sigma nu theta in let lm := vg_init_lambda_m sigma nu theta in let lp := vg_init_lambda_p sigma nu theta in
  0 < lp /\ 0 < lm /\
  vg_A sigma nu u ^ 2 + vg_B nu theta u ^ 2 = (1 + u ^ 2 / lp ^ 2) * (1 + u ^ 2 / lm ^ 2) /\
  Cre (vg_pj_c sigma nu theta (Cmult Ci (RtoC u))) = - (c / 2) * ln (1 + u ^ 2 / lm ^ 2) + - (c / 2) * ln (1 + u ^ 2 / lp ^ 2).
Proof. exact vg_char_exponent_re. Qed.
(* the hand model kappa(s) = psi(-i s) of the statements above IS the generated complex code of levy_exponent evaluated at
   x = -1j * s (minus_i_times s), the generated complex pure-jump exponents being real on the real axis where the real code is
   defined (HEM: s off the two poles; VG: positive argument of the logarithm, vg_logarg) *)
Theorem C10_kappa_is_generated_exponent :
  (forall a sigma lam p eta1 eta2 s, s <> eta1 -> s <> - eta2 ->
     levy_exponent_c a sigma (hem_pj_c lam p eta1 eta2) (minus_i_times s) = RtoC (kappa a sigma (hem_pj lam p eta1 eta2) s)) /\
  (forall a sigma0 sigma nu theta s, nu <> 0 -> 0 < vg_logarg sigma nu theta s ->
     levy_exponent_c a sigma0 (vg_pj_c sigma nu theta) (minus_i_times s) = RtoC (kappa a sigma0 (vg_pj sigma nu theta) s)).
Proof. split; [exact kappa_is_generated_hem | exact kappa_is_generated_vg]. Qed.

(* --- wave 6 (seeded change C10_g): set_representation AS GENERATED with its exception paths and statement order.
       set_representation_gen INF m1 fv a rep target : bool * (R * R) = (did the call raise?, (self.a, self.representation) afterwards) is
       emitted from the source of LevyTriplet.set_representation (plug-in py2coq_c10set: assignments executed in source order, the
       dispatch through the dict literal self._drift_mapping of __init__, *_raises = the exception paths of the four conversions).
   (1) a call that raises leaves (a, representation) unchanged -- for ALL arguments: the raise happens before any assignment;
   (2) between admissible representations the call never raises and is the hand model set_representation of the theorems above; a
       request that is not admissible (ZERO for infinite variation) raises;
   (3) sequences on one triplet whose refused requests are caught by the caller (run_gen): any admissible request after them gives what
       it gives on the original triplet, asking for the original representation restores the state, and the canonical drift (hence
       the center drift = first cumulant of the triplet) of the state is that of the original triplet. *)
Theorem C10_refused_conversion_leaves_state : forall INF m1 fv a rep target,
  fst (set_representation_gen INF m1 fv a rep target) = true -> snd (set_representation_gen INF m1 fv a rep target) = (a, rep).
Proof. exact set_representation_gen_refused_unchanged. Qed.
Theorem C10_generated_set_representation_is_model : forall INF m1 fv r' t, valid_rep fv (t_rep t) ->
  (valid_rep fv r' ->
     set_representation_gen INF m1 fv (t_a t) (rep_code (t_rep t)) (rep_code r')
     = (false, (t_a (set_representation INF m1 fv r' t), rep_code (t_rep (set_representation INF m1 fv r' t))))) /\
  (~ valid_rep fv r' ->
     set_representation_gen INF m1 fv (t_a t) (rep_code (t_rep t)) (rep_code r') = (true, (t_a t, rep_code (t_rep t)))).
Proof. intros INF m1 fv r' t Ht. split; intros Hr; [apply set_representation_gen_admissible | apply set_representation_gen_refused]; assumption. Qed.
Theorem C10_conversions_with_refused_requests : forall INF m1 fv rs t, valid_rep fv (t_rep t) ->
  (forall r, valid_rep fv r -> run_gen INF m1 fv (rs ++ [r]) (state_of t) = state_of (set_representation INF m1 fv r t)) /\
  run_gen INF m1 fv (rs ++ [t_rep t]) (state_of t) = state_of t /\
  run_gen INF m1 fv rs (state_of t) = state_of (set_representations INF m1 fv (filter (valid_repb fv) rs) t) /\
  canonical_of INF m1 fv (set_representations INF m1 fv (filter (valid_repb fv) rs) t) = canonical_of INF m1 fv t.
Proof.
  intros INF m1 fv rs t Ht. split; [intros r Hr; apply run_gen_path_independent; assumption|].
  split; [apply run_gen_reversible; assumption|]. split; [apply run_gen_spec; assumption | apply run_gen_center_drift; assumption].
Qed.

(* non-vacuity: a concrete chain of conversions *)
Example C10_nonvacuous : forall INF m1,
  t_a (set_representation INF m1 true CENTER (set_representation INF m1 true ONEONE (mkTriplet 5 ZERO)))
  = 5 + m1 (-1) 1 + (m1 (- INF) (-1) + m1 1 INF).
Proof. exact conversions_example. Qed.
(* non-vacuity of the Variance Gamma statements (sigma = 1, nu = 2, theta = 0: c = 1/2, lambda_p = lambda_m = 1, s = 1/2 inside the
   strip with a non-zero exponent) and of the sampler statement (both branches, jumps +1 and -1) *)
Example C10_vg_nonvacuous : vg_init_c 1 2 0 = / 2 /\ vg_init_lambda_p 1 2 0 = 1 /\ vg_init_lambda_m 1 2 0 = 1 /\
  - vg_init_lambda_m 1 2 0 < 1 / 2 < vg_init_lambda_p 1 2 0 /\ 0 < VLp (/ 2) 1 (1 / 2).
Proof. exact vg_example. Qed.
Example C10_hem_jump_nonvacuous :
  hem_jump (1 / 2) 2 3 (1 / 4) (1 - exp (- 2)) = 1 /\ hem_jump (1 / 2) 2 3 (3 / 4) (1 - exp (- 3)) = - 1.
Proof. exact hem_jump_example. Qed.

(* non-vacuity of the wave-6 statements: HEM lam = 1, p = 1/2, eta1 = 2, eta2 = 3 at u = 1: the four half-line integrals are non-zero
   and the exponent is the non-real number -3/20 + i/20; VG: the logarithm's argument is positive at s = 1/2, and A = 2, B = -1 at u = 1 *)
Example C10_cx_nonvacuous :
  CLp_re 1 (1 / 2) 2 1 = - (1 / 10) /\ CLp_im 1 (1 / 2) 2 1 = 1 / 5 /\ CLn_re 1 (1 / 2) 3 1 = - (1 / 20) /\ CLn_im 1 (1 / 2) 3 1 = - (3 / 20) /\
  psi_c 0 0 (hem_pj_c 1 (1 / 2) 2 3) 1 = (- (3 / 20), 1 / 20) /\
  0 < vg_logarg 1 2 0 (1 / 2) /\ vg_A 1 2 1 = 2 /\ vg_B 2 (1 / 2) 1 = - 1.
Proof. exact cx_example. Qed.

(* non-vacuity (the scenario of the seeded change): infinite variation, CENTER, a = 5: ZERO is refused and nothing changes, TILDE is then granted *)
Example C10_refused_nonvacuous : forall INF m1,
  set_representation_gen INF m1 false 5 (rep_code CENTER) (rep_code ZERO) = (true, (5, rep_code CENTER)) /\
  run_gen INF m1 false [ZERO; TILDE] (state_of (mkTriplet 5 CENTER)) = (5 - (m1 (- INF) (-1) + m1 1 INF), rep_code TILDE).
Proof. exact set_representation_gen_example. Qed.

Print Assumptions C10_conversions_path_independent.
Print Assumptions C10_conversions_any_sequence.
Print Assumptions C10_conversions_reversible.
Print Assumptions C10_conversions_meaning.
Print Assumptions C10_conversions_zero_needs_finite_variation.
Print Assumptions C10_conversions_need_guard.
Print Assumptions C10_martingale_cf_algebra.
Print Assumptions C10_martingale_direct_bs.
Print Assumptions C10_martingale_direct_merton.
Print Assumptions C10_martingale_direct_hem.
Print Assumptions C10_forward_direct_algebra.
Print Assumptions C10_cumulants_hem.
Print Assumptions C10_cumulants_merton.
Print Assumptions C10_cumulants_vg.
Print Assumptions C10_cumulants_cgmy_partial.
Print Assumptions C10_hem_exponent.
Print Assumptions C10_vg_exponent.
Print Assumptions C10_levy_direct_mean_hem.
Print Assumptions C10_levy_direct_mean_vg.
Print Assumptions C10_levy_direct_mean_merton_algebra.
Print Assumptions C10_hem_jump_inverse_cdf.
Print Assumptions C10_after_initialisation.
Print Assumptions C10_ctmc_route_algebra.
Print Assumptions C10_martingale_ctmc_hem.
Print Assumptions C10_ctmc_truncation_bias_algebra.
Print Assumptions C10_ctmc_truncated_hem.
Print Assumptions C10_hem_char_exponent.
Print Assumptions C10_vg_char_exponent_closed_form_partial.
Print Assumptions C10_vg_char_exponent_re_partial.
Print Assumptions C10_kappa_is_generated_exponent.
Print Assumptions C10_refused_conversion_leaves_state.
Print Assumptions C10_generated_set_representation_is_model.
Print Assumptions C10_conversions_with_refused_requests.
Print Assumptions C10_nonvacuous.
Print Assumptions C10_vg_nonvacuous.
Print Assumptions C10_hem_jump_nonvacuous.
Print Assumptions C10_cx_nonvacuous.
Print Assumptions C10_refused_nonvacuous.

(* C11 -- the Levy copulas are Levy copulas: grounded, d-increasing, uniform margins.
   Only statements; proofs live in Proofs/C11_Copula.v and Proofs/C11_Clayton.v.
   Models (Model/Copula.v): indep / dep = Independent/DependentComponentsCopula.__call__ over a Num
   (here the reals), clayton = ClaytonCopula.__call__, margin / volume = the operators of
   levycopulamodel.py, clayton_cond / clayton_inv / clayton_xderiv2 = the 2-d conditional distribution,
   its closed-form inverse and x_first_derivative.  Arguments are extended reals (ext R). *)
From Coq Require Import List Arith Bool Reals QArith.
From Coquelicot Require Import Coquelicot.
From RV Require Import Base.RB Base.ExtNum Model.Copula Proofs.C11_Copula Proofs.C11_Clayton Proofs.C11_Increasing Proofs.C11_Dep3
  Proofs.C11_CondDist Proofs.C11_Mixed.
Import ListNotations.
Open Scope R_scope.

(* vanishes when any argument is zero: all three copulas, d = 2 and 3, every theta, eta *)
Theorem C11_grounded : forall th et u v,
  (indep RNum [Fin 0; v] = 0 /\ indep RNum [v; Fin 0] = 0) /\
  (indep RNum [Fin 0; u; v] = 0 /\ indep RNum [u; Fin 0; v] = 0 /\ indep RNum [u; v; Fin 0] = 0) /\
  (dep RNum [Fin 0; v] = 0 /\ dep RNum [v; Fin 0] = 0) /\
  (dep RNum [Fin 0; u; v] = 0 /\ dep RNum [u; Fin 0; v] = 0 /\ dep RNum [u; v; Fin 0] = 0) /\
  (clayton th et [Fin 0; v] = 0 /\ clayton th et [v; Fin 0] = 0) /\
  (clayton th et [Fin 0; u; v] = 0 /\ clayton th et [u; Fin 0; v] = 0 /\ clayton th et [u; v; Fin 0] = 0).
Proof.
  intros. repeat apply conj;
    first [ apply indep_grounded2 | apply indep_grounded3 | apply dep_grounded2 | apply dep_grounded3
          | apply clayton_grounded2 | apply clayton_grounded3 ].
Qed.

(* one-dimensional margins (as computed by `margin`: signed sum over the +-inf corners of the other
   coordinates) are the identity: all three copulas, d = 2 and 3, every theta > 0, every eta *)
Theorem C11_margins_identity : forall th et (u : R), 0 < th ->
  (margin RNum (indep RNum) [0%nat] 2 [Fin u] = u /\ margin RNum (indep RNum) [1%nat] 2 [Fin u] = u) /\
  (margin RNum (indep RNum) [0%nat] 3 [Fin u] = u /\ margin RNum (indep RNum) [1%nat] 3 [Fin u] = u /\ margin RNum (indep RNum) [2%nat] 3 [Fin u] = u) /\
  (margin RNum (dep RNum) [0%nat] 2 [Fin u] = u /\ margin RNum (dep RNum) [1%nat] 2 [Fin u] = u) /\
  (margin RNum (dep RNum) [0%nat] 3 [Fin u] = u /\ margin RNum (dep RNum) [1%nat] 3 [Fin u] = u /\ margin RNum (dep RNum) [2%nat] 3 [Fin u] = u) /\
  (margin RNum (clayton th et) [0%nat] 2 [Fin u] = u /\ margin RNum (clayton th et) [1%nat] 2 [Fin u] = u) /\
  (margin RNum (clayton th et) [0%nat] 3 [Fin u] = u /\ margin RNum (clayton th et) [1%nat] 3 [Fin u] = u /\ margin RNum (clayton th et) [2%nat] 3 [Fin u] = u).
Proof.
  intros th et u Hth. split. exact (indep_margins2 u). split. exact (indep_margins3 u). split. exact (dep_margins2 u).
  split. exact (dep_margins3 u). split. exact (clayton_margins2 th et u Hth). exact (clayton_margins3 th et u Hth).
Qed.

(* d-increasing: non-negative volume of every rectangle (u1,u2] x ... of (-inf, inf]^d that has at least
   one side finite at both ends (no all-infinite corner).  Together with the two theorems above this is
   `copula2_ok` / `copula3_ok`, the hypothesis of C12_nonneg_2d / C12_nonneg_3d. *)
Theorem C11_indep_increasing : copula2_ok (indep RNum) /\ copula3_ok (indep RNum).
Proof. exact (conj indep_copula2_ok indep_copula3_ok). Qed.

Theorem C11_dep_increasing : copula2_ok (dep RNum) /\ copula3_ok (dep RNum).
Proof. exact (conj dep_copula2_ok dep_copula3_ok). Qed.

(* Clayton, every theta > 0, eta in [0,1]: EVERY rectangle of (-inf, inf]^d with a finite side -- across quadrants /
   octants, end points 0 and +-inf included -- has non-negative volume, d = 2 and 3 (kernel in p = |u|^-theta coordinates:
   finite differences of t^(-1/theta) by the mean value theorem; assembly by splitting at 0 with weights eta, 1-eta >= 0) *)
Theorem C11_clayton_increasing : forall th et, 0 < th -> 0 <= et <= 1 -> copula2_ok (clayton th et) /\ copula3_ok (clayton th et).
Proof. intros. split; [apply clayton_copula2_ok | apply clayton_copula3_ok]; assumption. Qed.

(* the Clayton conditional distribution x |-> F_eps(x) is a distribution function: values in [0,1], non-decreasing (across 0
   too), limits 0 / 1, and the closed-form inverse is a right inverse on (0,1) minus the value at the jump-free point x = 0 *)
Theorem C11_conditional_distribution : forall th et eps, 0 < th -> eps <> 0 ->
  (0 <= et <= 1 -> forall x, x <> 0 -> 0 <= clayton_cond th et eps x <= 1) /\
  (0 <= et <= 1 -> forall x y, x <> 0 -> y <> 0 -> x <= y -> clayton_cond th et eps x <= clayton_cond th et eps y) /\
  (0 < et < 1 -> forall u, 0 < u < 1 -> u <> (if Rleb 0 eps then 1 - et else et) -> clayton_cond th et eps (clayton_inv th et eps u) = u) /\
  (0 < et < 1 -> forall delta, 0 < delta -> exists M, 0 < M /\ (forall x, M < x -> 1 - delta <= clayton_cond th et eps x <= 1) /\
                                                     (forall x, x < - M -> 0 <= clayton_cond th et eps x <= delta)).
Proof.
  intros th et eps Hth He. split; [|split; [|split]].
  - intros Het x Hx. apply cond_range; assumption.
  - intros Het x y Hx Hy Hxy. apply cond_monotone; assumption.
  - intros Het u Hu Hj. apply cond_right_inverse; assumption.
  - intros Het delta Hd. apply cond_limits; assumption.
Qed.

(* the stated inverse inverts the conditional distribution, both signs of eps and of x *)
Theorem C11_conditional_inverse : forall th et, 0 < th -> 0 < et < 1 ->
  forall eps x, eps <> 0 -> x <> 0 -> clayton_inv th et eps (clayton_cond th et eps x) = x.
Proof. exact clayton_inverse. Qed.

(* x_first_derivative, d = 2, all four open quadrants: the mixed partial derivative of the copula is
   sign(u) sign(v) * x_first_derivative(u, v)  (clD1 is the first partial in v).  Full statement also for d = 3: finite differences only. *)
Theorem C11_mixed_derivative_partial : forall th et u v, 0 < th -> u <> 0 -> v <> 0 ->
  is_derive (fun y => clayton th et [Fin u; Fin y]) v (clD1 th et u v) /\
  is_derive (fun x => clD1 th et x v) u (sg u * sg v * clayton_xderiv2 th et u v).
Proof. exact clayton_mixed_partial. Qed.

(* ... and therefore NOT "the mixed partial times the product of its arguments" (finding F-C11-1) *)
Theorem C11_mixed_derivative_times_product_refuted :
  exists th et u v, 0 < th /\ 0 < et <= 1 /\ 0 < u /\ 0 < v /\
    clayton_xderiv2 th et u v = et * d2C th u v /\ clayton_xderiv2 th et u v <> u * v * (et * d2C th u v).
Proof. exact clayton_xderiv2_times_product_refuted. Qed.

(* non-vacuity: the Q instances of the same definitions evaluate *)
Open Scope Q_scope.
Example C11_nonvacuous :
  Qeq_bool (indep QNum [Fin (3#2); PInf]) (3#2) = true /\ Qeq_bool (dep QNum [Fin (-(3#2)); Fin (-2); NInf]) (-(3#2)) = true /\
  Qeq_bool (margin QNum (dep QNum) [1%nat] 3 [Fin (-(5#4))]) (-(5#4)) = true /\
  Qeq_bool (volume QNum (dep QNum) [Fin 1; Fin (1#2)] [Fin 3; PInf]) 2 = true.
Proof. vm_compute. repeat split. Qed.

Print Assumptions C11_grounded.
Print Assumptions C11_margins_identity.
Print Assumptions C11_indep_increasing.
Print Assumptions C11_dep_increasing.
Print Assumptions C11_clayton_increasing.
Print Assumptions C11_conditional_distribution.
Print Assumptions C11_conditional_inverse.
Print Assumptions C11_mixed_derivative_partial.
Print Assumptions C11_mixed_derivative_times_product_refuted.
Print Assumptions C11_nonvacuous.

(* C11 -- the Levy copulas are Levy copulas: grounded, d-increasing, uniform margins.
   Only statements; proofs live in Proofs/C11_Copula.v and Proofs/C11_Clayton.v.
   Models (Model/Copula.v): indep / dep = Independent/DependentComponentsCopula.__call__ over a Num
   (here the reals), clayton = ClaytonCopula.__call__, margin / volume = the operators of
   levycopulamodel.py, clayton_cond / clayton_inv / clayton_xderiv2 = the 2-d conditional distribution,
   its closed-form inverse and x_first_derivative.  Arguments are extended reals (ext R).
   Wave 5 (Model/CopulaX.v): clayton_xderiv = x_first_derivative in any dimension (zero entries included), clayton_cond_x = the
   conditional distribution on the extended domain (x = +-inf, x = 0, eps = 0 with numpy's inf / power conventions). *)
From Coq Require Import List Arith Bool Reals QArith.
From Coquelicot Require Import Coquelicot.
From RV Require Import Base.RB Base.ExtNum Model.Copula Model.CopulaX Proofs.C11_Copula Proofs.C11_Clayton Proofs.C11_Increasing Proofs.C11_Dep3
  Proofs.C11_CondDist Proofs.C11_Mixed Proofs.C11_Mixed3 Proofs.C11_CondX Proofs.C11_W5
  Gen.GenC11Clayton Proofs.C11_Gen Model.CopulaX6 Proofs.C11_W6.
Import ListNotations.
Open Scope R_scope.

(* vanishes when any argument is zero: all three copulas, d = 2 and 3, every theta, eta *)
Theorem C11_grounded : forall th et u v,
  (indep RNum [Fin 0; v] = 0 /\ indep RNum [v; Fin 0] = 0) /\
  (indep RNum [Fin 0; u; v] = 0 /\ indep RNum [u; Fin 0; v] = 0 /\ indep RNum [u; v; Fin 0] = 0) /\
  (dep RNum [Fin 0; v] = 0 /\ dep RNum [v; Fin 0] = 0) /\
  (dep RNum [Fin 0; u; v] = 0 /\ dep RNum [u; Fin 0; v] = 0 /\ dep RNum [u; v; Fin 0] = 0) /\
  (clayton th et [Fin 0; v] = 0 /\ clayton th et [v; Fin 0] = 0) /\
  (clayton th et [Fin 0; u; v] = 0 /\ clayton th et [u; Fin 0; v] = 0 /\ clayton th et [u; v; Fin 0] = 0).
Proof.
  intros. repeat apply conj;
    first [ apply indep_grounded2 | apply indep_grounded3 | apply dep_grounded2 | apply dep_grounded3
          | apply clayton_grounded2 | apply clayton_grounded3 ].
Qed.

(* one-dimensional margins (as computed by `margin`: signed sum over the +-inf corners of the other
   coordinates) are the identity: all three copulas, d = 2 and 3, every theta > 0, every eta *)
Theorem C11_margins_identity : forall th et (u : R), 0 < th ->
  (margin RNum (indep RNum) [0%nat] 2 [Fin u] = u /\ margin RNum (indep RNum) [1%nat] 2 [Fin u] = u) /\
  (margin RNum (indep RNum) [0%nat] 3 [Fin u] = u /\ margin RNum (indep RNum) [1%nat] 3 [Fin u] = u /\ margin RNum (indep RNum) [2%nat] 3 [Fin u] = u) /\
  (margin RNum (dep RNum) [0%nat] 2 [Fin u] = u /\ margin RNum (dep RNum) [1%nat] 2 [Fin u] = u) /\
  (margin RNum (dep RNum) [0%nat] 3 [Fin u] = u /\ margin RNum (dep RNum) [1%nat] 3 [Fin u] = u /\ margin RNum (dep RNum) [2%nat] 3 [Fin u] = u) /\
  (margin RNum (clayton th et) [0%nat] 2 [Fin u] = u /\ margin RNum (clayton th et) [1%nat] 2 [Fin u] = u) /\
  (margin RNum (clayton th et) [0%nat] 3 [Fin u] = u /\ margin RNum (clayton th et) [1%nat] 3 [Fin u] = u /\ margin RNum (clayton th et) [2%nat] 3 [Fin u] = u).
Proof.
  intros th et u Hth. split. exact (indep_margins2 u). split. exact (indep_margins3 u). split. exact (dep_margins2 u).
  split. exact (dep_margins3 u). split. exact (clayton_margins2 th et u Hth). exact (clayton_margins3 th et u Hth).
Qed.

(* d-increasing: non-negative volume of every rectangle (u1,u2] x ... of (-inf, inf]^d that has at least
   one side finite at both ends (no all-infinite corner).  Together with the two theorems above this is
   `copula2_ok` / `copula3_ok`, the hypothesis of C12_nonneg_2d / C12_nonneg_3d. *)
Theorem C11_indep_increasing : copula2_ok (indep RNum) /\ copula3_ok (indep RNum).
Proof. exact (conj indep_copula2_ok indep_copula3_ok). Qed.

Theorem C11_dep_increasing : copula2_ok (dep RNum) /\ copula3_ok (dep RNum).
Proof. exact (conj dep_copula2_ok dep_copula3_ok). Qed.

(* Clayton, every theta > 0, eta in [0,1]: EVERY rectangle of (-inf, inf]^d with a finite side -- across quadrants /
   octants, end points 0 and +-inf included -- has non-negative volume, d = 2 and 3 (kernel in p = |u|^-theta coordinates:
   finite differences of t^(-1/theta) by the mean value theorem; assembly by splitting at 0 with weights eta, 1-eta >= 0) *)
Theorem C11_clayton_increasing : forall th et, 0 < th -> 0 <= et <= 1 -> copula2_ok (clayton th et) /\ copula3_ok (clayton th et).
Proof. intros. split; [apply clayton_copula2_ok | apply clayton_copula3_ok]; assumption. Qed.

(* the Clayton conditional distribution x |-> F_eps(x) is a distribution function: values in [0,1], non-decreasing (across 0
   too), limits 0 / 1, and the closed-form inverse is a right inverse on (0,1) minus the value at the jump-free point x = 0 *)
Theorem C11_conditional_distribution : forall th et eps, 0 < th -> eps <> 0 ->
  (0 <= et <= 1 -> forall x, x <> 0 -> 0 <= clayton_cond th et eps x <= 1) /\
  (0 <= et <= 1 -> forall x y, x <> 0 -> y <> 0 -> x <= y -> clayton_cond th et eps x <= clayton_cond th et eps y) /\
  (0 < et < 1 -> forall u, 0 < u < 1 -> u <> (if Rleb 0 eps then 1 - et else et) -> clayton_cond th et eps (clayton_inv th et eps u) = u) /\
  (0 < et < 1 -> forall delta, 0 < delta -> exists M, 0 < M /\ (forall x, M < x -> 1 - delta <= clayton_cond th et eps x <= 1) /\
                                                     (forall x, x < - M -> 0 <= clayton_cond th et eps x <= delta)).
Proof.
  intros th et eps Hth He. split; [|split; [|split]].
  - intros Het x Hx. apply cond_range; assumption.
  - intros Het x y Hx Hy Hxy. apply cond_monotone; assumption.
  - intros Het u Hu Hj. apply cond_right_inverse; assumption.
  - intros Het delta Hd. apply cond_limits; assumption.
Qed.

(* the stated inverse inverts the conditional distribution, both signs of eps and of x *)
Theorem C11_conditional_inverse : forall th et, 0 < th -> 0 < et < 1 ->
  forall eps x, eps <> 0 -> x <> 0 -> clayton_inv th et eps (clayton_cond th et eps x) = x.
Proof. exact clayton_inverse. Qed.

(* x_first_derivative, d = 2, all four open quadrants: the mixed partial derivative of the copula is
   sign(u) sign(v) * x_first_derivative(u, v)  (clD1 is the first partial in v).  d = 3: C11_mixed_derivative_3d below.
   `_partial` because the property's own wording ("times the product of its arguments") is false of the code: see the _refuted theorem. *)
Theorem C11_mixed_derivative_partial : forall th et u v, 0 < th -> u <> 0 -> v <> 0 ->
  is_derive (fun y => clayton th et [Fin u; Fin y]) v (clD1 th et u v) /\
  is_derive (fun x => clD1 th et x v) u (sg u * sg v * clayton_xderiv2 th et u v).
Proof. exact clayton_mixed_partial. Qed.

(* ... and therefore NOT "the mixed partial times the product of its arguments" (finding F-C11-1) *)
Theorem C11_mixed_derivative_times_product_refuted :
  exists th et u v, 0 < th /\ 0 < et <= 1 /\ 0 < u /\ 0 < v /\
    clayton_xderiv2 th et u v = et * d2C th u v /\ clayton_xderiv2 th et u v <> u * v * (et * d2C th u v).
Proof. exact clayton_xderiv2_times_product_refuted. Qed.

(* ---- wave 5 ------------------------------------------------------------------------------------------------------ *)
(* x_first_derivative, d = 3, all eight open octants: the THIRD mixed partial of the 3-d Clayton copula is
   sign(u) sign(v) sign(w) * x_first_derivative([u, v, w])   (clD3_1 = dF/dw, clD3_2 = d2F/dv dw, closed forms in Proofs/C11_Mixed3.v);
   it is non-negative for eta in [0,1] and positive for 0 < eta < 1 -- the differential form of 3-increasing inside an octant;
   so the code's value has the sign of u v w (F-C11-1 also in d = 3). *)
Theorem C11_mixed_derivative_3d : forall th et u v w, 0 < th -> u <> 0 -> v <> 0 -> w <> 0 ->
  (is_derive (fun z => clayton th et [Fin u; Fin v; Fin z]) w (clD3_1 th et u v w) /\
   is_derive (fun y => clD3_1 th et u y w) v (clD3_2 th et u v w) /\
   is_derive (fun x => clD3_2 th et x v w) u (sg u * sg v * sg w * clayton_xderiv th et [u; v; w])) /\
  (0 <= et <= 1 -> 0 <= sg u * sg v * sg w * clayton_xderiv th et [u; v; w]) /\
  (0 < et < 1 -> 0 < sg u * sg v * sg w * clayton_xderiv th et [u; v; w]).
Proof. exact w5_mixed_derivative_3d. Qed.

(* the any-dimension model of x_first_derivative specialises to the d = 2 model used by C11_mixed_derivative_partial, and returns 0
   as soon as one entry is 0 (the `np.any(u == 0)` branch), in every dimension *)
Theorem C11_xderiv_dimension_link : forall th et,
  (forall u v, u <> 0 -> v <> 0 -> clayton_xderiv th et [u; v] = clayton_xderiv2 th et u v) /\
  (forall us, In 0 us -> clayton_xderiv th et us = 0).
Proof. intros th et. split. apply clayton_xderiv_d2. apply clayton_xderiv_zero. Qed.

(* the conditional distribution on the EXTENDED domain: x in {-inf} u R u {+inf}, every real eps -- eps = 0 included; only the
   pair (eps, x) = (0, 0), where the code evaluates 0/0 = nan, is excluded (cond_defined).  Every theta > 0, every eta in [0,1]:
   (1) on finite x <> 0, eps <> 0 it is the finite model of C11_conditional_distribution;  (2) exact values: 1 at +inf, 0 at -inf
   (every eps), the unit step for eps = 0, the plateau 1-eta / eta at x = 0;  (3) range [0,1];  (4) non-decreasing on the whole
   extended line (through 0 and up to +-inf);  (5) the values at +-inf are the limits of the finite values (every eps, every eta in
   [0,1]) and the value at 0 is the two-sided limit (continuity at 0, eps <> 0). *)
Theorem C11_conditional_distribution_extended : forall th et, 0 < th -> 0 <= et <= 1 ->
  (forall eps x, eps <> 0 -> x <> 0 -> clayton_cond_x th et eps (Fin x) = clayton_cond th et eps x) /\
  (forall eps, clayton_cond_x th et eps PInf = 1 /\ clayton_cond_x th et eps NInf = 0) /\
  (forall x, x <> 0 -> clayton_cond_x th et 0 (Fin x) = if Rltb x 0 then 0 else 1) /\
  (forall eps, clayton_cond_x th et eps (Fin 0) = if Rleb 0 eps then 1 - et else et) /\
  (forall eps x, cond_defined eps x = true -> 0 <= clayton_cond_x th et eps x <= 1) /\
  (forall eps x y, cond_defined eps x = true -> cond_defined eps y = true -> @xleb RNum x y = true ->
     clayton_cond_x th et eps x <= clayton_cond_x th et eps y) /\
  (forall eps, is_lim (fun x => clayton_cond_x th et eps (Fin x)) p_infty (clayton_cond_x th et eps PInf) /\
               is_lim (fun x => clayton_cond_x th et eps (Fin x)) m_infty (clayton_cond_x th et eps NInf)) /\
  (forall eps, eps <> 0 -> is_lim (fun x => clayton_cond_x th et eps (Fin x)) 0 (clayton_cond_x th et eps (Fin 0))).
Proof. exact w5_conditional_distribution_extended. Qed.

(* the source text of _condition_distribution_2d and _inverse_conditional_distribution_2d, translated by py2coq on every run
   (Gen/GenC11Clayton.v: gen_clayton_cond, gen_clayton_inv), IS the pair of hand models the theorems above are about -- equality for
   ALL arguments -- and it agrees with the extended model on finite non-zero arguments; the left / right inverse and the
   distribution-function facts restated on the generated definitions *)
Theorem C11_generated_models : forall th et, 0 < th ->
  (forall eps x, gen_clayton_cond th et eps x = clayton_cond th et eps x) /\
  (forall eps u, gen_clayton_inv th et eps u = clayton_inv th et eps u) /\
  (forall eps x, eps <> 0 -> x <> 0 -> clayton_cond_x th et eps (Fin x) = gen_clayton_cond th et eps x) /\
  (0 < et < 1 -> forall eps x, eps <> 0 -> x <> 0 -> gen_clayton_inv th et eps (gen_clayton_cond th et eps x) = x) /\
  (0 < et < 1 -> forall eps u, eps <> 0 -> 0 < u < 1 -> u <> (if Rleb 0 eps then 1 - et else et) ->
     gen_clayton_cond th et eps (gen_clayton_inv th et eps u) = u) /\
  (0 <= et <= 1 -> forall eps x y, eps <> 0 -> x <> 0 -> y <> 0 -> x <= y ->
     0 <= gen_clayton_cond th et eps x /\ gen_clayton_cond th et eps x <= gen_clayton_cond th et eps y /\ gen_clayton_cond th et eps y <= 1).
Proof. exact gen_clayton_facts. Qed.

(* non-vacuity of the wave-5 theorems: a mixed-sign octant with 0 < eta < 1 (all hypotheses of C11_mixed_derivative_3d hold and the
   code's value is strictly NEGATIVE there while the mixed partial is positive); the extended conditional distribution at
   eps = 0 and at x = +-inf, x = 0 takes the four distinct values 0, 1, 1 - eta, eta *)
Example C11_nonvacuous_w5 :
  (0 < 2 /\ 0 < / 4 < 1 /\ -1 <> 0 /\ 2 <> 0 /\ 3 <> 0 /\ clayton_xderiv 2 (/ 4) [-1; 2; 3] < 0) /\
  (cond_defined 0 (Fin 5) = true /\ clayton_cond_x 2 (/ 4) 0 (Fin 5) = 1 /\ clayton_cond_x 2 (/ 4) 0 (Fin (-5)) = 0) /\
  (clayton_cond_x 2 (/ 4) 3 (Fin 0) = 1 - / 4 /\ clayton_cond_x 2 (/ 4) (-3) (Fin 0) = / 4 /\
   clayton_cond_x 2 (/ 4) (-3) PInf = 1 /\ clayton_cond_x 2 (/ 4) 0 NInf = 0).
Proof. exact w5_nonvacuous. Qed.

(* ---- wave 6 ------------------------------------------------------------------------------------------------------ *)
(* DependentComponentsCopula.conditional_distribution (model dep_cond) is a COUNTER of the +inf entries: between 0 and the length (1 for
   the single argument of a 2-d copula), equal to the length iff every entry is +inf, non-decreasing in every coordinate of the extended
   line.  Against the dependent copula's own volume (dep_strip xi h x = volume of (xi, xi+h] x (-inf, x], Model/CopulaX6.v): h * counter IS
   that volume at x = +-inf (every xi, the strip may straddle 0) and for every finite x <= xi; for finite x >= xi + h the strip has volume
   h (conditional distribution 1) while the counter says 0 -- see the _refuted theorem. *)
Theorem C11_dependent_conditional_counter :
  (forall x : list (ext R), (dep_cond x <= length x)%nat /\ (dep_cond x = length x <-> List.Forall (fun t => t = PInf) x)) /\
  (forall t : ext R, dep_cond [t] = if @xleb RNum PInf t then 1%nat else 0%nat) /\
  (forall x y : list (ext R), List.Forall2 (fun a b => @xleb RNum a b = true) x y -> (dep_cond x <= dep_cond y)%nat) /\
  (forall xi h, 0 < h -> dep_strip xi h PInf = h * INR (dep_cond [@PInf R]) /\ dep_strip xi h NInf = h * INR (dep_cond [@NInf R])) /\
  (forall xi h x, 0 < h -> 0 < xi \/ xi + h < 0 -> x <= xi -> dep_strip xi h (Fin x) = h * INR (dep_cond [Fin x])) /\
  (forall xi h x, 0 < h -> 0 < xi \/ xi + h < 0 -> xi + h <= x -> dep_strip xi h (Fin x) = h /\ dep_cond [Fin x] = 0%nat).
Proof. exact w6_dependent_conditional_counter. Qed.

(* ... hence the counter is NOT the conditional distribution of the completely dependent copula (which is the unit step at x = xi):
   a strip (xi, xi+h] x (-inf, x] of volume h on which h * counter = 0.  The method has no caller in the library; C11's statement
   speaks of the Clayton conditional distribution only (recorded as an observation, not as a violation). *)
Theorem C11_dependent_conditional_is_volume_derivative_refuted :
  exists xi h x, 0 < xi /\ 0 < h /\ dep_strip xi h (Fin x) = h /\ h * INR (dep_cond [Fin x]) <> dep_strip xi h (Fin x).
Proof. exact w6_dependent_conditional_refuted. Qed.

(* the closed-form inverse on the CLOSED interval [0,1] with numpy's conventions (clayton_inv_x, Model/CopulaX6.v), 0 < eta < 1, eps <> 0:
   +inf at u = 1, -inf at u = 0, 0 at the plateau value, the finite model elsewhere; never nan on [0,1]; it is the two-sided inverse of the
   extended conditional distribution -- a bijection between the extended line [-inf, +inf] and [0,1] -- and non-decreasing. *)
Theorem C11_inverse_conditional_extended : forall th et eps, 0 < th -> 0 < et < 1 -> eps <> 0 ->
  (clayton_inv_x th et eps 1 = PInf /\ clayton_inv_x th et eps 0 = NInf /\
   clayton_inv_x th et eps (if Rleb 0 eps then 1 - et else et) = Fin 0) /\
  (forall u, 0 < u < 1 -> u <> (if Rleb 0 eps then 1 - et else et) -> clayton_inv_x th et eps u = Fin (clayton_inv th et eps u)) /\
  (forall u, 0 <= u <= 1 -> inv_defined th et eps u = true) /\
  (forall x : ext R, clayton_inv_x th et eps (clayton_cond_x th et eps x) = x) /\
  (forall u, 0 <= u <= 1 -> clayton_cond_x th et eps (clayton_inv_x th et eps u) = u) /\
  (forall u v, 0 <= u <= 1 -> 0 <= v <= 1 -> u < v -> @xleb RNum (clayton_inv_x th et eps u) (clayton_inv_x th et eps v) = true).
Proof. exact w6_inverse_conditional_extended. Qed.

(* ClaytonCopula.__call__ on EVERY vector (clayton_x): the finite model when an entry is finite; on all-infinite vectors, 0 < eta < 1, the
   value is defined and is +inf for an even number of -inf entries, -inf for an odd number; for eta in [0,1] the nan cases (inf * 0) are
   exactly eta = 0 with an even and eta = 1 with an odd number of -inf entries.  Any dimension. *)
Theorem C11_clayton_all_infinite : forall th et us,
  (all_inf RNum us = false -> clayton_x_defined et us = true /\ clayton_x th et us = Fin (clayton th et us)) /\
  (0 < et < 1 -> all_inf RNum us = true ->
     clayton_x_defined et us = true /\ clayton_x th et us = if Nat.even (count_ninf RNum us) then PInf else NInf) /\
  (0 <= et <= 1 -> all_inf RNum us = true ->
     (clayton_x_defined et us = false <-> (et = 0 /\ Nat.even (count_ninf RNum us) = true) \/ (et = 1 /\ Nat.odd (count_ninf RNum us) = true))).
Proof. exact w6_clayton_all_infinite. Qed.

(* non-vacuity of the wave-6 theorems: concrete strips on both sides of 0, the inverse at an end point / the plateau / inside, Clayton on
   all-infinite vectors of both parities, and both outcomes of clayton_x_defined *)
Example C11_nonvacuous_w6 :
  (dep_cond [@PInf R; Fin 2; PInf] = 2%nat /\ dep_strip 1 1 (Fin 3) = 1 /\ dep_strip (-3) 1 (Fin (-5)) = 0) /\
  (clayton_inv_x 2 (/ 4) 3 1 = PInf /\ clayton_inv_x 2 (/ 4) (-3) (/ 4) = Fin 0 /\ clayton_cond_x 2 (/ 4) 3 (clayton_inv_x 2 (/ 4) 3 (/ 2)) = / 2) /\
  (clayton_x 2 (/ 4) [NInf; PInf] = NInf /\ clayton_x 2 (/ 4) [NInf; NInf; PInf] = PInf /\
   clayton_x_defined 0 [@PInf R; PInf] = false /\ clayton_x_defined 1 [@PInf R; PInf] = true).
Proof. exact w6_nonvacuous. Qed.

(* non-vacuity: the Q instances of the same definitions evaluate *)
Open Scope Q_scope.
Example C11_nonvacuous :
  Qeq_bool (indep QNum [Fin (3#2); PInf]) (3#2) = true /\ Qeq_bool (dep QNum [Fin (-(3#2)); Fin (-2); NInf]) (-(3#2)) = true /\
  Qeq_bool (margin QNum (dep QNum) [1%nat] 3 [Fin (-(5#4))]) (-(5#4)) = true /\
  Qeq_bool (volume QNum (dep QNum) [Fin 1; Fin (1#2)] [Fin 3; PInf]) 2 = true.
Proof. vm_compute. repeat split. Qed.

Print Assumptions C11_grounded.
Print Assumptions C11_margins_identity.
Print Assumptions C11_indep_increasing.
Print Assumptions C11_dep_increasing.
Print Assumptions C11_clayton_increasing.
Print Assumptions C11_conditional_distribution.
Print Assumptions C11_conditional_inverse.
Print Assumptions C11_mixed_derivative_partial.
Print Assumptions C11_mixed_derivative_times_product_refuted.
Print Assumptions C11_mixed_derivative_3d.
Print Assumptions C11_xderiv_dimension_link.
Print Assumptions C11_conditional_distribution_extended.
Print Assumptions C11_generated_models.
Print Assumptions C11_nonvacuous_w5.
Print Assumptions C11_dependent_conditional_counter.
Print Assumptions C11_dependent_conditional_is_volume_derivative_refuted.
Print Assumptions C11_inverse_conditional_extended.
Print Assumptions C11_clayton_all_infinite.
Print Assumptions C11_nonvacuous_w6.
Print Assumptions C11_nonvacuous.

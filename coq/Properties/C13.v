(* C13 -- State grids are well formed and refinement nests them.  Only statements; proofs in Proofs/C13_Grid.v.
   Model: Model/Grid.v (rpylib/grid/spatial.py CTMCGrid, create_from_fixed_nb_of_points, CTMCCredit, refine;
   rpylib/grid/grid.py Coordinates).  `mid` stands for grid.middle.  The theorems of Section AnyMiddle hold for every STATELESS
   function that returns a point strictly inside EVERY gap x < y and halves the gap next to the origin; the only proved instance
   is the arithmetic mean `amid` of CTMCGrid (C13_amid_ok); CTMCGridProbabilityStep.middle does NOT satisfy these hypotheses
   (middle(-0.001, 0) = -h/2; it reads grid.h).  For such a middle only C13_refine_nests_axis / C13_refine_admissible_axis apply
   (hypotheses about the gaps of the axis being refined only), one level at a time; their premises are oracle-checked. *)
From Coq Require Import ZArith QArith List.
From RV Require Import Base.QB Model.Grid Proofs.C13_Grid.
Import ListNotations.
Open Scope Q_scope.

(* every constructor builds `left ++ [0] ++ right` with pivot = len(left) *)
Theorem C13_assembly_admissible : forall left right h,
  incr left -> incr right -> left <> [] -> right <> [] -> 0 < h ->
  lastq left == - h -> headq right == h ->
  let '(xs, o) := assemble left right in
  admissible xs o h /\ headq xs = headq left /\ lastq xs = lastq right /\ o = length left.
Proof. exact assembly_admissible. Qed.

(* CTMCUniformGrid.create_from_fixed_nb_of_points (nb_of_points >= 2 is the repaired constructor's guard) *)
Theorem C13_fixed_admissible : forall h nb dim, 0 < h -> (2 <= nb)%nat ->
  grid_wf (fixed_grid h nb dim) /\ g_o (fixed_grid h nb dim) = (nb / 2)%nat /\ g_h (fixed_grid h nb dim) = h
  /\ length (g_axes (fixed_grid h nb dim)) = dim.
Proof. exact fixed_grid_wf. Qed.
Theorem C13_fixed_axis : forall h nb, 0 < h -> (2 <= nb)%nat ->
  let '(xs, o) := fixed_axis h nb in
  admissible xs o h /\ o = (nb / 2)%nat /\ length xs = (2 * (nb / 2) + 1)%nat
  /\ headq xs == - (inject_Z (Z.of_nat (nb / 2)) * h) /\ lastq xs == inject_Z (Z.of_nat (nb / 2)) * h.
Proof. exact fixed_admissible. Qed.

(* CTMCUniformGrid (repaired: ValueError unless int(|l|/h) >= 2 and int(r/h) >= 2; linspace as its mathematical
   sequence): whenever it returns an axis, the axis is admissible and its end points are the two truncation bounds *)
Theorem C13_uniform_admissible : forall l h r xs o, 0 < h -> l < 0 -> 0 < r -> uniform_axis l h r = Some (xs, o) ->
  admissible xs o h /\ headq xs == l /\ lastq xs == r.
Proof. exact uniform_admissible. Qed.

(* CTMCCredit (repaired: raises unless every axis is strictly increasing): whenever it returns a grid, every
   axis is admissible with origin index 4, end points at the truncation bounds (l, r), and the cell boundary
   between the states a-eps and a+eps is exactly the threshold a (used by C19) *)
Theorem C13_credit_admissible : forall l h r levels sym g, credit_grid l h r levels sym = Some g ->
  grid_wf g /\ g_o g = 4%nat /\ g_h g = h /\ length (g_axes g) = length levels
  /\ Forall (fun t => t = (l, r)) (g_trunc g)
  /\ (forall k, (k < length levels)%nat ->
        amid (nthq (nth k (g_axes g) []) 1) (nthq (nth k (g_axes g) []) 2) == nth k levels 0).
Proof. exact credit_grid_wf. Qed.
(* ... and it does return one under the natural guards on the threshold *)
Theorem C13_credit_guards_suffice : forall l a h r sym,
  l < a -> a < - h -> 0 < h -> h < r -> (sym = true -> - a + credit_eps l a h < r) ->
  exists xs, credit_axis l a h r sym = Some (xs, 4%nat).
Proof. exact credit_guards_suffice. Qed.

(* refine: the np.insert loop of spatial.py:110-120 computes the interleaving old, mid, old, mid, ..., old *)
Theorem C13_refine_loop : forall mid xs, refine_axis_loop mid xs = refine_axis mid xs.
Proof. exact refine_loop_correct. Qed.

Section AnyMiddle.
  Variable mid : Q -> Q -> Q.
  Hypothesis mid_between : forall x y, x < y -> x < mid x y /\ mid x y < y.
  Hypothesis mid_left0 : forall x y, y == 0 -> mid x y == x / 2.
  Hypothesis mid_right0 : forall x y, x == 0 -> mid x y == y / 2.

  (* one refinement of an axis: old states at twice their index, exactly one new state strictly inside each
     old gap, at mid x_i x_{i+1}; nothing else; end points unchanged *)
  Theorem C13_refine_nests : forall xs, incr xs -> xs <> [] ->
    length (refine_axis mid xs) = (2 * length xs - 1)%nat
    /\ (forall i, (i < length xs)%nat -> nthq (refine_axis mid xs) (2 * i) = nthq xs i)
    /\ (forall i, (i + 1 < length xs)%nat ->
          nthq (refine_axis mid xs) (2 * i + 1) = mid (nthq xs i) (nthq xs (i + 1))
          /\ nthq xs i < nthq (refine_axis mid xs) (2 * i + 1) < nthq xs (i + 1))
    /\ headq (refine_axis mid xs) = headq xs /\ lastq (refine_axis mid xs) = lastq xs.
  Proof. exact (refine_nests mid mid_between). Qed.

  Theorem C13_refine_admissible : forall g, grid_wf g -> grid_wf (refine mid g).
  Proof. exact (refine_grid_wf mid mid_between mid_left0 mid_right0). Qed.

  (* any number n of refinements of a grid: axes refined n times, origin index times 2^n (one shared cell),
     h divided by 2^n, stored truncations untouched and still equal to the end points, grid well formed;
     per axis: old state i sits at index 2^n * i, the axis has 2^n*(len-1)+1 strictly increasing states *)
  Theorem C13_refine_n : forall n g, grid_wf g ->
    grid_wf (refine_n mid n g)
    /\ g_axes (refine_n mid n g) = map (refine_axis_n mid n) (g_axes g)
    /\ g_o (refine_n mid n g) = (2 ^ n * g_o g)%nat
    /\ g_h (refine_n mid n g) == g_h g / inject_Z (2 ^ Z.of_nat n)
    /\ g_trunc (refine_n mid n g) = g_trunc g.
  Proof.
    intros n g W. split; [exact (refine_n_grid_wf mid mid_between mid_left0 mid_right0 n g W)|].
    exact (refine_n_fields mid n g).
  Qed.
  Theorem C13_refine_n_axis : forall n xs, incr xs -> xs <> [] ->
    (forall i, (i < length xs)%nat -> nthq (refine_axis_n mid n xs) (2 ^ n * i) = nthq xs i)
    /\ length (refine_axis_n mid n xs) = (2 ^ n * (length xs - 1) + 1)%nat
    /\ incr (refine_axis_n mid n xs)
    /\ headq (refine_axis_n mid n xs) = headq xs /\ lastq (refine_axis_n mid n xs) = lastq xs.
  Proof. exact (refine_n_nests mid mid_between). Qed.
  Theorem C13_refine_n_axis_admissible : forall n xs o h, admissible xs o h ->
    admissible (refine_axis_n mid n xs) (2 ^ n * o) (h / inject_Z (2 ^ Z.of_nat n)).
  Proof. exact (refine_n_admissible mid mid_between mid_left0 mid_right0). Qed.
End AnyMiddle.

(* ONE refinement with hypotheses about the axis at hand only (no property of `mid` at other arguments): mid_inside mid xs says
   that mid x_i x_{i+1} lies strictly inside the i-th gap of THIS axis.  These are the statements that apply, level by level,
   to a middle that depends on the grid's state (CTMCGridProbabilityStep.middle reads grid.h; it is NOT a between-function of
   arbitrary arguments); their premises are checked by the oracle on the implementation, not proved. *)
Theorem C13_refine_nests_axis : forall mid xs, mid_inside mid xs -> xs <> [] ->
  length (refine_axis mid xs) = (2 * length xs - 1)%nat
  /\ (forall i, (i < length xs)%nat -> nthq (refine_axis mid xs) (2 * i) = nthq xs i)
  /\ (forall i, (i + 1 < length xs)%nat ->
        nthq (refine_axis mid xs) (2 * i + 1) = mid (nthq xs i) (nthq xs (i + 1))
        /\ nthq xs i < nthq (refine_axis mid xs) (2 * i + 1) < nthq xs (i + 1))
  /\ incr (refine_axis mid xs)
  /\ headq (refine_axis mid xs) = headq xs /\ lastq (refine_axis mid xs) = lastq xs.
Proof. exact refine_nests_axis. Qed.
Theorem C13_refine_admissible_axis : forall mid xs o h, admissible xs o h -> mid_inside mid xs ->
  mid (nthq xs (o - 1)) (nthq xs o) == - (h / 2) -> mid (nthq xs o) (nthq xs (o + 1)) == h / 2 ->
  admissible (refine_axis mid xs) (2 * o) (h / 2).
Proof. exact refine_admissible_local. Qed.

(* the arithmetic mean of CTMCGrid.middle satisfies the three hypotheses *)
Theorem C13_amid_ok : (forall x y, x < y -> x < amid x y /\ amid x y < y)
  /\ (forall x y, y == 0 -> amid x y == x / 2) /\ (forall x y, x == 0 -> amid x y == y / 2).
Proof. exact (conj amid_between (conj amid_left0 amid_right0)). Qed.

(* non-vacuity: concrete grids run through the model *)
Example C13_nonvacuous :
  fixed_axis (1#2) 4 = ([-((2#1)*(1#2)); -((1#1)*(1#2)); 0; (1#1)*(1#2); (2#1)*(1#2)], 2%nat)
  /\ admissibleb (fst (fixed_axis (1#2) 4)) 2 (1#2) = true
  /\ refine_axis amid [-1; -(1#2); 0; 1#2; 2] = [-1; amid (-1) (-(1#2)); -(1#2); amid (-(1#2)) 0; 0; amid 0 (1#2); 1#2; amid (1#2) 2; 2]
  /\ admissibleb (refine_axis_n amid 3 [-1; -(1#2); 0; 1#2; 2]) 16 (1#16) = true
  /\ credit_axis (-4) (-(1#8)) (1#4) 2 false = None
  /\ (exists xs, credit_axis (-4) (-3) (1#4) 2 false = Some (xs, 4%nat)).
Proof. vm_compute. repeat split. eexists; reflexivity. Qed.

Print Assumptions C13_assembly_admissible.
Print Assumptions C13_fixed_admissible.
Print Assumptions C13_fixed_axis.
Print Assumptions C13_uniform_admissible.
Print Assumptions C13_credit_admissible.
Print Assumptions C13_credit_guards_suffice.
Print Assumptions C13_refine_loop.
Print Assumptions C13_refine_nests.
Print Assumptions C13_refine_admissible.
Print Assumptions C13_refine_n.
Print Assumptions C13_refine_n_axis.
Print Assumptions C13_refine_n_axis_admissible.
Print Assumptions C13_refine_nests_axis.
Print Assumptions C13_refine_admissible_axis.
Print Assumptions C13_amid_ok.
Print Assumptions C13_nonvacuous.

(* C13 -- State grids are well formed and refinement nests them.  Only statements; proofs in Proofs/C13_Grid.v.
   Model: Model/Grid.v (rpylib/grid/spatial.py CTMCGrid, create_from_fixed_nb_of_points, CTMCCredit, refine;
   rpylib/grid/grid.py Coordinates).  `mid` stands for grid.middle.  The theorems of Section AnyMiddle hold for every STATELESS
   function that returns a point strictly inside EVERY gap x < y and halves the gap next to the origin; the only proved instance
   is the arithmetic mean `amid` of CTMCGrid (C13_amid_ok); CTMCGridProbabilityStep.middle does NOT satisfy these hypotheses
   (middle(-0.001, 0) = -h/2; it reads grid.h).  For such a middle only C13_refine_nests_axis / C13_refine_admissible_axis apply
   (hypotheses about the gaps of the axis being refined only), one level at a time; their premises are oracle-checked. *)
From Coq Require Import ZArith QArith Qabs Qround Qreals List Reals.
From RV Require Import Base.QB Model.Grid Model.GridGeom Proofs.C13_Grid Proofs.C13_GridGeom Proofs.C13_GridGeomR Proofs.C13_ProbStep.
From RV Require Import Proofs.Tie_PyLoops Gen.GenTieChain Proofs.Tie_Chain Model.ProbStepLoop Proofs.C13_ProbStepLoop Proofs.C13_ProbStepTie Proofs.C13_ProbStepGuard.
Import ListNotations.
Open Scope Q_scope.

(* every constructor builds `left ++ [0] ++ right` with pivot = len(left) *)
Theorem C13_assembly_admissible : forall left right h,
  incr left -> incr right -> left <> [] -> right <> [] -> 0 < h ->
  lastq left == - h -> headq right == h ->
  let '(xs, o) := assemble left right in
  admissible xs o h /\ headq xs = headq left /\ lastq xs = lastq right /\ o = length left.
Proof. exact assembly_admissible. Qed.

(* CTMCUniformGrid.create_from_fixed_nb_of_points (nb_of_points >= 2 is the repaired constructor's guard) *)
Theorem C13_fixed_admissible : forall h nb dim, 0 < h -> (2 <= nb)%nat ->
  grid_wf (fixed_grid h nb dim) /\ g_o (fixed_grid h nb dim) = (nb / 2)%nat /\ g_h (fixed_grid h nb dim) = h
  /\ length (g_axes (fixed_grid h nb dim)) = dim.
Proof. exact fixed_grid_wf. Qed.
Theorem C13_fixed_axis : forall h nb, 0 < h -> (2 <= nb)%nat ->
  let '(xs, o) := fixed_axis h nb in
  admissible xs o h /\ o = (nb / 2)%nat /\ length xs = (2 * (nb / 2) + 1)%nat
  /\ headq xs == - (inject_Z (Z.of_nat (nb / 2)) * h) /\ lastq xs == inject_Z (Z.of_nat (nb / 2)) * h.
Proof. exact fixed_admissible. Qed.

(* CTMCUniformGrid (repaired: ValueError unless int(|l|/h) >= 2 and int(r/h) >= 2; linspace as its mathematical
   sequence): whenever it returns an axis, the axis is admissible and its end points are the two truncation bounds *)
Theorem C13_uniform_admissible : forall l h r xs o, 0 < h -> l < 0 -> 0 < r -> uniform_axis l h r = Some (xs, o) ->
  admissible xs o h /\ headq xs == l /\ lastq xs == r.
Proof. exact uniform_admissible. Qed.

(* CTMCCredit (repaired: raises unless every axis is strictly increasing): whenever it returns a grid, every
   axis is admissible with origin index 4, end points at the truncation bounds (l, r), and the cell boundary
   between the states a-eps and a+eps is exactly the threshold a (used by C19) *)
Theorem C13_credit_admissible : forall l h r levels sym g, credit_grid l h r levels sym = Some g ->
  grid_wf g /\ g_o g = 4%nat /\ g_h g = h /\ length (g_axes g) = length levels
  /\ Forall (fun t => t = (l, r)) (g_trunc g)
  /\ (forall k, (k < length levels)%nat ->
        amid (nthq (nth k (g_axes g) []) 1) (nthq (nth k (g_axes g) []) 2) == nth k levels 0).
Proof. exact credit_grid_wf. Qed.
(* ... and it does return one under the natural guards on the threshold *)
Theorem C13_credit_guards_suffice : forall l a h r sym,
  l < a -> a < - h -> 0 < h -> h < r -> (sym = true -> - a + credit_eps l a h < r) ->
  exists xs, credit_axis l a h r sym = Some (xs, 4%nat).
Proof. exact credit_guards_suffice. Qed.

(* refine: the np.insert loop of spatial.py:110-120 computes the interleaving old, mid, old, mid, ..., old *)
Theorem C13_refine_loop : forall mid xs, refine_axis_loop mid xs = refine_axis mid xs.
Proof. exact refine_loop_correct. Qed.

Section AnyMiddle.
  Variable mid : Q -> Q -> Q.
  Hypothesis mid_between : forall x y, x < y -> x < mid x y /\ mid x y < y.
  Hypothesis mid_left0 : forall x y, y == 0 -> mid x y == x / 2.
  Hypothesis mid_right0 : forall x y, x == 0 -> mid x y == y / 2.

  (* one refinement of an axis: old states at twice their index, exactly one new state strictly inside each
     old gap, at mid x_i x_{i+1}; nothing else; end points unchanged *)
  Theorem C13_refine_nests : forall xs, incr xs -> xs <> [] ->
    length (refine_axis mid xs) = (2 * length xs - 1)%nat
    /\ (forall i, (i < length xs)%nat -> nthq (refine_axis mid xs) (2 * i) = nthq xs i)
    /\ (forall i, (i + 1 < length xs)%nat ->
          nthq (refine_axis mid xs) (2 * i + 1) = mid (nthq xs i) (nthq xs (i + 1))
          /\ nthq xs i < nthq (refine_axis mid xs) (2 * i + 1) < nthq xs (i + 1))
    /\ headq (refine_axis mid xs) = headq xs /\ lastq (refine_axis mid xs) = lastq xs.
  Proof. exact (refine_nests mid mid_between). Qed.

  Theorem C13_refine_admissible : forall g, grid_wf g -> grid_wf (refine mid g).
  Proof. exact (refine_grid_wf mid mid_between mid_left0 mid_right0). Qed.

  (* any number n of refinements of a grid: axes refined n times, origin index times 2^n (one shared cell),
     h divided by 2^n, stored truncations untouched and still equal to the end points, grid well formed;
     per axis: old state i sits at index 2^n * i, the axis has 2^n*(len-1)+1 strictly increasing states *)
  Theorem C13_refine_n : forall n g, grid_wf g ->
    grid_wf (refine_n mid n g)
    /\ g_axes (refine_n mid n g) = map (refine_axis_n mid n) (g_axes g)
    /\ g_o (refine_n mid n g) = (2 ^ n * g_o g)%nat
    /\ g_h (refine_n mid n g) == g_h g / inject_Z (2 ^ Z.of_nat n)
    /\ g_trunc (refine_n mid n g) = g_trunc g.
  Proof.
    intros n g W. split; [exact (refine_n_grid_wf mid mid_between mid_left0 mid_right0 n g W)|].
    exact (refine_n_fields mid n g).
  Qed.
  Theorem C13_refine_n_axis : forall n xs, incr xs -> xs <> [] ->
    (forall i, (i < length xs)%nat -> nthq (refine_axis_n mid n xs) (2 ^ n * i) = nthq xs i)
    /\ length (refine_axis_n mid n xs) = (2 ^ n * (length xs - 1) + 1)%nat
    /\ incr (refine_axis_n mid n xs)
    /\ headq (refine_axis_n mid n xs) = headq xs /\ lastq (refine_axis_n mid n xs) = lastq xs.
  Proof. exact (refine_n_nests mid mid_between). Qed.
  Theorem C13_refine_n_axis_admissible : forall n xs o h, admissible xs o h ->
    admissible (refine_axis_n mid n xs) (2 ^ n * o) (h / inject_Z (2 ^ Z.of_nat n)).
  Proof. exact (refine_n_admissible mid mid_between mid_left0 mid_right0). Qed.
End AnyMiddle.

(* ONE refinement with hypotheses about the axis at hand only (no property of `mid` at other arguments): mid_inside mid xs says
   that mid x_i x_{i+1} lies strictly inside the i-th gap of THIS axis.  These are the statements that apply, level by level,
   to a middle that depends on the grid's state (CTMCGridProbabilityStep.middle reads grid.h; it is NOT a between-function of
   arbitrary arguments); their premises are checked by the oracle on the implementation, not proved. *)
Theorem C13_refine_nests_axis : forall mid xs, mid_inside mid xs -> xs <> [] ->
  length (refine_axis mid xs) = (2 * length xs - 1)%nat
  /\ (forall i, (i < length xs)%nat -> nthq (refine_axis mid xs) (2 * i) = nthq xs i)
  /\ (forall i, (i + 1 < length xs)%nat ->
        nthq (refine_axis mid xs) (2 * i + 1) = mid (nthq xs i) (nthq xs (i + 1))
        /\ nthq xs i < nthq (refine_axis mid xs) (2 * i + 1) < nthq xs (i + 1))
  /\ incr (refine_axis mid xs)
  /\ headq (refine_axis mid xs) = headq xs /\ lastq (refine_axis mid xs) = lastq xs.
Proof. exact refine_nests_axis. Qed.
Theorem C13_refine_admissible_axis : forall mid xs o h, admissible xs o h -> mid_inside mid xs ->
  mid (nthq xs (o - 1)) (nthq xs o) == - (h / 2) -> mid (nthq xs o) (nthq xs (o + 1)) == h / 2 ->
  admissible (refine_axis mid xs) (2 * o) (h / 2).
Proof. exact refine_admissible_local. Qed.

(* the arithmetic mean of CTMCGrid.middle satisfies the three hypotheses *)
Theorem C13_amid_ok : (forall x y, x < y -> x < amid x y /\ amid x y < y)
  /\ (forall x y, y == 0 -> amid x y == x / 2) /\ (forall x y, x == 0 -> amid x y == y / 2).
Proof. exact (conj amid_between (conj amid_left0 amid_right0)). Qed.

(* non-vacuity: concrete grids run through the model *)
Example C13_nonvacuous :
  fixed_axis (1#2) 4 = ([-((2#1)*(1#2)); -((1#1)*(1#2)); 0; (1#1)*(1#2); (2#1)*(1#2)], 2%nat)
  /\ admissibleb (fst (fixed_axis (1#2) 4)) 2 (1#2) = true
  /\ refine_axis amid [-1; -(1#2); 0; 1#2; 2] = [-1; amid (-1) (-(1#2)); -(1#2); amid (-(1#2)) 0; 0; amid 0 (1#2); 1#2; amid (1#2) 2; 2]
  /\ admissibleb (refine_axis_n amid 3 [-1; -(1#2); 0; 1#2; 2]) 16 (1#16) = true
  /\ credit_axis (-4) (-(1#8)) (1#4) 2 false = None
  /\ (exists xs, credit_axis (-4) (-3) (1#4) 2 false = Some (xs, 4%nat)).
Proof. vm_compute. repeat split. eexists; reflexivity. Qed.

(* ================================================================================================ wave 5
   np.linspace / np.geomspace axes (Model/GridGeom.v).  Q theorems plug into the grid record and refine^n of Model/Grid.v;
   R theorems cover EVERY real truncation bound (np.geomspace is start*(stop/start)^(i/(num-1)), irrational in general). *)

(* CTMCUniformGrid.__init__ as a grid object (same axis for every dimension of the model): well formed, origin index
   int(|l|/h), reported truncations are (l, r) *)
Theorem C13_uniform_grid_wf : forall l h r dim g, 0 < h -> l < 0 -> 0 < r -> uniform_grid l h r dim = Some g ->
  grid_wf g /\ g_h g = h /\ length (g_axes g) = dim /\ g_o g = Z.to_nat (Qfloor (Qabs l / h))
  /\ Forall (fun t => fst t == l /\ snd t == r) (g_trunc g).
Proof. exact uniform_grid_wf. Qed.

(* ... and any number n of CTMCGrid.refine() of it: admissible with origin 2^n*o and h/2^n, old state i at 2^n*i,
   2^n*(len-1)+1 states, end points still the truncation bounds *)
Theorem C13_uniform_refine_n : forall n l h r xs o, 0 < h -> l < 0 -> 0 < r -> uniform_axis l h r = Some (xs, o) ->
  admissible (refine_axis_n amid n xs) (2 ^ n * o) (h / inject_Z (2 ^ Z.of_nat n))
  /\ (forall i, (i < length xs)%nat -> nthq (refine_axis_n amid n xs) (2 ^ n * i) = nthq xs i)
  /\ length (refine_axis_n amid n xs) = (2 ^ n * (length xs - 1) + 1)%nat
  /\ headq (refine_axis_n amid n xs) == l /\ lastq (refine_axis_n amid n xs) == r.
Proof. exact uniform_refine_n. Qed.

(* CTMCGridGeometric (both constructors), bounds with rational common ratios l = -(h*ql^(nb-1)), r = h*qr^(nb-1):
   whenever the code's guards (nb >= 2, h > 0, l < -h, h < r) let it return, the axis is admissible, origin index nb, 2nb+1 states,
   end points (l, r); the guards hold exactly when h > 0 and both ratios exceed 1.
   Wave 7 (audit 4, D4 = finding F-C13-7): `h > 0` is a guard of the REPAIRED constructors (/repo branch fix-w7-c13); before the
   repair h <= 0 was accepted (h = -1, bounds (-5, 3), nb = 3: axis [-5, nan, 1, 0, -1, nan, 3]).  The model follows the repaired
   code, so NO hypothesis on the argument h is left in the `returns => well formed` theorems: 0 < h is a conclusion. *)
Theorem C13_geometric_admissible : forall h ql qr nb xs o,
  0 < ql -> 0 < qr -> geometric_axis h ql qr nb = Some (xs, o) ->
  admissible xs o h /\ headq xs == geom_l h ql nb /\ lastq xs == geom_r h qr nb
  /\ o = nb /\ length xs = (2 * nb + 1)%nat /\ 1 < ql /\ 1 < qr /\ 0 < h.
Proof. exact geometric_admissible. Qed.
Theorem C13_geometric_guards_suffice : forall h ql qr nb,
  0 < h -> 1 < ql -> 1 < qr -> (2 <= nb)%nat -> exists xs, geometric_axis h ql qr nb = Some (xs, nb).
Proof. exact geometric_guards_suffice. Qed.
Theorem C13_geometric_grid_wf : forall h ql qr nb dim g,
  0 < ql -> 0 < qr -> geometric_grid h ql qr nb dim = Some g ->
  grid_wf g /\ g_o g = nb /\ g_h g = h /\ length (g_axes g) = dim
  /\ Forall (fun t => fst t == geom_l h ql nb /\ snd t == geom_r h qr nb) (g_trunc g).
Proof. exact geometric_grid_wf. Qed.
Theorem C13_geometric_refine_n : forall n h ql qr nb xs o,
  0 < ql -> 0 < qr -> geometric_axis h ql qr nb = Some (xs, o) ->
  admissible (refine_axis_n amid n xs) (2 ^ n * nb) (h / inject_Z (2 ^ Z.of_nat n))
  /\ (forall i, (i < 2 * nb + 1)%nat -> nthq (refine_axis_n amid n xs) (2 ^ n * i) = nthq xs i)
  /\ length (refine_axis_n amid n xs) = (2 ^ n * (2 * nb) + 1)%nat
  /\ headq (refine_axis_n amid n xs) == geom_l h ql nb /\ lastq (refine_axis_n amid n xs) == geom_r h qr nb.
Proof. exact geometric_refine_n. Qed.

Open Scope R_scope.
(* one side np.geomspace(a, b, n) over R, a < b of the same sign: strictly increasing, n states, first a, last b, all in [a,b] *)
Theorem C13_geomspace_R_axis : forall a b n, (2 <= n)%nat -> same_sign_lt a b ->
  incrR (geomspace_R a b n) /\ length (geomspace_R a b n) = n
  /\ headr (geomspace_R a b n) = a /\ lastr (geomspace_R a b n) = b
  /\ (forall i, (i < n)%nat -> a <= nthr (geomspace_R a b n) i <= b).
Proof. exact geomspace_R_axis. Qed.
(* assembly over R *)
Theorem C13_assembly_admissible_R : forall left right h,
  incrR left -> incrR right -> left <> [] -> right <> [] -> 0 < h ->
  lastr left = - h -> headr right = h ->
  let '(xs, o) := assembleR left right in
  admissibleR xs o h /\ headr xs = headr left /\ lastr xs = lastr right /\ o = length left.
Proof. exact assembly_admissible_R. Qed.
(* CTMCGridGeometric for EVERY real l, h, r and every nb (no hypothesis: the four guards are conclusions) *)
Theorem C13_geometric_admissible_R : forall l h r nb xs o,
  geometric_axis_R l h r nb = Some (xs, o) ->
  admissibleR xs o h /\ headr xs = l /\ lastr xs = r /\ o = nb /\ length xs = (2 * nb + 1)%nat
  /\ 0 < h /\ l < - h /\ h < r /\ (2 <= nb)%nat.
Proof. exact geometric_admissible_R. Qed.
(* the four guards suffice (wave 7: 0 < h added -- audit 4, D4: without it the statement was true of the old model only, the code
   returned nan states) and each of them is necessary: the constructor refuses exactly when one of them fails *)
Theorem C13_geometric_guards_suffice_R : forall l h r nb,
  (2 <= nb)%nat -> 0 < h -> l < - h -> h < r -> exists xs, geometric_axis_R l h r nb = Some (xs, nb).
Proof. exact geometric_guards_suffice_R. Qed.
Theorem C13_geometric_rejects_R : forall l h r nb,
  (nb < 2)%nat \/ h <= 0 \/ - h <= l \/ r <= h -> geometric_axis_R l h r nb = None.
Proof. exact geometric_rejects_R. Qed.
(* the rational-ratio Q model is the R model, state by state *)
Theorem C13_geometric_axis_Q2R : forall h ql qr nb xs o, (0 < ql)%Q -> (0 < qr)%Q ->
  geometric_axis h ql qr nb = Some (xs, o) ->
  exists ys, geometric_axis_R (Q2R (geom_l h ql nb)) (Q2R h) (Q2R (geom_r h qr nb)) nb = Some (ys, o)
             /\ length ys = length xs /\ forall i, (i < length xs)%nat -> Q2R (nthq xs i) = nthr ys i.
Proof. exact geometric_axis_Q2R. Qed.
(* CTMCGrid.refine (arithmetic-mean middle) on real axes: one step inserts the mean strictly inside each gap; n steps *)
Theorem C13_refine_step_R : forall xs, incrR xs -> forall i, (i + 1 < length xs)%nat ->
  nthr (refineR xs) (2 * i + 1) = (nthr xs i + nthr xs (i + 1)) / 2
  /\ nthr xs i < nthr (refineR xs) (2 * i + 1) < nthr xs (i + 1).
Proof. exact refineR_step. Qed.
Theorem C13_refine_n_R : forall n xs o h, admissibleR xs o h ->
  admissibleR (refineR_n n xs) (2 ^ n * o) (h / 2 ^ n)
  /\ (forall i, (i < length xs)%nat -> nthr (refineR_n n xs) (2 ^ n * i) = nthr xs i)
  /\ length (refineR_n n xs) = (2 ^ n * (length xs - 1) + 1)%nat
  /\ headr (refineR_n n xs) = headr xs /\ lastr (refineR_n n xs) = lastr xs.
Proof. exact refineR_n_nests. Qed.
Theorem C13_geometric_refine_n_R : forall n l h r nb xs o,
  geometric_axis_R l h r nb = Some (xs, o) ->
  admissibleR (refineR_n n xs) (2 ^ n * nb) (h / 2 ^ n)
  /\ (forall i, (i < 2 * nb + 1)%nat -> nthr (refineR_n n xs) (2 ^ n * i) = nthr xs i)
  /\ length (refineR_n n xs) = (2 ^ n * (2 * nb) + 1)%nat
  /\ headr (refineR_n n xs) = l /\ lastr (refineR_n n xs) = r.
Proof. exact geometric_refine_n_R. Qed.
Open Scope Q_scope.

(* non-vacuity of the wave-5 theorems: a geometric axis with ratios 2 and 3/2 (h = 1/4, nb = 3), its grid in dimension 2,
   two refinements; a uniform axis with l = -1, h = 1/4, r = 5/4 (int(|l|/h) = 4, int(r/h) = 5) and its grid; rejected
   arguments (nb = 1; ratio 1; wave 7: h = -1/4 and h = 0, also with ratios < 1 for which l < -h and h < r hold);
   over R: l = -2, h = 1/4, r = 3, nb = 4; rejected over R: the audit's witness h = -1, (l, r) = (-5, 3), nb = 3, and h = 0 *)
Example C13_geom_nonvacuous :
  geometric_axis (1#4) 2 (3#2) 3 = Some ([-((1#4)*(2*(2*1))); -((1#4)*(2*1)); -((1#4)*1); 0; (1#4)*1; (1#4)*((3#2)*1); (1#4)*((3#2)*((3#2)*1))], 3%nat)
  /\ admissibleb (fst (assemble (geom_left (1#4) 2 3) (geomq (1#4) (3#2) 3))) 3 (1#4) = true
  /\ admissibleb (refine_axis_n amid 2 (fst (assemble (geom_left (1#4) 2 3) (geomq (1#4) (3#2) 3)))) 12 (1#16) = true
  /\ (exists g, geometric_grid (1#4) 2 (3#2) 3 2 = Some g /\ length (g_axes g) = 2%nat)
  /\ geometric_axis (1#4) 2 (3#2) 1 = None /\ geometric_axis (1#4) 1 (3#2) 3 = None
  /\ geometric_axis (-(1#4)) 2 (3#2) 3 = None /\ geometric_axis 0 2 (3#2) 3 = None /\ geometric_axis (-(1#4)) (1#2) (1#2) 3 = None
  /\ (exists xs, uniform_axis (-1) (1#4) (5#4) = Some (xs, 4%nat) /\ admissibleb xs 4 (1#4) = true /\ length xs = 10%nat)
  /\ (exists g, uniform_grid (-1) (1#4) (5#4) 3 = Some g /\ length (g_axes g) = 3%nat).
Proof. vm_compute. repeat split; eexists; repeat split; reflexivity. Qed.
Example C13_geom_R_nonvacuous : exists xs, geometric_axis_R (-2) (1 / 4) 3 4 = Some (xs, 4%nat)
  /\ admissibleR xs 4 (1 / 4) /\ length xs = 9%nat /\ headr xs = (-2)%R /\ lastr xs = 3%R
  /\ admissibleR (refineR_n 3 xs) 32 (1 / 4 / 2 ^ 3) /\ same_sign_lt (-2) (- (1 / 4)) /\ same_sign_lt (1 / 4) 3.
Proof. exact geometric_R_example. Qed.
Example C13_geom_R_rejects_h_le_0 : geometric_axis_R (-5) (-1) 3 3 = None /\ geometric_axis_R (-5) 0 3 3 = None.
Proof. exact geometric_R_rejects_example. Qed.

(* SPECIFICATION COROLLARIES (wave 7, audit 4 B6: relabelled `_spec`).  C13_probstep_gaps_spec is the root finder's specification
   applied twice per step (F (root (root x (p/2)) (p/2)) - F x = p follows from root_spec alone in four lines) plus an induction over
   the n steps and strictness; it says what the specification of brentq + quadrature would give, it does not say that the code meets
   that specification.  The loop's exit test, bare except, extrapolated states and last_point are NOT in these two statements; they are
   in the loop model (C13_probstep_right_shape_spec / _left_shape_spec below), and C13_probstep_loop_regular_is_ps_axis links the two models.
   CTMCGridProbabilityStep, right half axis while the tail is not exhausted, under the SPECIFICATION of the root finder
   (F = cumulative jump probability, strictly increasing; M = the probability available on this side; root x p = the point with
   F(root x p) - F x = p, REQUIRED ONLY WHILE F x + p <= M -- a real jump law is bounded; neither brentq nor the quadrature is
   modelled): the axis x, x1, x2, ... built by `middle_point = root(start, p/2); start' = root(middle_point, p/2)`, n steps with
   F x + n*p <= M, is strictly increasing and EVERY gap carries exactly the requested probability p; refining it with the grid's
   own middle (the equal-probability point) yields the probability-step axis of step p/2: each refined gap carries p/2 *)
Open Scope R_scope.
Theorem C13_probstep_gaps_spec : forall (F : R -> R) (root : R -> R -> R) (M : R),
  (forall x y, x < y -> F x < F y) -> (forall x p, 0 < p -> F x + p <= M -> F (root x p) - F x = p) ->
  forall x p n, 0 < p -> F x + INR n * p <= M ->
  incrR (ps_axis root x p n) /\ length (ps_axis root x p n) = S n /\ nthr (ps_axis root x p n) 0 = x
  /\ forall i, (i < n)%nat -> F (nthr (ps_axis root x p n) (i + 1)) - F (nthr (ps_axis root x p n) i) = p.
Proof. exact probstep_gaps. Qed.
Theorem C13_probstep_refine_spec : forall (F : R -> R) (root : R -> R -> R) (M : R),
  (forall x y, x < y -> F x < F y) -> (forall x p, 0 < p -> F x + p <= M -> F (root x p) - F x = p) ->
  forall x p n, 0 < p -> F x + INR n * p <= M ->
  refineG (ps_middle F root) (ps_axis root x p n) = ps_axis root x (p / 2) (2 * n)
  /\ forall i, (i < 2 * n)%nat ->
       F (nthr (refineG (ps_middle F root) (ps_axis root x p n)) (i + 1))
       - F (nthr (refineG (ps_middle F root) (ps_axis root x p n)) i) = p / 2.
Proof. exact probstep_refine. Qed.
(* the hypotheses are satisfiable with a bounded mass: F x = x, M = 1, root x p = x + p, x = 1/8, p = 1/4, n = 3 *)
Example C13_probstep_nonvacuous :
  (forall x y, x < y -> (fun t => t) x < (fun t => t) y)
  /\ (forall x p, 0 < p -> (fun t => t) x + p <= 1 -> (fun t => t) ((fun a b => a + b) x p) - (fun t => t) x = p)
  /\ (fun t => t) (1 / 8) + INR 3 * (1 / 4) <= 1
  /\ nthr (ps_axis (fun a b => a + b) (1 / 8) (1 / 4) 3) 2 = 5 / 8.
Proof. exact ps_example. Qed.
Open Scope Q_scope.

(* ================================================================================================ wave 6
   The cell helpers of rpylib/grid/spatial.py REGENERATED from the source by py2coq (Gen/GenTieChain.v, rebuilt on every run:
   CTMCGrid.left_point / right_point (int variant) and CTMCGrid.middle (float, float)) are the hand models Model/Grid.v that
   the theorems above are about (equalities proved in Proofs/Tie_Chain.v; Python ints are Z in the generated code). *)
Theorem C13_gen_left_point_is_model : forall xs (k : nat), GenTieChain.left_point xs (Z.of_nat k) = Grid.left_point xs k.
Proof. exact gen_left_point_eq_model. Qed.
Theorem C13_gen_right_point_is_model : forall xs (k : nat), GenTieChain.right_point xs (Z.of_nat k) = Grid.right_point xs k.
Proof. exact gen_right_point_eq_model. Qed.
Theorem C13_gen_middle_is_model : forall x y, GenTieChain.middle x y = Grid.amid x y.
Proof. exact gen_middle_eq_model. Qed.
(* hence the n-level refinement theorem holds for refine driven by the GENERATED middle: any number of refinements of an admissible
   axis with the middle function translated from the source *)
Theorem C13_gen_middle_refine_n : forall n xs o h, admissible xs o h ->
  admissible (refine_axis_n GenTieChain.middle n xs) (2 ^ n * o) (h / inject_Z (2 ^ Z.of_nat n))
  /\ (forall i, (i < length xs)%nat -> nthq (refine_axis_n GenTieChain.middle n xs) (2 ^ n * i) = nthq xs i)
  /\ length (refine_axis_n GenTieChain.middle n xs) = (2 ^ n * (length xs - 1) + 1)%nat.
Proof. exact gen_middle_refine_n. Qed.

(* The two `while True` loops of compute_right_axis / compute_left_axis with EVERY branch (exhaustion exit with its extrapolated last
   point, regular try branch, bare-except branch incl. "first root found, second raised"), Model/ProbStepLoop.v.  The quadrature test
   `exhausted` and the root finder `root` (None = raised) are functions the theorems quantify over, under ONE HYPOTHESIS that is NOT
   discharged for brentq:  ROOT BEYOND THE BRACKET END -- a returned root lies strictly beyond the bracket end the search started
   from (forall x y, root x = Some y -> x < y; left: y < x).  It is monitored on every run of the correspondence, and it is FALSE for
   minimum_probability_step = 0 (f(a) = 0: brentq returns its end a), one of the inputs for which the constructor before e5add93
   never returned (F-C13-9, below).  Whenever the loop terminates (fuel: `while True`; termination is NOT proved), the half axis is
   strictly increasing, starts at h (ends at -h), has at least 2 states, all on its side of the origin.
   The bare `except` is the loop's NORMAL exit path, not an error path: after a regular step the exit test reads
   p_left(middle) = tail(start_right_old) - p/2 >= p/2, so it cannot fire directly after a successful `try`; every run with a regular
   step leaves through a raising root search (no sign change on [x, 100]), at least one extrapolated state, then the exit test. *)
Theorem C13_probstep_right_loop : forall (exhausted : Q -> bool) (root : Q -> option Q),
  (forall x y, root x = Some y -> x < y) ->
  forall fuel h axis, 0 < h -> compute_right_axis exhausted root fuel h = Some axis ->
  incr axis /\ headq axis = h /\ (2 <= length axis)%nat /\ (forall i, (i < length axis)%nat -> 0 < nthq axis i).
Proof. exact right_axis_incr. Qed.
Theorem C13_probstep_left_loop : forall (exhausted : Q -> bool) (root : Q -> option Q),
  (forall x y, root x = Some y -> y < x) ->
  forall fuel h axis, 0 < h -> compute_left_axis exhausted root fuel h = Some axis ->
  incr axis /\ lastq axis = - h /\ (2 <= length axis)%nat /\ (forall i, (i < length axis)%nat -> nthq axis i < 0).
Proof. exact left_axis_incr. Qed.
(* CTMCGridProbabilityStep.__init__: whenever both loops terminate, the assembled axis is admissible with pivot len(axis_left) *)
Theorem C13_probstep_ctor_admissible : forall exl exr rootl rootr fuel h xs o,
  (forall x y, rootl x = Some y -> y < x) -> (forall x y, rootr x = Some y -> x < y) -> 0 < h ->
  probstep_axis exl exr rootl rootr fuel h = Some (xs, o) ->
  admissible xs o h /\ (2 <= o)%nat /\ (o + 3 <= length xs)%nat
  /\ exists l r, compute_left_axis exl rootl fuel h = Some l /\ compute_right_axis exr rootr fuel h = Some r
                 /\ xs = l ++ [0] ++ r /\ o = length l.
Proof. exact probstep_axis_admissible. Qed.
Example C13_probstep_loop_nonvacuous :
  (forall x y, lin_root_l (15 # 32) 2 x = Some y -> y < x) /\ (forall x y, lin_root_r (15 # 32) 2 x = Some y -> x < y)
  /\ option_map (fun p => (map Qred (fst p), snd p))
       (probstep_axis (lin_exh_l 2 (1 # 4) (1 # 8)) (lin_exh_r 2 (1 # 4) (1 # 8)) (lin_root_l (15 # 32) 2) (lin_root_r (15 # 32) 2) 50 (1 # 4))
     = Some ([-(109 # 16); -(4 # 1); -(19 # 16); -(1 # 4); 0; 1 # 4; 19 # 16; 17 # 8; 49 # 16], 4%nat)
  /\ compute_right_axis (lin_exh_r 2 (1 # 4) (1 # 8)) (lin_root_r (15 # 32) 2) 2 (1 # 4) = None.
Proof. exact probstep_loop_example. Qed.

(* STRUCTURE UNDER THE ROOT SPECIFICATION (wave 8, audit 5b B4: relabelled `_spec` like C13_probstep_gaps_spec).  What is NEW in these
   two statements is the STRUCTURE of the loop's output with the exhaustion and except branches inside: regular states, then k >= 1
   extrapolated states of one constant spacing 2d.  Their PROBABILITY content -- "a regular gap carries 2q" -- is the root finder's
   specification F(root x) - F x == q applied twice (hypothesis 2), nothing more: it says what the specification of brentq + quadrature
   would give, not that the code meets it; `exhausted` is linked to neither F nor q, and the statement also holds with F := 0, q := 0.
   The three hypotheses (root beyond the bracket end; root specification; refusals monotone) are discharged for the constant-density
   oracles of the Example only.  F = cumulative jump probability read from the
   side's first cell boundary (any function), q = p/2.  Specification of the root finder: a returned root y of `root x` lies beyond x
   and F y - F x == q; a refusal is monotone (no root from x on the bracket [x, 100] => none from further out).  Then the half axis is
     h, reg_1, ..., reg_n, ext_1, ..., ext_k      (k >= 1)
   where every regular gap (h, reg_1), (reg_i, reg_i+1) carries EXACTLY the requested probability p = 2q (two root searches of q),
   and the extrapolated states ext_j continue the axis with one constant spacing 2*d, d > 0.  n = 0 is possible (tail already
   exhausted at h).  Left twin: the same read from -h leftwards (the code's left loop is not the mirror image of the right loop in the
   except branch -- different d -- the statement is the same). *)
Theorem C13_probstep_right_shape_spec : forall (exhausted : Q -> bool) (root : Q -> option Q) (F : Q -> Q) (q : Q),
  (forall x y, root x = Some y -> x < y) -> (forall x y, root x = Some y -> F y - F x == q) ->
  (forall x x', root x = None -> x <= x' -> root x' = None) ->
  forall fuel h axis, 0 < h -> compute_right_axis exhausted root fuel h = Some axis ->
  exists reg ext d, axis = (h :: reg) ++ ext /\ gaps_F F (2 * q) (h :: reg) /\ ext <> [] /\ 0 < d
                    /\ gaps_w (2 * d) (lastq (h :: reg) :: ext).
Proof. exact right_axis_shape. Qed.
Theorem C13_probstep_left_shape_spec : forall (exhausted : Q -> bool) (root : Q -> option Q) (F : Q -> Q) (q : Q),
  (forall x y, root x = Some y -> y < x) -> (forall x y, root x = Some y -> F y - F x == q) ->
  (forall x x', root x = None -> x' <= x -> root x' = None) ->
  forall fuel h axis, 0 < h -> compute_left_axis exhausted root fuel h = Some axis ->
  exists reg ext d, axis = rev ext ++ rev reg ++ [- h] /\ gaps_F F (2 * q) (- h :: reg) /\ ext <> [] /\ 0 < d
                    /\ gaps_w (- (2 * d)) (lastq (- h :: reg) :: ext).
Proof. exact left_axis_shape. Qed.
Example C13_probstep_shape_nonvacuous :
  (forall x y, lin_root_r (15 # 32) 2 x = Some y -> y * (4 # 15) - x * (4 # 15) == 1 # 8)
  /\ (forall x x', lin_root_r (15 # 32) 2 x = None -> x <= x' -> lin_root_r (15 # 32) 2 x' = None)
  /\ (forall x y, lin_root_l (15 # 32) 2 x = Some y -> - y * (4 # 15) - - x * (4 # 15) == 1 # 8)
  /\ (forall x x', lin_root_l (15 # 32) 2 x = None -> x' <= x -> lin_root_l (15 # 32) 2 x' = None)
  /\ option_map (map Qred) (compute_right_axis (lin_exh_r 2 (1 # 4) (1 # 8)) (lin_root_r (15 # 32) 2) 50 (1 # 4))
     = Some ((1 # 4 :: [19 # 16]) ++ [17 # 8; 49 # 16])
  /\ option_map (map Qred) (compute_left_axis (lin_exh_l 2 (1 # 4) (1 # 8)) (lin_root_l (15 # 32) 2) 50 (1 # 4))
     = Some (rev [-(4 # 1); -(109 # 16)] ++ rev [-(19 # 16)] ++ [-(1 # 4)]).
Proof. exact lin_shape_example. Qed.

(* ================================================================================================ wave 7 (audit 4, B6 / A7)
   `ps_axis` -- the axis of the two specification corollaries -- is the regular part of the loop model's output: for ANY real root function
   rootR that agrees with the loop's root oracle on the searches the loop performs (rootR (Q2R x) (p/2) = Q2R y whenever root x = Some y),
   compute_right_axis returns (h :: reg) ++ ext with  map Q2R (h :: reg) = ps_axis rootR (Q2R h) p (length reg)  and ext the k >= 1
   extrapolated states of constant spacing 2d.  The loop model is compared with the code state by state (probloop_tab / probloop_lin);
   ps_axis itself is ALSO compared with the code directly (interval lemmas, case group ps_axis: constant-density and HEM closed-form
   roots).  Right half axis only: ps_axis has no left twin. *)
Theorem C13_probstep_loop_regular_is_ps_axis : forall (exhausted : Q -> bool) (root : Q -> option Q) (rootR : R -> R -> R) (p : R),
  (forall x y, root x = Some y -> x < y) -> (forall x x', root x = None -> x <= x' -> root x' = None) ->
  (forall x y, root x = Some y -> rootR (Q2R x) (p / 2)%R = Q2R y) ->
  forall fuel h axis, 0 < h -> compute_right_axis exhausted root fuel h = Some axis ->
  exists reg ext d, axis = (h :: reg) ++ ext /\ map Q2R (h :: reg) = ps_axis rootR (Q2R h) p (length reg)
                    /\ ext <> [] /\ 0 < d /\ gaps_w (2 * d) (lastq (h :: reg) :: ext).
Proof. exact right_axis_regular_is_ps_axis. Qed.
Example C13_probstep_tie_nonvacuous :
  (forall x y, lin_root_r (15 # 32) 2 x = Some y -> (fun a q => a + q * (15 / 4))%R (Q2R x) ((1 / 4) / 2)%R = Q2R y)
  /\ ps_axis (fun a q => a + q * (15 / 4))%R (Q2R (1 # 4)) (1 / 4) 1 = [Q2R (1 # 4); (Q2R (1 # 4) + 1 / 4 / 2 * (15 / 4) + 1 / 4 / 2 * (15 / 4))%R].
Proof. exact ps_tie_example. Qed.

(* ================================================================================================ wave 8 (audit 5b, D4 / D5)
   Two argument defects of CTMCGridProbabilityStep, repaired in /repo by branch fix-w8-c13; the loop model is the repaired code.
   F-C13-9 (e5add93: `if not minimum_probability_step > 0: raise ValueError` in both compute_*_axis).  The exhaustion test with the
   quadrature as a function: exh_of pleft p m = (pleft m < p/2).  BEFORE the repair: for p <= 0 (pleft >= 0: a probability) the test
   never fires and neither loop returns, for ANY root finder, any h and every number of iterations. *)
Theorem C13_probstep_nonpositive_p_never_returns_before_repair : forall (pleft : Q -> Q) (p : Q) (root : Q -> option Q),
  (forall m, 0 <= pleft m) -> p <= 0 ->
  forall fuel h, compute_right_axis (exh_of pleft p) root fuel h = None /\ compute_left_axis (exh_of pleft p) root fuel h = None.
Proof. exact nonpositive_p_never_returns. Qed.
(* the REPAIRED constructor (probstep_ctor = guard + probstep_axis): 0 < p is a CONCLUSION of `returns`; p <= 0 is refused.  Hypotheses:
   root beyond the bracket end, as above; termination not proved (None = raised or out of fuel) *)
Theorem C13_probstep_ctor_guarded : forall p pl pr rootl rootr fuel h xs o,
  (forall x y, rootl x = Some y -> y < x) -> (forall x y, rootr x = Some y -> x < y) -> 0 < h ->
  probstep_ctor p pl pr rootl rootr fuel h = Some (xs, o) ->
  0 < p /\ admissible xs o h /\ (2 <= o)%nat /\ (o + 3 <= length xs)%nat.
Proof. exact probstep_ctor_admissible. Qed.
Theorem C13_probstep_ctor_rejects : forall p pl pr rootl rootr fuel h, p <= 0 -> probstep_ctor p pl pr rootl rootr fuel h = None.
Proof. exact probstep_ctor_rejects. Qed.
Example C13_probstep_ctor_guard_nonvacuous :
  option_map (fun r => (map Qred (fst r), snd r))
    (probstep_ctor (1 # 4) (lin_pleft_l 2 (1 # 4)) (lin_pleft_r 2 (1 # 4)) (lin_root_l (15 # 32) 2) (lin_root_r (15 # 32) 2) 50 (1 # 4))
  = Some ([-(109 # 16); -(4 # 1); -(19 # 16); -(1 # 4); 0; 1 # 4; 19 # 16; 17 # 8; 49 # 16], 4%nat)
  /\ probstep_ctor (-(1 # 4)) (lin_pleft_l 2 (1 # 4)) (lin_pleft_r 2 (1 # 4)) (lin_root_l (15 # 32) 2) (lin_root_r (15 # 32) 2) 50 (1 # 4) = None
  /\ probstep_ctor 0 (lin_pleft_l 2 (1 # 4)) (lin_pleft_r 2 (1 # 4)) (lin_root_l (15 # 32) 2) (lin_root_r (15 # 32) 2) 50 (1 # 4) = None
  /\ (forall m, 0 <= lin_pleft_r 2 (1 # 4) m).
Proof. exact ctor_guard_example. Qed.
(* F-C13-8 (6825494: the half axes are float arrays).  BEFORE the repair an int h made left_axis an int64 array and np.insert truncated
   every state towards zero (compute_left_axis_int_h = map trunc0 of the float axis).  Witness = the axis /repo b517e80 returned for
   CTMCGridProbabilityStep(h=1, StepModel(StepMeasure([-2,2],[3])), 0.25): float h [-13/4; -5/2; -7/4; -1], int h [-3; -2; -1; -1]:
   -1 twice, not strictly increasing, although the root finder satisfies the hypothesis of C13_probstep_left_loop *)
Example C13_probstep_int_h_before_repair :
  option_map (map Qred) (compute_left_axis (lin_exh_l 2 1 (1 # 8)) (lin_root_l (3 # 8) 2) 50 1) = Some [-(13 # 4); -(5 # 2); -(7 # 4); -(1 # 1)]
  /\ option_map (map Qred) (compute_left_axis_int_h (lin_exh_l 2 1 (1 # 8)) (lin_root_l (3 # 8) 2) 50 1) = Some [-(3 # 1); -(2 # 1); -(1 # 1); -(1 # 1)]
  /\ option_map incrb (compute_left_axis_int_h (lin_exh_l 2 1 (1 # 8)) (lin_root_l (3 # 8) 2) 50 1) = Some false
  /\ (forall x y, lin_root_l (3 # 8) 2 x = Some y -> y < x).
Proof. exact int_h_example. Qed.

Print Assumptions C13_assembly_admissible.
Print Assumptions C13_fixed_admissible.
Print Assumptions C13_fixed_axis.
Print Assumptions C13_uniform_admissible.
Print Assumptions C13_credit_admissible.
Print Assumptions C13_credit_guards_suffice.
Print Assumptions C13_refine_loop.
Print Assumptions C13_refine_nests.
Print Assumptions C13_refine_admissible.
Print Assumptions C13_refine_n.
Print Assumptions C13_refine_n_axis.
Print Assumptions C13_refine_n_axis_admissible.
Print Assumptions C13_refine_nests_axis.
Print Assumptions C13_refine_admissible_axis.
Print Assumptions C13_amid_ok.
Print Assumptions C13_nonvacuous.
Print Assumptions C13_uniform_grid_wf.
Print Assumptions C13_uniform_refine_n.
Print Assumptions C13_geometric_admissible.
Print Assumptions C13_geometric_guards_suffice.
Print Assumptions C13_geometric_grid_wf.
Print Assumptions C13_geometric_refine_n.
Print Assumptions C13_geomspace_R_axis.
Print Assumptions C13_assembly_admissible_R.
Print Assumptions C13_geometric_admissible_R.
Print Assumptions C13_geometric_guards_suffice_R.
Print Assumptions C13_geometric_rejects_R.
Print Assumptions C13_geometric_axis_Q2R.
Print Assumptions C13_refine_step_R.
Print Assumptions C13_refine_n_R.
Print Assumptions C13_geometric_refine_n_R.
Print Assumptions C13_geom_nonvacuous.
Print Assumptions C13_geom_R_nonvacuous.
Print Assumptions C13_geom_R_rejects_h_le_0.
Print Assumptions C13_probstep_gaps_spec.
Print Assumptions C13_probstep_refine_spec.
Print Assumptions C13_probstep_nonvacuous.
Print Assumptions C13_gen_left_point_is_model.
Print Assumptions C13_gen_right_point_is_model.
Print Assumptions C13_gen_middle_is_model.
Print Assumptions C13_gen_middle_refine_n.
Print Assumptions C13_probstep_right_loop.
Print Assumptions C13_probstep_left_loop.
Print Assumptions C13_probstep_ctor_admissible.
Print Assumptions C13_probstep_loop_nonvacuous.
Print Assumptions C13_probstep_right_shape_spec.
Print Assumptions C13_probstep_left_shape_spec.
Print Assumptions C13_probstep_shape_nonvacuous.
Print Assumptions C13_probstep_loop_regular_is_ps_axis.
Print Assumptions C13_probstep_tie_nonvacuous.
Print Assumptions C13_probstep_nonpositive_p_never_returns_before_repair.
Print Assumptions C13_probstep_ctor_guarded.
Print Assumptions C13_probstep_ctor_rejects.
Print Assumptions C13_probstep_ctor_guard_nonvacuous.
Print Assumptions C13_probstep_int_h_before_repair.

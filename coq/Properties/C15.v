(* C15 -- Simulated paths are running sums on the product dates within the time-step cap.
   Only statements; proofs in Proofs/C15_Paths.v, Proofs/C15_Finer.v.  Models: Model/Paths.v (hand models of the
   path builders of levyprocess.py / markovchain.py / couplingmarkovchain.py and of both copies of
   build_finer_grid), tied to the source by the correspondence through process.simulate_one_path(). *)
From Coq Require Import ZArith QArith List.
From RV Require Import Base.QB Model.Paths Proofs.C15_Paths Proofs.C15_Finer Proofs.C15_Link.
Import ListNotations.
Open Scope Q_scope.

(* fixed product dates (repaired tree), any number of dates and of jumps per interval: the path starts at 0,
   the jump part at date j+1 is the sum of ALL jump increments of the intervals 0..j, the increment between two
   consecutive dates is built from the variates of that interval only, the Markov-chain variant (last value of
   the chain restarted at the origin) agrees, and the diffusion part is the running sum of the scaled normals *)
Theorem C15_fixed_dates : forall intervals sq sigma ws,
  (forall j, (j < length intervals)%nat ->
     nth 0 (fixed_jump_path intervals) 0 = 0
     /\ nth (S j) (fixed_jump_path intervals) 0 == qsum (concat (firstn (S j) intervals))
     /\ nth (S j) (fixed_jump_path intervals) 0 - nth j (fixed_jump_path intervals) 0 == qsum (nth j intervals [])
     /\ nth (S j) (mc_fixed_jump_path intervals) 0 == nth (S j) (fixed_jump_path intervals) 0)
  /\ (forall j, (j < length (scaled sq sigma ws))%nat ->
     nth 0 (diffusion_path sq sigma ws) 0 = 0 /\
     nth (S j) (diffusion_path sq sigma ws) 0 == qsum (firstn (S j) (scaled sq sigma ws))).
Proof. intros. split; intros. apply fixed_dates; assumption. apply fixed_diffusion; assumption. Qed.

(* jump times: for consecutive product intervals (tm, dt, offsets) with offsets strictly increasing inside (0, dt),
   any number of intervals and of jumps (also none): times start at 0, end at the maturity and are strictly
   increasing; the jump part is 0 at time 0, the running sum of all increments at each jump time, and the last
   value is repeated at the maturity; the (repaired) Markov-chain simulators, which build the path interval by interval and
   carry the end value over the product dates, give the same running sums for ANY number of product intervals *)
Theorem C15_jump_times : forall ivs incs, valid_ivs 0 ivs -> 0 < end_of 0 ivs ->
  (let T := end_of 0 ivs in let times := assemble_times T (times_of_ivs ivs) in
   hd 1 times = 0 /\ last times 0 = T /\ strictly_increasing times)
  /\ (let vals := levy_jump_values incs in let path := assemble_values vals in
      nth 0 path 0 = 0
      /\ (forall k, (k < length vals)%nat -> nth (S k) path 0 == qsum (firstn (S k) (concat incs)))
      /\ last path 0 = last vals 0
      /\ length path = S (S (length (concat incs))))
  /\ (forall chain_incs, Forall2 Qeq (mc_jump_values chain_incs) (levy_jump_values chain_incs))
  (* times and values belong together only when every interval has as many increments as offsets: then equally long *)
  /\ (Forall2 (fun iv inc => length (iv_offs iv) = length inc) ivs incs ->
      length (assemble_times (end_of 0 ivs) (times_of_ivs ivs)) = length (assemble_values (levy_jump_values incs))).
Proof.
  intros. split; [|split; [|split]]. apply jump_times_path; assumption. apply jump_values. apply chain_running_sum.
  intro. apply jump_path_lengths; assumption.
Qed.

(* build_finer_grid (any value type V: scalars, d-vectors, (fine, coarse) pairs), any list of (gap, value), 0 < eps:
   if every gap is at most (N+1) eps the loop ends within N passes (more fuel changes nothing) and then
   every gap is <= eps, gaps stay positive (times strictly increasing), the result arises from the original by
   inserting points that carry the value of the point before them (Refines), the original (time, value) points
   survive in order, and the total time is unchanged *)
Theorem C15_finer_grid : forall (V : Type) (zero : V) eps N (l : list (Q * V)), 0 < eps ->
  gaps_le (inject_Z (Z.of_nat (S N)) * eps) l -> gaps_pos l ->
  let r := refine zero N eps l in
  gaps_le eps r /\ has_long eps r = false /\ (forall k, refine zero (N + k) eps l = r)
  /\ gaps_pos r /\ Refines zero l r /\ Subseq (points 0 l) (points 0 r) /\ qsum (map fst r) == qsum (map fst l).
Proof.
  intros V zero eps N l He Hle Hpos r.
  destruct (refine_gaps zero eps He N l Hle) as [H1 H2].
  pose proof (refine_spec zero eps N l He) as HR.
  repeat split; try assumption.
  - intro k. apply refine_more_fuel; assumption.
  - apply refine_gaps_pos; assumption.
  - apply (Refines_points zero l r HR). reflexivity.
  - apply (Refines_total zero l r HR).
Qed.

(* what the code RETURNS (F-C15-1 repaired: refine_up_to_maturity): the path of the max-step simulators is 0, the refined times,
   the maturity; for 0 < eps < T and enough passes EVERY step is <= eps - the step to the maturity and the steps of a path without
   jumps included - and the returned gaps/values refine (Refines) the jump times with the maturity appended *)
Theorem C15_cap_whole_path : forall N eps T times vals, 0 < eps -> eps < T -> length vals = length times ->
  let l := combine (gaps (times ++ [T])) (vals ++ [last vals 0]) in
  gaps_le (inject_Z (Z.of_nat (S N)) * eps) l ->
  let p := capped_path N eps T times vals in
  hd 1 (fst p) = 0 /\ last (fst p) 0 = T
  /\ Forall (fun g => g <= eps) (gaps (tl (fst p)))
  /\ exists r, Refines 0 l r
        /\ Forall2 Qeq (gaps (tl (fst p))) (map fst r)
        /\ snd p = assemble_values (removelast (map snd r)).
Proof. exact capped_path_whole. Qed.

Theorem C15_finer_grid_returns : forall (V : Type) (zero : V) fuel eps times (vals : list V),
  let r := refine zero fuel eps (combine (gaps times) vals) in
  finer_grid zero fuel eps times vals = (cumsum (map fst r), map snd r)
  /\ Forall2 Qeq (gaps (fst (finer_grid zero fuel eps times vals))) (map fst r)
  /\ snd (finer_grid zero fuel eps times vals) = map snd r.
Proof. intros V zero. exact (finer_grid_refine zero). Qed.

(* fine and coarse components are refined at the same positions: projecting the coupled refinement gives the
   refinement of each component, with the same gaps (hence the same times) *)
Theorem C15_finer_grid_aligned : forall eps fuel (l : list (Q * (Q * Q))),
  map (fun x => (fst x, fst (snd x))) (refine (0, 0) fuel eps l) = refine 0 fuel eps (map (fun x => (fst x, fst (snd x))) l)
  /\ map (fun x => (fst x, snd (snd x))) (refine (0, 0) fuel eps l) = refine 0 fuel eps (map (fun x => (fst x, snd (snd x))) l).
Proof. intros. split. apply (refine_proj (@fst Q Q)). apply (refine_proj (@snd Q Q)). Qed.

(* non-vacuity *)
Example C15_nonvacuous :
  fixed_jump_path [[1; 2]; []; [4]] = [0; 0 + 3; 0 + 3 + 0; 0 + 3 + 0 + 4]
  /\ map Qred (fst (finer_grid 0 8 (1#2) [1#4; 3#2] [1; 3])) = [1#4; 3#4; 5#4; 3#2]
  /\ snd (finer_grid 0 8 (1#2) [1#4; 3#2] [1; 3]) = [1; 1; 1; 3]
  /\ (let p := jump_path true (Some (1#2)) 8 2 [0; 1] [[1#4; 1#2]; [1#4]] [[1; 2]; [4]] in (map Qred (fst p), map Qred (snd p)))
     = ([0; 1#4; 1#2; 1; 5#4; 7#4; 2], [0; 1; 3; 3; 7; 7; 7])
  /\ (let p := jump_path false (Some (1#2)) 8 1 [0] [[]] [[]] in (map Qred (fst p), map Qred (snd p))) = ([0; 1#2; 1], [0; 0; 0]).
Proof. vm_compute. repeat split. Qed.

Print Assumptions C15_fixed_dates.
Print Assumptions C15_jump_times.
Print Assumptions C15_finer_grid.
Print Assumptions C15_cap_whole_path.
Print Assumptions C15_finer_grid_returns.
Print Assumptions C15_finer_grid_aligned.
Print Assumptions C15_nonvacuous.

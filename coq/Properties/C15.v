(* C15 -- Simulated paths are running sums on the product dates within the time-step cap.
   Only statements; proofs in Proofs/C15_Paths.v, Proofs/C15_Finer.v, Proofs/C15_Link.v, Proofs/C15_Nd.v, Proofs/C15_CouplingShape.v, Proofs/C15_NdScript.v.  Models: Model/Paths.v (hand
   models of the path builders of levyprocess.py / markovchain.py / couplingmarkovchain.py and of both copies of build_finer_grid) and
   Model/PathsNd.v (the d-dimensional Levy-copula simulators of markovchainlevycopula.py and couplinglevycopula.py, the real
   jump_times_from_nb_of_jumps), tied to the source by the correspondence through process.simulate_one_path(). *)
From Coq Require Import ZArith QArith List.
From RV Require Import Base.QB Model.Paths Model.PathsNd Proofs.C15_Paths Proofs.C15_Finer Proofs.C15_Link Proofs.C15_Nd.
From RV Require Gen.GenTiePaths Proofs.Tie_Paths.
From RV Require Import Proofs.C15_GenTie Model.CouplingShapeNd Proofs.C15_CouplingShape Proofs.C15_NdScript.
Import ListNotations.
Open Scope Q_scope.

(* fixed product dates (repaired tree), any number of dates and of jumps per interval: the path starts at 0,
   the jump part at date j+1 is the sum of ALL jump increments of the intervals 0..j, the increment between two
   consecutive dates is built from the variates of that interval only, the Markov-chain variant (last value of
   the chain restarted at the origin) agrees, and the diffusion part is the running sum of the scaled normals *)
Theorem C15_fixed_dates : forall intervals sq sigma ws,
  (forall j, (j < length intervals)%nat ->
     nth 0 (fixed_jump_path intervals) 0 = 0
     /\ nth (S j) (fixed_jump_path intervals) 0 == qsum (concat (firstn (S j) intervals))
     /\ nth (S j) (fixed_jump_path intervals) 0 - nth j (fixed_jump_path intervals) 0 == qsum (nth j intervals [])
     /\ nth (S j) (mc_fixed_jump_path intervals) 0 == nth (S j) (fixed_jump_path intervals) 0)
  /\ (forall j, (j < length (scaled sq sigma ws))%nat ->
     nth 0 (diffusion_path sq sigma ws) 0 = 0 /\
     nth (S j) (diffusion_path sq sigma ws) 0 == qsum (firstn (S j) (scaled sq sigma ws))).
Proof. intros. split; intros. apply fixed_dates; assumption. apply fixed_diffusion; assumption. Qed.

(* jump times: for consecutive product intervals (tm, dt, offsets) with offsets strictly increasing inside (0, dt),
   any number of intervals and of jumps (also none): times start at 0, end at the maturity and are strictly
   increasing; the jump part is 0 at time 0, the running sum of all increments at each jump time, and the last
   value is repeated at the maturity; the (repaired) Markov-chain simulators, which build the path interval by interval and
   carry the end value over the product dates, give the same running sums for ANY number of product intervals *)
Theorem C15_jump_times : forall ivs incs, valid_ivs 0 ivs -> 0 < end_of 0 ivs ->
  (let T := end_of 0 ivs in let times := assemble_times T (times_of_ivs ivs) in
   hd 1 times = 0 /\ last times 0 = T /\ strictly_increasing times)
  /\ (let vals := levy_jump_values incs in let path := assemble_values vals in
      nth 0 path 0 = 0
      /\ (forall k, (k < length vals)%nat -> nth (S k) path 0 == qsum (firstn (S k) (concat incs)))
      /\ last path 0 = last vals 0
      /\ length path = S (S (length (concat incs))))
  /\ (forall chain_incs, Forall2 Qeq (mc_jump_values chain_incs) (levy_jump_values chain_incs))
  (* times and values belong together only when every interval has as many increments as offsets: then equally long *)
  /\ (Forall2 (fun iv inc => length (iv_offs iv) = length inc) ivs incs ->
      length (assemble_times (end_of 0 ivs) (times_of_ivs ivs)) = length (assemble_values (levy_jump_values incs))).
Proof.
  intros. split; [|split; [|split]]. apply jump_times_path; assumption. apply jump_values. apply chain_running_sum.
  intro. apply jump_path_lengths; assumption.
Qed.

(* build_finer_grid (any value type V: scalars, d-vectors, (fine, coarse) pairs), any list of (gap, value), 0 < eps:
   if every gap is at most (N+1) eps the loop ends within N passes (more fuel changes nothing) and then
   every gap is <= eps, gaps stay positive (times strictly increasing), the result arises from the original by
   inserting points that carry the value of the point before them (Refines), the original (time, value) points
   survive in order, and the total time is unchanged *)
Theorem C15_finer_grid : forall (V : Type) (zero : V) eps N (l : list (Q * V)), 0 < eps ->
  gaps_le (inject_Z (Z.of_nat (S N)) * eps) l -> gaps_pos l ->
  let r := refine zero N eps l in
  gaps_le eps r /\ has_long eps r = false /\ (forall k, refine zero (N + k) eps l = r)
  /\ gaps_pos r /\ Refines zero l r /\ Subseq (points 0 l) (points 0 r) /\ qsum (map fst r) == qsum (map fst l).
Proof.
  intros V zero eps N l He Hle Hpos r.
  destruct (refine_gaps zero eps He N l Hle) as [H1 H2].
  pose proof (refine_spec zero eps N l He) as HR.
  repeat split; try assumption.
  - intro k. apply refine_more_fuel; assumption.
  - apply refine_gaps_pos; assumption.
  - apply (Refines_points zero l r HR). reflexivity.
  - apply (Refines_total zero l r HR).
Qed.

(* what the code RETURNS (F-C15-1 repaired: refine_up_to_maturity): the path of the max-step simulators is 0, the refined times,
   the maturity; for 0 < eps < T and enough passes EVERY step is <= eps - the step to the maturity and the steps of a path without
   jumps included - and the returned gaps/values refine (Refines) the jump times with the maturity appended *)
Theorem C15_cap_whole_path : forall N eps T times vals, 0 < eps -> eps < T -> length vals = length times ->
  let l := combine (gaps (times ++ [T])) (vals ++ [last vals 0]) in
  gaps_le (inject_Z (Z.of_nat (S N)) * eps) l ->
  let p := capped_path N eps T times vals in
  hd 1 (fst p) = 0 /\ last (fst p) 0 = T
  /\ Forall (fun g => g <= eps) (gaps (tl (fst p)))
  /\ exists r, Refines 0 l r
        /\ Forall2 Qeq (gaps (tl (fst p))) (map fst r)
        /\ snd p = assemble_values (removelast (map snd r)).
Proof. exact capped_path_whole. Qed.

Theorem C15_finer_grid_returns : forall (V : Type) (zero : V) fuel eps times (vals : list V),
  let r := refine zero fuel eps (combine (gaps times) vals) in
  finer_grid zero fuel eps times vals = (cumsum (map fst r), map snd r)
  /\ Forall2 Qeq (gaps (fst (finer_grid zero fuel eps times vals))) (map fst r)
  /\ snd (finer_grid zero fuel eps times vals) = map snd r.
Proof. intros V zero. exact (finer_grid_refine zero). Qed.

(* fine and coarse components are refined at the same positions: projecting the coupled refinement gives the
   refinement of each component, with the same gaps (hence the same times) *)
Theorem C15_finer_grid_aligned : forall eps fuel (l : list (Q * (Q * Q))),
  map (fun x => (fst x, fst (snd x))) (refine (0, 0) fuel eps l) = refine 0 fuel eps (map (fun x => (fst x, fst (snd x))) l)
  /\ map (fun x => (fst x, snd (snd x))) (refine (0, 0) fuel eps l) = refine 0 fuel eps (map (fun x => (fst x, snd (snd x))) l).
Proof. intros. split. apply (refine_proj (@fst Q Q)). apply (refine_proj (@snd Q Q)). Qed.

(* ------------------------------------------------------------------ d-dimensional Levy-copula simulators (Model/PathsNd.v) *)
(* fixed product dates, MarkovChainLevyCopula (nd_fixed_jump_path) and CouplingProcessLevyCopula (fine and coarse are both
   nd_coupled_fixed_component, of the fine grid values resp. of the coupling states): for EVERY component k < d, any number of dates and of
   jumps per interval, the value at date j+1 is the sum of the k-th components of ALL increments of the intervals 0..j (running sum, not the
   interval total: F-C15-2/3/6), and the date-to-date increment uses the variates of that interval only *)
Theorem C15_nd_fixed_dates : forall d k intervals, (k < d)%nat -> wf2 d intervals -> forall j, (j < length intervals)%nat ->
  let ck := map (map (comp k)) intervals in
  (nth 0 (nd_fixed_jump_path d intervals) [] = vzero d
   /\ comp k (nth (S j) (nd_fixed_jump_path d intervals) []) == qsum (concat (firstn (S j) ck))
   /\ comp k (nth (S j) (nd_fixed_jump_path d intervals) []) - comp k (nth j (nd_fixed_jump_path d intervals) []) == qsum (nth j ck []))
  /\ (comp k (nth 0 (nd_coupled_fixed_component d intervals) []) == 0
   /\ comp k (nth (S j) (nd_coupled_fixed_component d intervals) []) == qsum (concat (firstn (S j) ck))
   /\ comp k (nth (S j) (nd_coupled_fixed_component d intervals) []) - comp k (nth j (nd_coupled_fixed_component d intervals) []) == qsum (nth j ck [])).
Proof. exact nd_fixed_dates. Qed.

(* jump times, d-dimensional chain carried over the product dates (chain_over_intervals on (n_k, d) arrays): zero column first, every
   component the running sum of all its increments so far for ANY number of product intervals, last column repeated at the maturity *)
Theorem C15_nd_jump_values : forall d k incs, (k < d)%nat -> wf2 d incs ->
  let vals := nd_jump_values d incs in
  let path := nd_assemble_values d vals in
  nth 0 path [] = vzero d
  /\ Forall2 Qeq (map (comp k) vals) (levy_jump_values (map (map (comp k)) incs))
  /\ (forall i, (i < length vals)%nat -> comp k (nth (S i) path []) == qsum (firstn (S i) (concat (map (map (comp k)) incs))))
  /\ last path [] = last vals (vzero d).
Proof. exact nd_jump_values_path. Qed.

(* PROJECTION LEMMA (audit5b #9: relabelled) for CouplingLevyCopulaSimulation{WithJumpTimes, MaximumStep}.simulate_one_path_with_coupling (any
   cap, any fuel): the ONE list of times the model returns is the time list of the 1-d model, fine and coarse have equally many columns, and
   each component of each is exactly the 1-d Markov-chain value path (Model/Paths.v jump_path) of that component's increments.  Times (tms,
   offs) and values (fincs, cincs) are SEPARATE, unrelated arguments here, as they are separate arrays in the code: this statement does NOT say
   that there is one column per returned time, nor that the times are ordered (C15_nd_coupled_path_mismatch below: 5 times, 3 columns meets every
   hypothesis).  The alignment of values with times and the ordering are C15_nd_coupled_script (times and values read off ONE script) and, for
   the max-step refinement alone, C15_nd_coupled_cap *)
Theorem C15_nd_coupled_path : forall d k cap fuel T tms offs fincs cincs, (k < d)%nat -> wf2 d fincs -> wf2 d cincs ->
  length (nd_jump_values d fincs) = length (nd_jump_values d cincs) ->
  let '(t, f, c) := nd_coupled_jump_path d cap fuel T (jump_times_of tms offs) fincs cincs in
  (t, map (comp k) f) = jump_path true cap fuel T tms offs (map (map (comp k)) fincs)
  /\ (t, map (comp k) c) = jump_path true cap fuel T tms offs (map (map (comp k)) cincs)
  /\ length f = length c.
Proof. intros. apply nd_coupled_jump_path_comp; assumption. Qed.

(* MarkovChainLevyCopula.simulate_one_path (jump times, optional cap): component k is the 1-d chain path of component k.  Projection lemma as
   above (times and values are separate arguments); on one script the last conjunct of C15_nd_coupled_script identifies this path with the
   (times, fine columns) of the coupled path, for which alignment and ordering are proved there *)
Theorem C15_nd_copula_path : forall d k cap fuel T tms offs incs, (k < d)%nat -> wf2 d incs ->
  let p := nd_jump_path d cap fuel T (jump_times_of tms offs) incs in
  (fst p, map (comp k) (snd p)) = jump_path true cap fuel T tms offs (map (map (comp k)) incs).
Proof. exact nd_jump_path_comp. Qed.

(* CouplingLevyCopulaSimulationMaximumStep (helper.py build_finer_grid on fine and coarse (d, n) arrays through refine_up_to_maturity), for
   0 < eps < T and enough passes: the returned times start at 0, end at T and EVERY step is <= eps (the step to the maturity and jump-free
   paths included); fine and coarse have one column per returned time (aligned); every component of each is the 1-d capped path *)
Theorem C15_nd_coupled_cap : forall d N eps T times (fine coarse : list vec), 0 < eps -> eps < T ->
  length fine = length times -> length coarse = length times ->
  Forall (fun g => g <= inject_Z (Z.of_nat (S N)) * eps) (gaps (times ++ [T])) ->
  let '(t, f, c) := coupled_refine_to_maturity_v (vzero d) N eps T times fine coarse in
  let tt := assemble_times T t in
  hd 1 tt = 0 /\ last tt 0 = T /\ Forall (fun g => g <= eps) (gaps (tl tt))
  /\ length f = length t /\ length c = length t
  /\ forall k, (tt, map (comp k) (nd_assemble_values d f)) = capped_path N eps T times (map (comp k) fine)
            /\ (tt, map (comp k) (nd_assemble_values d c)) = capped_path N eps T times (map (comp k) coarse).
Proof. exact nd_coupled_cap. Qed.

(* diffusion of the copula simulators: component k at step j+1 is the running sum of sqrt(dt_i) * (row k of the diffusion matrix . the d
   normals of step i): each step uses its own column of normals only *)
Theorem C15_nd_diffusion : forall d k dm sq wcols, length dm = d -> (k < d)%nat ->
  map (comp k) (nd_diffusion_path d dm sq wcols) = 0 :: cumsum (map2 (fun s w => s * dot (nth k dm []) w) sq wcols).
Proof. exact nd_diffusion_comp. Qed.

(* the REAL LevyProcess.jump_times_from_nb_of_jumps (np.sort(dt * uniforms), insertion-sort model): pairwise distinct uniforms in (0, 1)
   give offsets that are strictly increasing inside (0, dt), one per uniform - the hypothesis valid_ivs of C15_jump_times *)
Theorem C15_real_jump_times : forall dt us, 0 < dt -> Forall (fun u => 0 < u /\ u < 1) us -> distinct us ->
  let offs := offsets_of_uniforms dt us in
  incr_from 0 offs /\ Forall (fun o => o < dt) offs /\ length offs = length us.
Proof. exact offsets_of_uniforms_valid. Qed.

(* ------------------------------------------------------------------ generated from the source (wave 6, TIE)
   chain_over_intervals of rpylib/process/markovchain/markovchain.py is REGENERATED by py2coq on every run (Gen/GenTiePaths.v: the loop over
   the product intervals with the carried pair (pieces, level), `level + interval_values`, pieces[-1][-1], np.concatenate).  On what
   MCSimulationWithJumpTimes.simulate_jumps passes to it - per product interval the np.cumsum of the interval's increments (the chain
   restarted at the origin) - the generated function IS the hand model mc_jump_values the theorems above are about (Proofs/Tie_Paths.v) *)
Theorem C15_gen_chain_over_intervals_is_model : forall incs,
  GenTiePaths.chain_over_intervals (map cumsum incs) = mc_jump_values incs.
Proof. exact Tie_Paths.gen_chain_over_intervals_eq_model. Qed.

(* hence the running-sum statement of C15_jump_times holds for the GENERATED chain_over_intervals: for any number of product intervals
   (empty ones included) the path it returns is, value by value, the running sum of ALL increments so far (= the Levy simulator's
   np.cumsum over the concatenated increments), the assembled path starts at 0 and repeats the last value at the maturity *)
Theorem C15_gen_chain_running_sums : forall incs,
  let vals := GenTiePaths.chain_over_intervals (map cumsum incs) in
  Forall2 Qeq vals (levy_jump_values incs)
  /\ length vals = length (concat incs)
  /\ (forall k, (k < length vals)%nat -> nth (S k) (assemble_values vals) 0 == qsum (firstn (S k) (concat incs))).
Proof. exact gen_chain_running_sums. Qed.

(* ------------------------------------------------------------------ wave 6: the coupled copula path on what the REAL __coupling_state returns
   Model/CouplingShapeNd.v: for a fine state increment `inc` (one integer per coordinate) the fine value is grid[origin + inc] and the coupling
   state keeps that value on every EVEN coordinate and is a clamped neighbour on its own axis (sign drawn by the uniform: input `sgs`) on every
   ODD one.  For any dimension d = length axes, any number of product intervals and jumps, any sign vectors: the hypotheses of
   C15_nd_coupled_path (d-vectors, as many coarse as fine values) HOLD, so fine and coarse have equally many columns and every component is
   the 1-d chain path; and on a coordinate where every state increment is even the coarse path IS the fine path.  Like C15_nd_coupled_path this
   is about the values only (tms, offs are unrelated to raws); one column per time + ordering on one script: C15_nd_coupled_script_real *)
Theorem C15_nd_coupled_path_real : forall axes org k cap fuel T tms offs raws sgs,
  let d := length axes in
  length org = d -> (k < d)%nat -> raws_wf d raws -> signs_for raws sgs ->
  let fincs := fine_incs axes org raws in
  let cincs := coarse_incs axes org raws sgs in
  wf2 d cincs /\ length (nd_jump_values d fincs) = length (nd_jump_values d cincs) /\
  let '(t, f, c) := nd_coupled_jump_path d cap fuel T (jump_times_of tms offs) fincs cincs in
  (t, map (comp k) f) = jump_path true cap fuel T tms offs (map (map (comp k)) fincs)
  /\ (t, map (comp k) c) = jump_path true cap fuel T tms offs (map (map (comp k)) cincs)
  /\ length f = length c
  /\ ((forall inc, In inc (concat raws) -> Z.even (nth k inc 0%Z) = true) -> map (comp k) c = map (comp k) f).
Proof. exact nd_coupled_path_real. Qed.

(* ------------------------------------------------------------------ wave 8b (audit5b #9): times and values from ONE script
   A script (Proofs/C15_NdScript.v) is the list of product intervals (start, length, jumps in time order), each jump = (offset inside the interval,
   fine increment, coupling state): what the coupled copula simulators consume jump by jump.  Jump times, fine and coarse increments are READ OFF
   that one list (s_ivs / s_fincs / s_cincs).  For consecutive intervals from 0 with offsets strictly increasing inside (0, dt) (valid_ivs: the
   hypothesis C15_real_jump_times discharges from the uniforms), d-vectors, any cap 0 < eps (below, equal to or above the maturity) and any
   fuel: fine and coarse have ONE COLUMN PER RETURNED TIME, the times start at 0, end at the maturity and are STRICTLY INCREASING (inserted
   points included), without a cap they are exactly 0, the scripted jump times, the maturity; every component is the 1-d chain path on these
   times; and MarkovChainLevyCopula's path on the fine increments is (these times, the fine columns) *)
Theorem C15_nd_coupled_script : forall d k cap fuel (s : list siv), (k < d)%nat -> s_wf d s ->
  valid_ivs 0 (s_ivs s) -> 0 < end_of 0 (s_ivs s) -> match cap with Some eps => 0 < eps | None => True end ->
  let T := end_of 0 (s_ivs s) in
  let tms := map iv_tm (s_ivs s) in let offs := map iv_offs (s_ivs s) in
  let '(t, f, c) := nd_coupled_jump_path d cap fuel T (jump_times_of tms offs) (s_fincs s) (s_cincs s) in
  length f = length t /\ length c = length t
  /\ hd 1 t = 0 /\ last t 0 = T /\ strictly_increasing t
  /\ (cap = None -> t = assemble_times T (times_of_ivs (s_ivs s)) /\ length t = S (S (s_njumps s)))
  /\ (t, map (comp k) f) = jump_path true cap fuel T tms offs (map (map (comp k)) (s_fincs s))
  /\ (t, map (comp k) c) = jump_path true cap fuel T tms offs (map (map (comp k)) (s_cincs s))
  /\ nd_jump_path d cap fuel T (jump_times_of tms offs) (s_fincs s) = (t, f).
Proof. exact nd_coupled_script. Qed.

(* the same with the hypothesis on the vectors discharged from the shape of the real __coupling_state (Model/CouplingShapeNd.v): the script holds
   PRIMITIVE inputs only - per jump the offset, the sampled state increment (d integers) and the sign vector __coupling_state drew; fine
   increments and coupling states are computed from them (s_of_real).  Conclusions as above, and on a coordinate where every state increment is
   even the coarse component path IS the fine one.  (Indices origin + increment are assumed inside the axes, as in C15_nd_coupled_path_real) *)
Theorem C15_nd_coupled_script_real : forall axes org k cap fuel (rs : list riv),
  let d := length axes in
  length org = d -> (k < d)%nat -> r_wf d rs ->
  valid_ivs 0 (r_ivs rs) -> 0 < end_of 0 (r_ivs rs) -> match cap with Some eps => 0 < eps | None => True end ->
  let s := s_of_real axes org rs in
  let T := end_of 0 (r_ivs rs) in
  let tms := map iv_tm (r_ivs rs) in let offs := map iv_offs (r_ivs rs) in
  let '(t, f, c) := nd_coupled_jump_path d cap fuel T (jump_times_of tms offs) (s_fincs s) (s_cincs s) in
  length f = length t /\ length c = length t
  /\ hd 1 t = 0 /\ last t 0 = T /\ strictly_increasing t
  /\ (cap = None -> t = assemble_times T (times_of_ivs (r_ivs rs)) /\ length t = S (S (s_njumps s)))
  /\ (t, map (comp k) f) = jump_path true cap fuel T tms offs (map (map (comp k)) (s_fincs s))
  /\ (t, map (comp k) c) = jump_path true cap fuel T tms offs (map (map (comp k)) (s_cincs s))
  /\ ((forall j : rjump, In j (concat (map (fun x : riv => snd x) rs)) -> Z.even (nth k (fst (snd j)) 0%Z) = true) -> map (comp k) c = map (comp k) f).
Proof. exact nd_coupled_script_real. Qed.

(* why the script is needed: the auditor's instance meets every hypothesis of C15_nd_coupled_path and returns 5 times with 3 fine and 3 coarse
   columns; decreasing / duplicate times are accepted there as well *)
Example C15_nd_coupled_path_mismatch :
  wf2 2 [[[1; 2]]] /\ wf2 2 [[[3; 4]]] /\ length (nd_jump_values 2 [[[1; 2]]]) = length (nd_jump_values 2 [[[3; 4]]])
  /\ (let '(t, f, c) := nd_coupled_jump_path 2 None 0 1 (jump_times_of [0] [[1#4; 1#2; 3#4]]) [[[1; 2]]] [[[3; 4]]] in
      (length t, length f, length c)) = (5, 3, 3)%nat
  /\ (let '(t, f, c) := nd_coupled_jump_path 2 None 0 1 (jump_times_of [0] [[3#4; 1#4; 1#4]]) [[[1; 2]]; [[1; 1]; [0; 1]]] [[[3; 4]]; [[0; 0]; [1; 1]]] in
      map Qred t) = [0; 3#4; 1#4; 1#4; 1].
Proof. split; [repeat constructor|]. split; [repeat constructor|]. repeat split. Qed.

(* non-vacuity of C15_nd_coupled_script on what the model's OWN builders produce: d = 2, two product intervals [0,1], [1,2] whose offsets are
   offsets_of_uniforms (the real jump_times_from_nb_of_jumps) of the uniforms [3/4; 1/4] and [1/2], cap 1/2: every hypothesis holds and the path
   has 6 times (the point 5/4 is inserted and repeats the columns of 3/4), 6 fine and 6 coarse columns *)
Example C15_nd_script_nonvacuous :
  let s : list siv := [(0, 1, [(1#4, ([1; 2], [0; 1])); (3#4, ([2; 4], [1; 1]))]); (1, 1, [(1#2, ([4; 8], [2; 0]))])] in
  s_wf 2 s /\ valid_ivs 0 (s_ivs s) /\ 0 < end_of 0 (s_ivs s)
  /\ map (map Qred) (map iv_offs (s_ivs s)) = map (map Qred) [offsets_of_uniforms 1 [3#4; 1#4]; offsets_of_uniforms 1 [1#2]]
  /\ (let '(t, f, c) := nd_coupled_jump_path 2 (Some (1#2)) 8 (end_of 0 (s_ivs s)) (jump_times_of (map iv_tm (s_ivs s)) (map iv_offs (s_ivs s))) (s_fincs s) (s_cincs s) in
      (map Qred t, map (map Qred) f, map (map Qred) c))
     = ([0; 1#4; 3#4; 5#4; 3#2; 2], [[0; 0]; [1; 2]; [3; 6]; [3; 6]; [7; 14]; [7; 14]], [[0; 0]; [0; 1]; [1; 2]; [1; 2]; [3; 2]; [3; 2]]).
Proof.
  cbv zeta. split; [repeat constructor|]. split; [|split; [vm_compute; reflexivity|split; vm_compute; reflexivity]].
  cbn. repeat split; try (vm_compute; reflexivity); repeat constructor; vm_compute; reflexivity.
Qed.

(* non-vacuity of C15_nd_coupled_script_real: the instance of C15_coupling_shape_nonvacuous below written as ONE primitive script (d = 3, two
   product intervals with 2 + 1 jumps at offsets 1/4, 1/2 and 1/4): every hypothesis holds, coordinate 1 has even increments only, and the
   fine / coarse increments computed from the script are those of that example *)
Example C15_nd_script_real_nonvacuous :
  let axis := [-1; -(1#2); 0; 1#2; 1] in let axes := [axis; axis; axis] in let org := [2; 2; 2]%Z in
  let rs : list riv := [(0, 1, [(1#4, ([1; 2; -1]%Z, [true; true; false])); (1#2, ([-1; 0; 2]%Z, [false; false; true]))]);
                        (1, 1, [(1#4, ([1; -2; 1]%Z, [true; true; true]))])] in
  r_wf 3 rs /\ valid_ivs 0 (r_ivs rs) /\ 0 < end_of 0 (r_ivs rs)
  /\ (forall j : rjump, In j (concat (map (fun x : riv => snd x) rs)) -> Z.even (nth 1 (fst (snd j)) 0%Z) = true)
  /\ s_fincs (s_of_real axes org rs) = [[[1#2; 1; -(1#2)]; [-(1#2); 0; 1]]; [[1#2; -1; 1#2]]]
  /\ s_cincs (s_of_real axes org rs) = [[[1; 1; -1]; [-1; 0; 1]]; [[1; -1; 1]]]
  /\ s_njumps (s_of_real axes org rs) = 3%nat.
Proof.
  cbv zeta. split; [repeat constructor|]. split; [cbn; repeat split; try (vm_compute; reflexivity); repeat constructor; vm_compute; reflexivity|].
  split; [vm_compute; reflexivity|]. split; [intros j [<-|[<-|[<-|[]]]]; reflexivity|]. repeat split; vm_compute; reflexivity.
Qed.

(* non-vacuity: d = 3, axes of 5 points with the origin in the middle, two product intervals with 2 + 1 jumps; coordinate 1 has even increments
   only (coarse = fine there), coordinates 0 and 2 move to neighbours; each coupling state is among the outcomes the correspondence accepts *)
Example C15_coupling_shape_nonvacuous :
  let axis := [-1; -(1#2); 0; 1#2; 1] in let axes := [axis; axis; axis] in let org := [2; 2; 2]%Z in
  let raws := [[[1; 2; -1]; [-1; 0; 2]]; [[1; -2; 1]]]%Z in
  let sgs := [[[true; true; false]; [false; false; true]]; [[true; true; true]]] in
  raws_wf 3 raws /\ signs_for raws sgs /\ (forall inc, In inc (concat raws) -> Z.even (nth 1 inc 0%Z) = true)
  /\ fine_incs axes org raws = [[[1#2; 1; -(1#2)]; [-(1#2); 0; 1]]; [[1#2; -1; 1#2]]]
  /\ coarse_incs axes org raws sgs = [[[1; 1; -1]; [-1; 0; 1]]; [[1; -1; 1]]]
  /\ coupling_value_possible axes org [1; 2; -1]%Z [1; 1; -1] = true
  /\ coupling_value_possible axes org [1; 2; -1]%Z [1; 1#2; -1] = false
  /\ (let '(t, f, c) := nd_coupled_jump_path 3 None 0 2 (jump_times_of [0; 1] [[1#4; 1#2]; [1#4]]) (fine_incs axes org raws) (coarse_incs axes org raws sgs) in
      (map Qred t, map (map Qred) f, map (map Qred) c))
     = ([0; 1#4; 1#2; 5#4; 2], [[0; 0; 0]; [1#2; 1; -(1#2)]; [0; 1; 1#2]; [1#2; 0; 1]; [1#2; 0; 1]],
        [[0; 0; 0]; [1; 1; -1]; [0; 1; 0]; [1; 0; 1]; [1; 0; 1]]).
Proof.
  cbv zeta. split; [repeat constructor|]. split; [repeat constructor|].
  split; [intros inc [<-|[<-|[<-|[]]]]; reflexivity|].
  repeat split; vm_compute; reflexivity.
Qed.

(* non-vacuity *)
Example C15_nonvacuous :
  fixed_jump_path [[1; 2]; []; [4]] = [0; 0 + 3; 0 + 3 + 0; 0 + 3 + 0 + 4]
  /\ map Qred (fst (finer_grid 0 8 (1#2) [1#4; 3#2] [1; 3])) = [1#4; 3#4; 5#4; 3#2]
  /\ snd (finer_grid 0 8 (1#2) [1#4; 3#2] [1; 3]) = [1; 1; 1; 3]
  /\ (let p := jump_path true (Some (1#2)) 8 2 [0; 1] [[1#4; 1#2]; [1#4]] [[1; 2]; [4]] in (map Qred (fst p), map Qred (snd p)))
     = ([0; 1#4; 1#2; 1; 5#4; 7#4; 2], [0; 1; 3; 3; 7; 7; 7])
  /\ (let p := jump_path false (Some (1#2)) 8 1 [0] [[]] [[]] in (map Qred (fst p), map Qred (snd p))) = ([0; 1#2; 1], [0; 0; 0])
  (* the generated chain_over_intervals on three product intervals, the middle one without a jump: the path keeps running *)
  /\ map Qred (GenTiePaths.chain_over_intervals (map cumsum [[1; 2]; []; [4; -(1#2)]])) = [1; 3; 7; 13#2].
Proof. vm_compute. repeat split. Qed.

(* non-vacuity of the d-dimensional statements: d = 3, two product intervals with 2 + 1 jumps, cap 1/2 on T = 2 *)
Example C15_nd_nonvacuous :
  wf2 3 [[[1; 2; 4]; [1; 0; -4]]; []; [[8; 8; 8]]]
  /\ nd_fixed_jump_path 3 [[[1; 2; 4]; [1; 0; -4]]; []; [[8; 8; 8]]] = [[0; 0; 0]; [0 + (0 + 1 + 1); 0 + (0 + 2 + 0); 0 + (0 + 4 + -4)];
        [0 + (0 + 1 + 1) + 0; 0 + (0 + 2 + 0) + 0; 0 + (0 + 4 + -4) + 0]; [0 + (0 + 1 + 1) + 0 + (0 + 8); 0 + (0 + 2 + 0) + 0 + (0 + 8); 0 + (0 + 4 + -4) + 0 + (0 + 8)]]
  /\ (let '(t, f, c) := nd_coupled_jump_path 2 (Some (1#2)) 8 2 (real_jump_times [0; 1; 2] [[1#2; 1#4]; [1#4]]) [[[1; 2]; [2; 4]]; [[4; 8]]] [[[0; 1]; [1; 1]]; [[2; 0]]] in
      (map Qred t, map (map Qred) f, map (map Qred) c))
     = ([0; 1#4; 1#2; 1; 5#4; 7#4; 2], [[0; 0]; [1; 2]; [3; 6]; [3; 6]; [7; 14]; [7; 14]; [7; 14]], [[0; 0]; [0; 1]; [1; 2]; [1; 2]; [3; 2]; [3; 2]; [3; 2]])
  /\ offsets_of_uniforms 2 [3#4; 1#8; 1#2] = [2 * (1#8); 2 * (1#2); 2 * (3#4)] /\ distinct [3#4; 1#8; 1#2]
  /\ map (map Qred) (nd_diffusion_path 2 [[1#2; 0]; [1#4; 1#2]] [1; 2] [[1; 2]; [4; 0]]) = [[0; 0]; [1#2; 5#4]; [9#2; 13#4]].
Proof.
  split; [repeat constructor|]. split; [reflexivity|]. split; [vm_compute; reflexivity|]. split; [reflexivity|].
  split; [|vm_compute; reflexivity].
  cbn [distinct]. repeat split; repeat constructor; intro E; vm_compute in E; discriminate.
Qed.

Print Assumptions C15_fixed_dates.
Print Assumptions C15_jump_times.
Print Assumptions C15_finer_grid.
Print Assumptions C15_cap_whole_path.
Print Assumptions C15_finer_grid_returns.
Print Assumptions C15_finer_grid_aligned.
Print Assumptions C15_nd_fixed_dates.
Print Assumptions C15_nd_jump_values.
Print Assumptions C15_nd_coupled_path.
Print Assumptions C15_nd_copula_path.
Print Assumptions C15_nd_coupled_cap.
Print Assumptions C15_nd_diffusion.
Print Assumptions C15_real_jump_times.
Print Assumptions C15_gen_chain_over_intervals_is_model.
Print Assumptions C15_gen_chain_running_sums.
Print Assumptions C15_nd_coupled_path_real.
Print Assumptions C15_nd_coupled_script.
Print Assumptions C15_nd_coupled_script_real.
Print Assumptions C15_nd_coupled_path_mismatch.
Print Assumptions C15_nd_script_nonvacuous.
Print Assumptions C15_nd_script_real_nonvacuous.
Print Assumptions C15_coupling_shape_nonvacuous.
Print Assumptions C15_nonvacuous.
Print Assumptions C15_nd_nonvacuous.

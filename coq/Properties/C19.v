(* C19 -- credit closed forms equal the default-region jump rate: statements only.
   th1/th2/th3 (Model/Credit.v) instantiate the py2coq-generated CFLevyModel._theta / CFLevyCopulaModel._theta
   (Gen/GenC19Theta.v, loops unrolled for d = 2, 3); fast_*d are the generated rectangle masses of C12; the spread maps are
   Gen/GenC19Spread.v.  The equality with the sum of the chain's per-state rates over the default region of a CTMCCredit
   grid is NOT a theorem here: it is checked on the implementation (exactly on dyadic step models) by harness/props/C19.py. *)
From Coq Require Import List Arith Bool Reals QArith Lra.
From RV Require Import Base.RB Base.ExtNum Model.Copula Gen.GenC12Mass Model.MassNd Gen.GenC19Theta Gen.GenC19Spread Model.Credit
  Proofs.C12_Mass Proofs.C12_Family Proofs.C12_Nonneg Proofs.C11_Copula Proofs.C11_Clayton Proofs.C11_Increasing Proofs.C11_Dep3 Proofs.C19_Credit Proofs.C19_Spread Model.Grid Model.Chain Proofs.C01_Chain Proofs.C13_Grid Proofs.C19_Rate Proofs.C19_RateCredit.
Import ListNotations.
Open Scope R_scope.

(* theta is the mass of the union of the default half-spaces {x_i <= a_i}: disjoint decomposition
   {x1<=a1} u {x1>a1, x2<=a2} u {x1>a1, x2>a2, x3<=a3}, and inclusion-exclusion (d = 2 and d = 3), on the family the code
   builds from ANY grounded copula function and marginal tails V vanishing at +-inf (no hypothesis on the family itself) *)
Theorem C19_theta_is_union_mass : forall (V : nat -> ext R -> ext R) (cop : list (ext R) -> R), tails_inf V ->
  forall a1 a2 a3, @xlt0 RNum a1 = true -> @xlt0 RNum a2 = true -> @xlt0 RNum a3 = true ->
  let U1 := tail_val RNum V in
  th1 RNum U1 a1 = fast_1d RNum U1 NInf a1 0%nat /\
  (grounded2 cop -> let UI := margin_tail_integral RNum V cop 2 in
     th2 RNum U1 UI a1 a2 = fast_2d RNum U1 UI [NInf; NInf] [a1; PInf] None + fast_2d RNum U1 UI [a1; NInf] [PInf; a2] None /\
     th2 RNum U1 UI a1 a2 = fast_2d RNum U1 UI [NInf; NInf] [a1; PInf] None + fast_2d RNum U1 UI [NInf; NInf] [PInf; a2] None
                            - fast_2d RNum U1 UI [NInf; NInf] [a1; a2] None) /\
  (grounded3 cop -> let UI := margin_tail_integral RNum V cop 3 in let f3 := fast_3d RNum U1 UI in
     th3 RNum U1 UI a1 a2 a3 = f3 [NInf; NInf; NInf] [a1; PInf; PInf] None + f3 [a1; NInf; NInf] [PInf; a2; PInf] None
                               + f3 [a1; a2; NInf] [PInf; PInf; a3] None /\
     th3 RNum U1 UI a1 a2 a3 =
       f3 [NInf; NInf; NInf] [a1; PInf; PInf] None + f3 [NInf; NInf; NInf] [PInf; a2; PInf] None + f3 [NInf; NInf; NInf] [PInf; PInf; a3] None
       - f3 [NInf; NInf; NInf] [a1; a2; PInf] None - f3 [NInf; NInf; NInf] [a1; PInf; a3] None - f3 [NInf; NInf; NInf] [PInf; a2; a3] None
       + f3 [NInf; NInf; NInf] [a1; a2; a3] None).
Proof.
  intros V cop Vinf a1 a2 a3 H1 H2 H3 U1. split; [|split].
  - subst U1. unfold th1, GenC19Theta.theta_1, mass_below, fast_1d, mass_1d, tail_val. rewrite H1. cbn. rewrite (proj2 (Vinf 0%nat)). cbn. ring.
  - intros G. apply theta2_union_model; assumption.
  - intros G. apply theta3_union_model; assumption.
Qed.

(* theta is non-decreasing in each threshold: for every Levy copula in the sense of C11 and (real-valued) marginal tails of a
   non-negative measure; second theorem: for the three copulas of the model helpers without any hypothesis on the copula *)
Theorem C19_monotone : forall (U1 : nat -> ext R -> R) (cop : list (ext R) -> R), rtails_ok U1 ->
  forall a1 a1' a2 a2' a3 a3',
  @xleb RNum a1 a1' = true -> @xlt0 RNum a1' = true -> @xleb RNum a2 a2' = true -> @xlt0 RNum a2' = true ->
  @xleb RNum a3 a3' = true -> @xlt0 RNum a3' = true ->
  let V := fun i x => Fin (U1 i x) in
  th1 RNum U1 a1 <= th1 RNum U1 a1' /\
  (copula2_ok cop -> let UI := margin_tail_integral RNum V cop 2 in
     th2 RNum U1 UI a1 a2 <= th2 RNum U1 UI a1' a2 /\ th2 RNum U1 UI a1 a2 <= th2 RNum U1 UI a1 a2') /\
  (copula3_ok cop -> let UI := margin_tail_integral RNum V cop 3 in
     th3 RNum U1 UI a1 a2 a3 <= th3 RNum U1 UI a1' a2 a3 /\ th3 RNum U1 UI a1 a2 a3 <= th3 RNum U1 UI a1 a2' a3 /\
     th3 RNum U1 UI a1 a2 a3 <= th3 RNum U1 UI a1 a2 a3').
Proof.
  intros U1 cop Tok a1 a1' a2 a2' a3 a3' L1 N1 L2 N2 L3 N3 V. split. apply theta1_monotone; assumption.
  split. intros C. apply theta2_monotone; assumption. intros C. apply theta3_monotone; assumption.
Qed.
Theorem C19_monotone_modelled : forall (U1 : nat -> ext R -> R) th et, rtails_ok U1 -> 0 < th -> 0 <= et <= 1 ->
  forall cop, cop = indep RNum \/ cop = dep RNum \/ cop = clayton th et ->
  forall a1 a1' a2 a2' a3 a3',
  @xleb RNum a1 a1' = true -> @xlt0 RNum a1' = true -> @xleb RNum a2 a2' = true -> @xlt0 RNum a2' = true ->
  @xleb RNum a3 a3' = true -> @xlt0 RNum a3' = true ->
  let V := fun i x => Fin (U1 i x) in
  (let UI := margin_tail_integral RNum V cop 2 in
     th2 RNum U1 UI a1 a2 <= th2 RNum U1 UI a1' a2 /\ th2 RNum U1 UI a1 a2 <= th2 RNum U1 UI a1 a2') /\
  (let UI := margin_tail_integral RNum V cop 3 in
     th3 RNum U1 UI a1 a2 a3 <= th3 RNum U1 UI a1' a2 a3 /\ th3 RNum U1 UI a1 a2 a3 <= th3 RNum U1 UI a1 a2' a3 /\
     th3 RNum U1 UI a1 a2 a3 <= th3 RNum U1 UI a1 a2 a3').
Proof.
  intros U1 th et Tok Hth Het cop Hc a1 a1' a2 a2' a3 a3' L1 N1 L2 N2 L3 N3 V.
  assert (C2 : copula2_ok cop) by (destruct Hc as [E|[E|E]]; subst cop; [apply indep_copula2_ok | apply dep_copula2_ok | apply clayton_copula2_ok; assumption]).
  assert (C3 : copula3_ok cop) by (destruct Hc as [E|[E|E]]; subst cop; [apply indep_copula3_ok | apply dep_copula3_ok | apply clayton_copula3_ok; assumption]).
  split. apply theta2_monotone; assumption. apply theta3_monotone; assumption.
Qed.

(* survival = exp(-t theta), par spread = (1-R) theta; the objective of implied_cds_spread is affine in the spread with
   slope -(1-exp(-(r+theta)T))/(r+theta) < 0, so its zero is unique, equals (default_leg - pv)/fixed_leg, and for pv = 0
   it is the par spread (1-R) theta *)
Theorem C19_spread_maps : forall (A : Type) (theta_of : A -> R) (a : A) (t rec r pv T : R),
  survival_probability A theta_of a t = exp (- t * theta_of a) /\ ftd_survival_probability A theta_of a t = exp (- t * theta_of a) /\
  cds_spread A theta_of a rec = (1 - rec) * theta_of a /\ ftd_par_spread A theta_of a rec = (1 - rec) * theta_of a /\
  (forall s, ftd_implied_fun r (theta_of a) pv rec T s = implied_fun r (theta_of a) pv rec T s /\
             implied_fun r (theta_of a) pv rec T s =
               implied_fun_default_leg r (theta_of a) rec T - s * implied_fun_fixed_leg r (theta_of a) rec T - pv) /\
  (0 < r + theta_of a -> 0 < T ->
     0 < implied_fun_fixed_leg r (theta_of a) rec T /\
     (forall s1 s2, s1 < s2 -> implied_fun r (theta_of a) pv rec T s2 < implied_fun r (theta_of a) pv rec T s1) /\
     (forall s, implied_fun r (theta_of a) pv rec T s = 0 <->
                s = (implied_fun_default_leg r (theta_of a) rec T - pv) / implied_fun_fixed_leg r (theta_of a) rec T) /\
     implied_fun r (theta_of a) 0 rec T (cds_spread A theta_of a rec) = 0).
Proof.
  intros. split. apply survival_eq. split. apply survival_eq. split. apply par_spread_eq. split. apply par_spread_eq.
  split. intros s. split; apply implied_affine.
  intros H1 H2. split. apply fixed_leg_pos; assumption.
  pose proof (implied_spread_unique r (theta_of a) pv rec T H1 H2) as [M [U _]].
  pose proof (implied_spread_unique r (theta_of a) 0 rec T H1 H2) as [_ [_ Z]].
  split. exact M. split. exact U. exact Z.
Qed.

(* implied quantities: (1) present-value round trip -- the implied spread of the model PV of a CDS paying s0 is s0;
   (2) the objective of implied_cds_threshold, cds_spread(a) - target, is non-decreasing in the threshold wherever theta is
   (by C19_monotone it is, on negative thresholds), its zeros reproduce the target spread, and the root is searched in
   (-10, -h0).  scipy.optimize.brentq itself is not modelled. *)
Theorem C19_implied_quantities : forall (A : Type) (theta_of : A -> R) (le : A -> A -> Prop) (r rec T s0 s target : R) (a : A),
  (0 < r + theta_of a -> 0 < T ->
     (implied_fun r (theta_of a) (implied_fun_default_leg r (theta_of a) rec T - s0 * implied_fun_fixed_leg r (theta_of a) rec T) rec T s = 0
      <-> s = s0)) /\
  ((forall x y, le x y -> theta_of x <= theta_of y) -> rec <= 1 ->
     (forall x y, le x y -> implied_threshold_fun A theta_of target rec x <= implied_threshold_fun A theta_of target rec y) /\
     (forall x, implied_threshold_fun A theta_of target rec x = 0 <-> cds_spread A theta_of x rec = target) /\
     (forall h0, implied_threshold_fun_bracket h0 = (-10, - h0))).
Proof.
  intros. split. intros; apply implied_pv_roundtrip; assumption. intros M Hr. apply (implied_threshold_props A theta_of le M target rec Hr).
Qed.

(* the headline clause, d = 1: on an axis whose cell boundary next to the threshold is `bnd` (level 0 of the credit grid:
   bnd == a; refined grids: bnd < a), the summed rates mass(cell_k) of the states below the threshold equal the mass of [x_0, bnd)
   = theta(bnd) of the measure truncated to the grid; `mass` is any interval mass additive away from 0 (C01's hypotheses, C09).
   Full statement: also d = 2, 3 with the copula rectangle masses -- implementation oracle only. *)
Theorem C19_rate_equals_theta_partial : forall (mid mass : Q -> Q -> Q),
  (forall x y, (x < y)%Q -> (x < mid x y)%Q /\ (mid x y < y)%Q) -> (forall x, ~ (x == 0)%Q -> (mid x x == x)%Q) ->
  (forall a b c, (a <= b)%Q -> (b <= c)%Q -> ((c < 0)%Q \/ (0 < a)%Q) -> (mass a c == mass a b + mass b c)%Q) ->
  (forall a a' b b', (a == a')%Q -> (b == b')%Q -> (mass a b == mass a' b')%Q) ->
  forall xs m bnd a, incr xs -> ends_ok xs -> (1 <= m)%nat -> (m <= length xs)%nat ->
  (forall k, (k < m)%nat -> (cell_hi mid xs k < 0)%Q) -> (cell_hi mid xs (m - 1) == bnd)%Q -> (cell_lo mid xs 0 == nthq xs 0)%Q ->
  (qsum (map (fun k => mass (cell_lo mid xs k) (cell_hi mid xs k)) (seq 0 m)) == mass (nthq xs 0) bnd)%Q /\
  ((nthq xs 0 <= bnd)%Q -> (bnd <= a)%Q -> (a < 0)%Q ->
   (qsum (map (fun k => mass (cell_lo mid xs k) (cell_hi mid xs k)) (seq 0 m)) == mass (nthq xs 0) a - mass bnd a)%Q).
Proof.
  intros mid mass H1 H2 H3 H4 xs m bnd a Hi He Hm Hl Hneg Hb H0. split.
  - apply rate_equals_theta_1d; assumption.
  - intros. apply refined_gap_1d; assumption.
Qed.

(* d = 1, composed: on the level-0 credit axis built by CTMCCredit (C13's credit_axis: l, a-eps, a+eps, -h, 0, h, .., r), with the
   chain's cells between arithmetic mid-points (C01), the summed rates of the two states below the threshold equal the GENERATED
   theta (th1 = CFLevyModel._theta) of the measure truncated to [l, r], whose tail integral is U(a) = -mass l a. *)
Theorem C19_rate_equals_theta_credit_1d : forall (mass : Q -> Q -> Q) (U1 : nat -> ext Q -> Q),
  (forall a b c, (a <= b)%Q -> (b <= c)%Q -> ((c < 0)%Q \/ (0 < a)%Q) -> (mass a c == mass a b + mass b c)%Q) ->
  (forall a a' b b', (a == a')%Q -> (b == b')%Q -> (mass a b == mass a' b')%Q) ->
  forall l a h r sym xs o, credit_axis l a h r sym = Some (xs, o) -> (a < 0)%Q -> (U1 0%nat (Fin a) == - mass l a)%Q ->
  (qsum (map (fun k => mass (cell_lo amid xs k) (cell_hi amid xs k)) (seq 0 2)) == th1 QNum U1 (Fin a))%Q.
Proof. intros mass U1 H1 H2 l a h r sym xs o. apply rate_equals_theta_credit_1d; assumption. Qed.

(* the implied-threshold objective composed with C19_monotone (d = 1): with the generated theta of real tails of a non-negative
   measure, cds_spread(a) - target is non-decreasing in the (negative) threshold *)
Theorem C19_threshold_objective_monotone : forall (U1 : nat -> ext R -> R) (target rec : R), rtails_ok U1 -> rec <= 1 ->
  forall a a' : R, a <= a' -> a' < 0 ->
  implied_threshold_fun R (fun x => th1 RNum U1 (Fin x)) target rec a <= implied_threshold_fun R (fun x => th1 RNum U1 (Fin x)) target rec a'.
Proof.
  intros U1 target rec Tok Hr a a' L N.
  apply (proj1 (implied_threshold_props R (fun x => th1 RNum U1 (Fin x)) (fun x y => x <= y /\ y < 0)
         (fun x y H => theta1_monotone U1 Tok (Fin x) (Fin y) (proj2 (Rleb_true x y) (proj1 H)) (proj2 (Rltb_true y 0) (proj2 H))) target rec Hr)).
  split; assumption.
Qed.

(* non-vacuity: the Q instance of the generated theta evaluates on a dyadic step model (independent copula): the union
   mass is the sum of the two marginal masses below the thresholds *)
Open Scope Q_scope.
Definition C19_example_margins : list (list (Q * Q * Q)) :=
  [[(-2, -(1#2), 3#4); ((1#2), 2, 3#2)]; [(-1, -(1#4), 3#1); ((1#4), 1, 3#4)]].
Example C19_nonvacuous :
  Qeq_bool (th2 QNum (step_U1 C19_example_margins) (step_UI Indep C19_example_margins) (Fin (-1)) (Fin (-(1#2)))) ((3#4) + (3#2)) = true
  /\ Qeq_bool (th2 QNum (step_U1 C19_example_margins) (step_UI Dep C19_example_margins) (Fin (-1)) (Fin (-(1#2)))) (3#2) = true.
Proof. vm_compute. repeat split. Qed.

Print Assumptions C19_theta_is_union_mass.
Print Assumptions C19_monotone.
Print Assumptions C19_monotone_modelled.
Print Assumptions C19_spread_maps.
Print Assumptions C19_implied_quantities.
Print Assumptions C19_rate_equals_theta_partial.
Print Assumptions C19_rate_equals_theta_credit_1d.
Print Assumptions C19_threshold_objective_monotone.
Print Assumptions C19_nonvacuous.

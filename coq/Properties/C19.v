(* C19 -- credit closed forms equal the default-region jump rate: statements only.
   th1/th2/th3 (Model/Credit.v) instantiate the py2coq-generated CFLevyModel._theta / CFLevyCopulaModel._theta
   (Gen/GenC19Theta.v, loops unrolled for d = 2, 3); fast_*d are the generated rectangle masses of C12; the spread maps are
   Gen/GenC19Spread.v.  The equality with the sum of the chain's per-state rates over the default region of a CTMCCredit
   grid is a theorem for d = 1 (C19_rate_equals_theta_credit_1d) and d = 2 (C19_rate_equals_theta_2d: C01's 2-d chain model on
   a pair of C13's credit axes, rates = the generated rectangle mass of C12 over Q) and d = 3 (C19_rate_equals_theta_3d: C01's 3-d chain
   model Model/Chain3d.v on a triple of credit axes, rates = the generated box mass mass_3d of C12 over Q); refined credit grids (wave 7):
   C19_credit_refined_boundary (refine^n of the credit axis, composing C13's refine_n: the cell boundary is a - eps / 2^n),
   C19_refined_gap_1d, C19_rate_equals_union_refined_2d, C19_rate_equals_theta_refined_2d.
   SCOPE of the d = 2 / d = 3 headlines: their hypotheses tails_proper / truncated are discharged ONLY for dyadic step margins with the
   independent or the completely dependent copula (C19_rate_equals_theta_step_models: the hypotheses become a boolean the correspondence
   evaluates on every case); for every other model they are stated hypotheses. *)
From Coq Require Import List Arith Bool Reals QArith Lra.
From RV Require Import Base.QB Base.RB Base.ExtNum Model.Copula Gen.GenC12Mass Model.MassNd Gen.GenC19Theta Gen.GenC19Spread Model.Credit
  Proofs.C12_Mass Proofs.C12_Family Proofs.C12_Nonneg Proofs.C11_Copula Proofs.C11_Clayton Proofs.C11_Increasing Proofs.C11_Dep3 Proofs.C19_Credit Proofs.C19_Spread Model.Grid Model.Chain Proofs.C01_Chain Proofs.C13_Grid Proofs.C19_Rate Proofs.C19_RateCredit Proofs.C01_Chain2d Proofs.C19_Rate2d Proofs.C19_Theta2d Proofs.C19_StepTails Proofs.C19_Bracket Proofs.C19_Refine Proofs.C19_StepCases
  Model.Chain3d Proofs.C01_Chain3d Proofs.C19_Rate3d Proofs.C19_Theta3d Proofs.C19_StepTails3.
Import ListNotations.
Open Scope R_scope.

(* theta is the mass of the union of the default half-spaces {x_i <= a_i}: disjoint decomposition
   {x1<=a1} u {x1>a1, x2<=a2} u {x1>a1, x2>a2, x3<=a3}, and inclusion-exclusion (d = 2 and d = 3), on the family the code
   builds from ANY grounded copula function and marginal tails V vanishing at +-inf (no hypothesis on the family itself) *)
Theorem C19_theta_is_union_mass : forall (V : nat -> ext R -> ext R) (cop : list (ext R) -> R), tails_inf V ->
  forall a1 a2 a3, @xlt0 RNum a1 = true -> @xlt0 RNum a2 = true -> @xlt0 RNum a3 = true ->
  let U1 := tail_val RNum V in
  th1 RNum U1 a1 = fast_1d RNum U1 NInf a1 0%nat /\
  (grounded2 cop -> let UI := margin_tail_integral RNum V cop 2 in
     th2 RNum U1 UI a1 a2 = fast_2d RNum U1 UI [NInf; NInf] [a1; PInf] None + fast_2d RNum U1 UI [a1; NInf] [PInf; a2] None /\
     th2 RNum U1 UI a1 a2 = fast_2d RNum U1 UI [NInf; NInf] [a1; PInf] None + fast_2d RNum U1 UI [NInf; NInf] [PInf; a2] None
                            - fast_2d RNum U1 UI [NInf; NInf] [a1; a2] None) /\
  (grounded3 cop -> let UI := margin_tail_integral RNum V cop 3 in let f3 := fast_3d RNum U1 UI in
     th3 RNum U1 UI a1 a2 a3 = f3 [NInf; NInf; NInf] [a1; PInf; PInf] None + f3 [a1; NInf; NInf] [PInf; a2; PInf] None
                               + f3 [a1; a2; NInf] [PInf; PInf; a3] None /\
     th3 RNum U1 UI a1 a2 a3 =
       f3 [NInf; NInf; NInf] [a1; PInf; PInf] None + f3 [NInf; NInf; NInf] [PInf; a2; PInf] None + f3 [NInf; NInf; NInf] [PInf; PInf; a3] None
       - f3 [NInf; NInf; NInf] [a1; a2; PInf] None - f3 [NInf; NInf; NInf] [a1; PInf; a3] None - f3 [NInf; NInf; NInf] [PInf; a2; a3] None
       + f3 [NInf; NInf; NInf] [a1; a2; a3] None).
Proof.
  intros V cop Vinf a1 a2 a3 H1 H2 H3 U1. split; [|split].
  - subst U1. unfold th1, GenC19Theta.theta_1, mass_below, fast_1d, mass_1d, tail_val. rewrite H1. cbn. rewrite (proj2 (Vinf 0%nat)). cbn. ring.
  - intros G. apply theta2_union_model; assumption.
  - intros G. apply theta3_union_model; assumption.
Qed.

(* theta is non-decreasing in each threshold: for every Levy copula in the sense of C11 and (real-valued) marginal tails of a
   non-negative measure; second theorem: for the three copulas of the model helpers without any hypothesis on the copula *)
Theorem C19_monotone : forall (U1 : nat -> ext R -> R) (cop : list (ext R) -> R), rtails_ok U1 ->
  forall a1 a1' a2 a2' a3 a3',
  @xleb RNum a1 a1' = true -> @xlt0 RNum a1' = true -> @xleb RNum a2 a2' = true -> @xlt0 RNum a2' = true ->
  @xleb RNum a3 a3' = true -> @xlt0 RNum a3' = true ->
  let V := fun i x => Fin (U1 i x) in
  th1 RNum U1 a1 <= th1 RNum U1 a1' /\
  (copula2_ok cop -> let UI := margin_tail_integral RNum V cop 2 in
     th2 RNum U1 UI a1 a2 <= th2 RNum U1 UI a1' a2 /\ th2 RNum U1 UI a1 a2 <= th2 RNum U1 UI a1 a2') /\
  (copula3_ok cop -> let UI := margin_tail_integral RNum V cop 3 in
     th3 RNum U1 UI a1 a2 a3 <= th3 RNum U1 UI a1' a2 a3 /\ th3 RNum U1 UI a1 a2 a3 <= th3 RNum U1 UI a1 a2' a3 /\
     th3 RNum U1 UI a1 a2 a3 <= th3 RNum U1 UI a1 a2 a3').
Proof.
  intros U1 cop Tok a1 a1' a2 a2' a3 a3' L1 N1 L2 N2 L3 N3 V. split. apply theta1_monotone; assumption.
  split. intros C. apply theta2_monotone; assumption. intros C. apply theta3_monotone; assumption.
Qed.
Theorem C19_monotone_modelled : forall (U1 : nat -> ext R -> R) th et, rtails_ok U1 -> 0 < th -> 0 <= et <= 1 ->
  forall cop, cop = indep RNum \/ cop = dep RNum \/ cop = clayton th et ->
  forall a1 a1' a2 a2' a3 a3',
  @xleb RNum a1 a1' = true -> @xlt0 RNum a1' = true -> @xleb RNum a2 a2' = true -> @xlt0 RNum a2' = true ->
  @xleb RNum a3 a3' = true -> @xlt0 RNum a3' = true ->
  let V := fun i x => Fin (U1 i x) in
  (let UI := margin_tail_integral RNum V cop 2 in
     th2 RNum U1 UI a1 a2 <= th2 RNum U1 UI a1' a2 /\ th2 RNum U1 UI a1 a2 <= th2 RNum U1 UI a1 a2') /\
  (let UI := margin_tail_integral RNum V cop 3 in
     th3 RNum U1 UI a1 a2 a3 <= th3 RNum U1 UI a1' a2 a3 /\ th3 RNum U1 UI a1 a2 a3 <= th3 RNum U1 UI a1 a2' a3 /\
     th3 RNum U1 UI a1 a2 a3 <= th3 RNum U1 UI a1 a2 a3').
Proof.
  intros U1 th et Tok Hth Het cop Hc a1 a1' a2 a2' a3 a3' L1 N1 L2 N2 L3 N3 V.
  assert (C2 : copula2_ok cop) by (destruct Hc as [E|[E|E]]; subst cop; [apply indep_copula2_ok | apply dep_copula2_ok | apply clayton_copula2_ok; assumption]).
  assert (C3 : copula3_ok cop) by (destruct Hc as [E|[E|E]]; subst cop; [apply indep_copula3_ok | apply dep_copula3_ok | apply clayton_copula3_ok; assumption]).
  split. apply theta2_monotone; assumption. apply theta3_monotone; assumption.
Qed.

(* survival = exp(-t theta), par spread = (1-R) theta; the objective of implied_cds_spread is affine in the spread with
   slope -(1-exp(-(r+theta)T))/(r+theta) < 0, so its zero is unique, equals (default_leg - pv)/fixed_leg, and for pv = 0
   it is the par spread (1-R) theta *)
Theorem C19_spread_maps : forall (A : Type) (theta_of : A -> R) (a : A) (t rec r pv T : R),
  survival_probability A theta_of a t = exp (- t * theta_of a) /\ ftd_survival_probability A theta_of a t = exp (- t * theta_of a) /\
  cds_spread A theta_of a rec = (1 - rec) * theta_of a /\ ftd_par_spread A theta_of a rec = (1 - rec) * theta_of a /\
  (forall s, ftd_implied_fun r (theta_of a) pv rec T s = implied_fun r (theta_of a) pv rec T s /\
             implied_fun r (theta_of a) pv rec T s =
               implied_fun_default_leg r (theta_of a) rec T - s * implied_fun_fixed_leg r (theta_of a) rec T - pv) /\
  (0 < r + theta_of a -> 0 < T ->
     0 < implied_fun_fixed_leg r (theta_of a) rec T /\
     (forall s1 s2, s1 < s2 -> implied_fun r (theta_of a) pv rec T s2 < implied_fun r (theta_of a) pv rec T s1) /\
     (forall s, implied_fun r (theta_of a) pv rec T s = 0 <->
                s = (implied_fun_default_leg r (theta_of a) rec T - pv) / implied_fun_fixed_leg r (theta_of a) rec T) /\
     implied_fun r (theta_of a) 0 rec T (cds_spread A theta_of a rec) = 0).
Proof.
  intros. split. apply survival_eq. split. apply survival_eq. split. apply par_spread_eq. split. apply par_spread_eq.
  split. intros s. split; apply implied_affine.
  intros H1 H2. split. apply fixed_leg_pos; assumption.
  pose proof (implied_spread_unique r (theta_of a) pv rec T H1 H2) as [M [U _]].
  pose proof (implied_spread_unique r (theta_of a) 0 rec T H1 H2) as [_ [_ Z]].
  split. exact M. split. exact U. exact Z.
Qed.

(* implied quantities: (1) present-value round trip -- the implied spread of the model PV of a CDS paying s0 is s0;
   (2) the objective of implied_cds_threshold, cds_spread(a) - target, is non-decreasing in the threshold wherever theta is
   (by C19_monotone it is, on negative thresholds), its zeros reproduce the target spread, and the root is searched in
   (-10, -h0).  scipy.optimize.brentq itself is not modelled. *)
Theorem C19_implied_quantities : forall (A : Type) (theta_of : A -> R) (le : A -> A -> Prop) (r rec T s0 s target : R) (a : A),
  (0 < r + theta_of a -> 0 < T ->
     (implied_fun r (theta_of a) (implied_fun_default_leg r (theta_of a) rec T - s0 * implied_fun_fixed_leg r (theta_of a) rec T) rec T s = 0
      <-> s = s0)) /\
  ((forall x y, le x y -> theta_of x <= theta_of y) -> rec <= 1 ->
     (forall x y, le x y -> implied_threshold_fun A theta_of target rec x <= implied_threshold_fun A theta_of target rec y) /\
     (forall x, implied_threshold_fun A theta_of target rec x = 0 <-> cds_spread A theta_of x rec = target) /\
     (forall h0, implied_threshold_fun_bracket h0 = (-10, - h0))).
Proof.
  intros. split. intros; apply implied_pv_roundtrip; assumption. intros M Hr. apply (implied_threshold_props A theta_of le M target rec Hr).
Qed.

(* the headline clause, d = 1: on an axis whose cell boundary next to the threshold is `bnd` (level 0 of the credit grid:
   bnd == a; refined grids: bnd < a), the summed rates mass(cell_k) of the states below the threshold equal the mass of [x_0, bnd)
   = theta(bnd) of the measure truncated to the grid; `mass` is any interval mass additive away from 0 (C01's hypotheses, C09).
   Full statement: also d = 2, 3 with the copula rectangle masses -- implementation oracle only. *)
Theorem C19_rate_equals_theta_partial : forall (mid mass : Q -> Q -> Q),
  (forall x y, (x < y)%Q -> (x < mid x y)%Q /\ (mid x y < y)%Q) -> (forall x, ~ (x == 0)%Q -> (mid x x == x)%Q) ->
  (forall a b c, (a <= b)%Q -> (b <= c)%Q -> ((c < 0)%Q \/ (0 < a)%Q) -> (mass a c == mass a b + mass b c)%Q) ->
  (forall a a' b b', (a == a')%Q -> (b == b')%Q -> (mass a b == mass a' b')%Q) ->
  forall xs m bnd a, incr xs -> ends_ok xs -> (1 <= m)%nat -> (m <= length xs)%nat ->
  (forall k, (k < m)%nat -> (cell_hi mid xs k < 0)%Q) -> (cell_hi mid xs (m - 1) == bnd)%Q -> (cell_lo mid xs 0 == nthq xs 0)%Q ->
  (qsum (map (fun k => mass (cell_lo mid xs k) (cell_hi mid xs k)) (seq 0 m)) == mass (nthq xs 0) bnd)%Q /\
  ((nthq xs 0 <= bnd)%Q -> (bnd <= a)%Q -> (a < 0)%Q ->
   (qsum (map (fun k => mass (cell_lo mid xs k) (cell_hi mid xs k)) (seq 0 m)) == mass (nthq xs 0) a - mass bnd a)%Q).
Proof.
  intros mid mass H1 H2 H3 H4 xs m bnd a Hi He Hm Hl Hneg Hb H0. split.
  - apply rate_equals_theta_1d; assumption.
  - intros. apply refined_gap_1d; assumption.
Qed.

(* d = 1, composed: on the level-0 credit axis built by CTMCCredit (C13's credit_axis: l, a-eps, a+eps, -h, 0, h, .., r), with the
   chain's cells between arithmetic mid-points (C01), the summed rates of the two states below the threshold equal the GENERATED
   theta (th1 = CFLevyModel._theta) of the measure truncated to [l, r], whose tail integral is U(a) = -mass l a. *)
Theorem C19_rate_equals_theta_credit_1d : forall (mass : Q -> Q -> Q) (U1 : nat -> ext Q -> Q),
  (forall a b c, (a <= b)%Q -> (b <= c)%Q -> ((c < 0)%Q \/ (0 < a)%Q) -> (mass a c == mass a b + mass b c)%Q) ->
  (forall a a' b b', (a == a')%Q -> (b == b')%Q -> (mass a b == mass a' b')%Q) ->
  forall l a h r sym xs o, credit_axis l a h r sym = Some (xs, o) -> (a < 0)%Q -> (U1 0%nat (Fin a) == - mass l a)%Q ->
  (qsum (map (fun k => mass (cell_lo amid xs k) (cell_hi amid xs k)) (seq 0 2)) == th1 QNum U1 (Fin a))%Q.
Proof. intros mass U1 H1 H2 l a h r sym xs o. apply rate_equals_theta_credit_1d; assumption. Qed.

(* the headline clause, d = 2, part 1: the chain of C01 (Model/Chain.v q_entry2: the rate of a state is the rectangle mass of its cell
   between arithmetic mid-points) on a pair of level-0 credit axes (C13's credit_axis), for ANY rectangle mass that is additive under a
   split of either coordinate on boxes avoiding the origin (C01's hypotheses; no positivity needed): the summed rates of the states with
   x_i < a1 or y_j < a2 equal the mass of the default region inside the truncation box [l1,r1] x [l2,r2] -- as the disjoint sum
   {x < a1} + {x >= a1, y < a2} and by inclusion-exclusion *)
Theorem C19_rate_equals_union_mass_2d : forall (mass2 : Q * Q -> Q * Q -> Q),
  (forall a1 b1 c1 y1 y2, (a1 <= b1)%Q -> (b1 <= c1)%Q -> avoids (a1, y1) (c1, y2) ->
     (mass2 (a1, y1) (c1, y2) == mass2 (a1, y1) (b1, y2) + mass2 (b1, y1) (c1, y2))%Q) ->
  (forall x1 x2 a2 b2 c2, (a2 <= b2)%Q -> (b2 <= c2)%Q -> avoids (x1, a2) (x2, c2) ->
     (mass2 (x1, a2) (x2, c2) == mass2 (x1, a2) (x2, b2) + mass2 (x1, b2) (x2, c2))%Q) ->
  (forall a1 a2 b1 b2 a1' a2' b1' b2', (a1 == a1')%Q -> (a2 == a2')%Q -> (b1 == b1')%Q -> (b2 == b2')%Q ->
     (mass2 (a1, a2) (b1, b2) == mass2 (a1', a2') (b1', b2'))%Q) ->
  forall l1 a1 r1 l2 a2 r2 h sym xs ys o1 o2,
  credit_axis l1 a1 h r1 sym = Some (xs, o1) -> credit_axis l2 a2 h r2 sym = Some (ys, o2) ->
  (default_rate2 amid mass2 xs ys 4 a1 a2 == mass2 (l1, l2) (a1, r2) + mass2 (a1, l2) (r1, a2))%Q
  /\ (default_rate2 amid mass2 xs ys 4 a1 a2 == mass2 (l1, l2) (a1, r2) + mass2 (l1, l2) (r1, a2) - mass2 (l1, l2) (a1, a2))%Q.
Proof. exact rate_equals_union_credit_2d. Qed.

(* any admissible pair of axes (refined credit grids, uniform grids): with the first mx / my states of the axes in the default region
   (mx, my <= origin index) the summed rates are the mass of the region bounded by the CELL boundaries b1, b2 after those states;
   on refined credit grids b_i < a_i: the exact gap to theta is the mass of the slab between b_i and a_i *)
Theorem C19_default_rate_2d_any_axes : forall (mid : Q -> Q -> Q) (mass2 : Q * Q -> Q * Q -> Q),
  (forall x y, (x < y)%Q -> (x < mid x y)%Q /\ (mid x y < y)%Q) -> (forall x, ~ (x == 0)%Q -> (mid x x == x)%Q) ->
  (forall x x' y y', (x == x')%Q -> (y == y')%Q -> (mid x y == mid x' y')%Q) ->
  (forall a1 b1 c1 y1 y2, (a1 <= b1)%Q -> (b1 <= c1)%Q -> avoids (a1, y1) (c1, y2) ->
     (mass2 (a1, y1) (c1, y2) == mass2 (a1, y1) (b1, y2) + mass2 (b1, y1) (c1, y2))%Q) ->
  (forall x1 x2 a2 b2 c2, (a2 <= b2)%Q -> (b2 <= c2)%Q -> avoids (x1, a2) (x2, c2) ->
     (mass2 (x1, a2) (x2, c2) == mass2 (x1, a2) (x2, b2) + mass2 (x1, b2) (x2, c2))%Q) ->
  (forall a1 a2 b1 b2 a1' a2' b1' b2', (a1 == a1')%Q -> (a2 == a2')%Q -> (b1 == b1')%Q -> (b2 == b2')%Q ->
     (mass2 (a1, a2) (b1, b2) == mass2 (a1', a2') (b1', b2'))%Q) ->
  forall xs ys o hx hy mx my b1 b2, admissible xs o hx -> admissible ys o hy -> (1 <= mx <= o)%nat -> (1 <= my <= o)%nat ->
  (cell_hi mid xs (mx - 1) == b1)%Q -> (cell_hi mid ys (my - 1) == b2)%Q ->
  (default_rate2_idx mid mass2 xs ys o mx my == mass2 (headq xs, headq ys) (b1, lastq ys) + mass2 (b1, headq ys) (lastq xs, b2))%Q
  /\ (default_rate2_idx mid mass2 xs ys o mx my ==
        mass2 (headq xs, headq ys) (b1, lastq ys) + mass2 (headq xs, headq ys) (lastq xs, b2) - mass2 (headq xs, headq ys) (b1, b2))%Q.
Proof. intros mid mass2 H1 H2 H3 H4 H5 H6 xs ys o hx hy mx my b1 b2. apply default_rate2_idx_boxes; assumption. Qed.

(* the headline clause, d = 2, part 2 (composition): the rates are the GENERATED rectangle mass of the chain's model
   (box_mass2 = LevyCopulaModel.mass fast path of Gen/GenC12Mass.v on finite boxes, over Q -- its additivity per coordinate is proved
   from the generated term, no hypothesis), theta is the GENERATED CFLevyCopulaModel._theta (th2) of the same tail integrals; these are
   the tail integrals of a measure truncated to the grid box (truncated2: marginal tails vanish at the truncation bounds, the pair tail
   integral vanishes when an argument is a bound -- what truncate_levy_measure(grid.truncations) and a grounded copula give) and are
   functions of the rational number (tails_proper2).  Then the summed rates over the default region EQUAL theta. *)
Theorem C19_rate_equals_theta_2d : forall (U1 : nat -> ext Q -> Q) (UI : idx -> list (ext Q) -> Q) l1 a1 r1 l2 a2 r2 h sym xs ys o1 o2,
  credit_axis l1 a1 h r1 sym = Some (xs, o1) -> credit_axis l2 a2 h r2 sym = Some (ys, o2) ->
  tails_proper2 U1 UI -> truncated2 U1 UI l1 r1 l2 r2 ->
  (default_rate2 amid (box_mass2 U1 UI) xs ys 4 a1 a2 == th2 QNum U1 UI (Fin a1) (Fin a2))%Q.
Proof. exact rate_equals_theta_credit_2d. Qed.

(* refined credit grids (CTMCGrid.refine applied n+1 times to the level-0 credit axis; C13: refine_axis_n = the np.insert loop, admissible with
   origin 2^(n+1) * 4 and step h / 2^(n+1)).  The gap [a - eps, a + eps] is interpolated linearly, so the threshold a is the state of index
   m = 3 * 2^n, the states below the threshold are EXACTLY the first m (the test x_i < a on the values = the test i < m on the indices), and
   the cell boundary after the last of them is b = a - eps / 2^(n+1), strictly between a - eps and a.  pw2 k is 2^k as a rational. *)
Theorem C19_credit_refined_boundary : forall l a h r sym xs o n, credit_axis l a h r sym = Some (xs, o) ->
  let ys := refine_axis_n amid (S n) xs in let m := (3 * 2 ^ n)%nat in let b := (a - credit_eps l a h / pw2 (S n))%Q in
  admissible ys (2 ^ S n * 4) (h / pw2 (S n)) /\ headq ys = l /\ lastq ys = r
  /\ (1 <= m <= 2 ^ S n * 4)%nat /\ (m < length ys)%nat
  /\ (nthq ys m == a)%Q
  /\ (forall i, (i < length ys)%nat -> Qltb (nthq ys i) a = (i <? m)%nat)
  /\ (cell_hi amid ys (m - 1) == b)%Q /\ (b < a)%Q /\ (a - credit_eps l a h < b)%Q.
Proof. exact credit_refined_boundary. Qed.

(* d = 1 on refined credit grids: the `bnd` of C19_rate_equals_theta_partial is a - eps / 2^(n+1): the summed rates of the 3 * 2^n states below
   the threshold are the mass of [l, b) = theta(b) of the truncated measure = theta(a) minus the mass of the slab [b, a) *)
Theorem C19_refined_gap_1d : forall (mass : Q -> Q -> Q),
  (forall a b c, (a <= b)%Q -> (b <= c)%Q -> ((c < 0)%Q \/ (0 < a)%Q) -> (mass a c == mass a b + mass b c)%Q) ->
  (forall a a' b b', (a == a')%Q -> (b == b')%Q -> (mass a b == mass a' b')%Q) ->
  forall l a h r sym xs o n, credit_axis l a h r sym = Some (xs, o) ->
  let ys := refine_axis_n amid (S n) xs in let b := (a - credit_eps l a h / pw2 (S n))%Q in
  (qsum (map (fun k => mass (cell_lo amid ys k) (cell_hi amid ys k)) (seq 0 (3 * 2 ^ n))) == mass l b)%Q
  /\ (qsum (map (fun k => mass (cell_lo amid ys k) (cell_hi amid ys k)) (seq 0 (3 * 2 ^ n))) == mass l a - mass b a)%Q.
Proof. exact rate_refined_credit_1d. Qed.

(* d = 2 on refined credit grids, any additive rectangle mass: C19_default_rate_2d_any_axes instantiated at refine^(n+1) of a pair of credit axes
   with mx = my = 3 * 2^n (C19_credit_refined_boundary supplies every hypothesis): the summed rates of the states below the thresholds (region
   defined on the state VALUES) are the mass of the region bounded by the cell boundaries b_i = a_i - eps_i / 2^(n+1) *)
Theorem C19_rate_equals_union_refined_2d : forall (mass2 : Q * Q -> Q * Q -> Q),
  (forall a1 b1 c1 y1 y2, (a1 <= b1)%Q -> (b1 <= c1)%Q -> avoids (a1, y1) (c1, y2) ->
     (mass2 (a1, y1) (c1, y2) == mass2 (a1, y1) (b1, y2) + mass2 (b1, y1) (c1, y2))%Q) ->
  (forall x1 x2 a2 b2 c2, (a2 <= b2)%Q -> (b2 <= c2)%Q -> avoids (x1, a2) (x2, c2) ->
     (mass2 (x1, a2) (x2, c2) == mass2 (x1, a2) (x2, b2) + mass2 (x1, b2) (x2, c2))%Q) ->
  (forall a1 a2 b1 b2 a1' a2' b1' b2', (a1 == a1')%Q -> (a2 == a2')%Q -> (b1 == b1')%Q -> (b2 == b2')%Q ->
     (mass2 (a1, a2) (b1, b2) == mass2 (a1', a2') (b1', b2'))%Q) ->
  forall l1 a1 r1 l2 a2 r2 h sym xs ys o1 o2 n,
  credit_axis l1 a1 h r1 sym = Some (xs, o1) -> credit_axis l2 a2 h r2 sym = Some (ys, o2) ->
  let xs' := refine_axis_n amid (S n) xs in let ys' := refine_axis_n amid (S n) ys in
  let b1 := (a1 - credit_eps l1 a1 h / pw2 (S n))%Q in let b2 := (a2 - credit_eps l2 a2 h / pw2 (S n))%Q in
  (default_rate2 amid mass2 xs' ys' (2 ^ S n * 4) a1 a2 == mass2 (l1, l2) (b1, r2) + mass2 (b1, l2) (r1, b2))%Q
  /\ (default_rate2 amid mass2 xs' ys' (2 ^ S n * 4) a1 a2 == mass2 (l1, l2) (b1, r2) + mass2 (l1, l2) (r1, b2) - mass2 (l1, l2) (b1, b2))%Q.
Proof. exact rate_equals_union_refined_2d. Qed.

(* d = 2 on refined credit grids, composed with the generated mass and the generated theta: the default-region rate EQUALS theta AT THE CELL
   BOUNDARIES (b1, b2), b_i < a_i -- this is what the implementation oracle of levels 1-2 compares, now a theorem and a Coq case group *)
Theorem C19_rate_equals_theta_refined_2d : forall (U1 : nat -> ext Q -> Q) (UI : idx -> list (ext Q) -> Q) l1 a1 r1 l2 a2 r2 h sym xs ys o1 o2 n,
  credit_axis l1 a1 h r1 sym = Some (xs, o1) -> credit_axis l2 a2 h r2 sym = Some (ys, o2) ->
  tails_proper2 U1 UI -> truncated2 U1 UI l1 r1 l2 r2 ->
  let xs' := refine_axis_n amid (S n) xs in let ys' := refine_axis_n amid (S n) ys in
  let b1 := (a1 - credit_eps l1 a1 h / pw2 (S n))%Q in let b2 := (a2 - credit_eps l2 a2 h / pw2 (S n))%Q in
  (default_rate2 amid (box_mass2 U1 UI) xs' ys' (2 ^ S n * 4) a1 a2 == th2 QNum U1 UI (Fin b1) (Fin b2))%Q /\ (b1 < a1)%Q /\ (b2 < a2)%Q.
Proof. exact rate_equals_theta_refined_2d. Qed.

(* the headline clause, d = 3, part 1: the 3-d chain of C01 (Model/Chain3d.v q_entry3: the rate of a state is the box mass of the product of
   its 1-d cells between arithmetic mid-points) on a triple of level-0 credit axes (C13's credit_axis), for ANY box mass that is additive
   under a split of any one coordinate on boxes avoiding the origin (C01's hypotheses; no positivity needed): the summed rates of the
   states with x_i < a1 or y_j < a2 or z_k < a3 equal the mass of the default region inside the truncation box -- as the disjoint sum
   {x < a1} + {x >= a1, y < a2} + {x >= a1, y >= a2, z < a3} and by inclusion-exclusion over the three half-spaces (7 terms) *)
Theorem C19_rate_equals_union_mass_3d : forall (mass3 : Q3 -> Q3 -> Q),
  (forall a b c y1 y2 z1 z2, (a <= b)%Q -> (b <= c)%Q -> avoids3 (a, y1, z1) (c, y2, z2) ->
     (mass3 (a, y1, z1) (c, y2, z2) == mass3 (a, y1, z1) (b, y2, z2) + mass3 (b, y1, z1) (c, y2, z2))%Q) ->
  (forall x1 x2 a b c z1 z2, (a <= b)%Q -> (b <= c)%Q -> avoids3 (x1, a, z1) (x2, c, z2) ->
     (mass3 (x1, a, z1) (x2, c, z2) == mass3 (x1, a, z1) (x2, b, z2) + mass3 (x1, b, z1) (x2, c, z2))%Q) ->
  (forall x1 x2 y1 y2 a b c, (a <= b)%Q -> (b <= c)%Q -> avoids3 (x1, y1, a) (x2, y2, c) ->
     (mass3 (x1, y1, a) (x2, y2, c) == mass3 (x1, y1, a) (x2, y2, b) + mass3 (x1, y1, b) (x2, y2, c))%Q) ->
  (forall a1 a2 a3 b1 b2 b3 a1' a2' a3' b1' b2' b3', (a1 == a1')%Q -> (a2 == a2')%Q -> (a3 == a3')%Q -> (b1 == b1')%Q -> (b2 == b2')%Q -> (b3 == b3')%Q ->
     (mass3 (a1, a2, a3) (b1, b2, b3) == mass3 (a1', a2', a3') (b1', b2', b3'))%Q) ->
  forall l1 a1 r1 l2 a2 r2 l3 a3 r3 h sym xs ys zs o1 o2 o3,
  credit_axis l1 a1 h r1 sym = Some (xs, o1) -> credit_axis l2 a2 h r2 sym = Some (ys, o2) -> credit_axis l3 a3 h r3 sym = Some (zs, o3) ->
  (default_rate3 amid mass3 xs ys zs 4 a1 a2 a3
     == mass3 (l1, l2, l3) (a1, r2, r3) + mass3 (a1, l2, l3) (r1, a2, r3) + mass3 (a1, a2, l3) (r1, r2, a3))%Q
  /\ (default_rate3 amid mass3 xs ys zs 4 a1 a2 a3
     == mass3 (l1, l2, l3) (a1, r2, r3) + mass3 (l1, l2, l3) (r1, a2, r3) + mass3 (l1, l2, l3) (r1, r2, a3)
        - mass3 (l1, l2, l3) (a1, a2, r3) - mass3 (l1, l2, l3) (a1, r2, a3) - mass3 (l1, l2, l3) (r1, a2, a3)
        + mass3 (l1, l2, l3) (a1, a2, a3))%Q.
Proof. exact rate_equals_union_credit_3d. Qed.

(* d = 3, any admissible triple of axes (refined credit grids, uniform grids): with the first mx / my / mz states of the axes in the default
   region (all <= origin index) the summed rates are the mass of the region bounded by the CELL boundaries b1, b2, b3 after those states; on
   refined credit grids b_i < a_i: the exact gap to theta is the mass of the slabs between b_i and a_i *)
Theorem C19_default_rate_3d_any_axes : forall (mid : Q -> Q -> Q) (mass3 : Q3 -> Q3 -> Q),
  (forall x y, (x < y)%Q -> (x < mid x y)%Q /\ (mid x y < y)%Q) -> (forall x, ~ (x == 0)%Q -> (mid x x == x)%Q) ->
  (forall x x' y y', (x == x')%Q -> (y == y')%Q -> (mid x y == mid x' y')%Q) ->
  (forall a b c y1 y2 z1 z2, (a <= b)%Q -> (b <= c)%Q -> avoids3 (a, y1, z1) (c, y2, z2) ->
     (mass3 (a, y1, z1) (c, y2, z2) == mass3 (a, y1, z1) (b, y2, z2) + mass3 (b, y1, z1) (c, y2, z2))%Q) ->
  (forall x1 x2 a b c z1 z2, (a <= b)%Q -> (b <= c)%Q -> avoids3 (x1, a, z1) (x2, c, z2) ->
     (mass3 (x1, a, z1) (x2, c, z2) == mass3 (x1, a, z1) (x2, b, z2) + mass3 (x1, b, z1) (x2, c, z2))%Q) ->
  (forall x1 x2 y1 y2 a b c, (a <= b)%Q -> (b <= c)%Q -> avoids3 (x1, y1, a) (x2, y2, c) ->
     (mass3 (x1, y1, a) (x2, y2, c) == mass3 (x1, y1, a) (x2, y2, b) + mass3 (x1, y1, b) (x2, y2, c))%Q) ->
  (forall a1 a2 a3 b1 b2 b3 a1' a2' a3' b1' b2' b3', (a1 == a1')%Q -> (a2 == a2')%Q -> (a3 == a3')%Q -> (b1 == b1')%Q -> (b2 == b2')%Q -> (b3 == b3')%Q ->
     (mass3 (a1, a2, a3) (b1, b2, b3) == mass3 (a1', a2', a3') (b1', b2', b3'))%Q) ->
  forall xs ys zs o hx hy hz mx my mz b1 b2 b3, admissible xs o hx -> admissible ys o hy -> admissible zs o hz ->
  (1 <= mx <= o)%nat -> (1 <= my <= o)%nat -> (1 <= mz <= o)%nat ->
  (cell_hi mid xs (mx - 1) == b1)%Q -> (cell_hi mid ys (my - 1) == b2)%Q -> (cell_hi mid zs (mz - 1) == b3)%Q ->
  let l1 := headq xs in let r1 := lastq xs in let l2 := headq ys in let r2 := lastq ys in let l3 := headq zs in let r3 := lastq zs in
  (default_rate3_idx mid mass3 xs ys zs o mx my mz
     == mass3 (l1, l2, l3) (b1, r2, r3) + mass3 (b1, l2, l3) (r1, b2, r3) + mass3 (b1, b2, l3) (r1, r2, b3))%Q
  /\ (default_rate3_idx mid mass3 xs ys zs o mx my mz
     == mass3 (l1, l2, l3) (b1, r2, r3) + mass3 (l1, l2, l3) (r1, b2, r3) + mass3 (l1, l2, l3) (r1, r2, b3)
        - mass3 (l1, l2, l3) (b1, b2, r3) - mass3 (l1, l2, l3) (b1, r2, b3) - mass3 (l1, l2, l3) (r1, b2, b3)
        + mass3 (l1, l2, l3) (b1, b2, b3))%Q.
Proof. intros mid mass3 H1 H2 H3 H4 H5 H6 H7 xs ys zs o hx hy hz mx my mz b1 b2 b3. apply default_rate3_idx_boxes; assumption. Qed.

(* the headline clause, d = 3, part 2 (composition): the rates are the GENERATED box mass of the chain's model (box_mass3 =
   LevyCopulaModel.mass fast path mass_3d of Gen/GenC12Mass.v on finite boxes, over Q -- its additivity per coordinate on boxes avoiding the
   origin is proved from the generated term, no hypothesis), theta is the GENERATED CFLevyCopulaModel._theta unrolled for d = 3 (th3) of the
   same tail integrals; these are the tail integrals of a measure truncated to the grid box (truncated3: marginal tails vanish at the
   truncation bounds, the pair and triple tail integrals vanish when an argument is a bound of its axis) and are functions of the rational
   number (tails_proper3).  Then the summed rates over the default region EQUAL theta. *)
Theorem C19_rate_equals_theta_3d : forall (U1 : nat -> ext Q -> Q) (UI : idx -> list (ext Q) -> Q) l1 a1 r1 l2 a2 r2 l3 a3 r3 h sym xs ys zs o1 o2 o3,
  credit_axis l1 a1 h r1 sym = Some (xs, o1) -> credit_axis l2 a2 h r2 sym = Some (ys, o2) -> credit_axis l3 a3 h r3 sym = Some (zs, o3) ->
  tails_proper3 U1 UI -> truncated3 U1 UI l1 r1 l2 r2 l3 r3 ->
  (default_rate3 amid (box_mass3 U1 UI) xs ys zs 4 a1 a2 a3 == th3 QNum U1 UI (Fin a1) (Fin a2) (Fin a3))%Q.
Proof. exact rate_equals_theta_credit_3d. Qed.

(* SCOPE of the hypotheses of the d = 2 / d = 3 headlines (audit 4, top-10 #10): they are discharged for step margins with the independent or
   the completely dependent copula and for nothing else.  For that class: tails_proper is a theorem, truncated follows from the vanishing of the
   marginal tails at the truncation bounds, which is the BOOLEAN step_truncated2b / step_truncated3b -- evaluated by the correspondence on every
   chain2d / chain3d / refined2d case -- and the headlines (level 0 for d = 2, 3; refined grids for d = 2) hold with no other hypothesis. *)
Theorem C19_rate_equals_theta_step_models : forall (c : copula_kind) (M : list (list (Q * Q * Q))),
  (forall l1 r1 l2 r2, step_truncated2b M l1 r1 l2 r2 = true ->
     (tails_proper2 (step_U1 M) (step_UI c M) /\ truncated2 (step_U1 M) (step_UI c M) l1 r1 l2 r2) /\
     forall a1 a2 h sym xs ys o1 o2, credit_axis l1 a1 h r1 sym = Some (xs, o1) -> credit_axis l2 a2 h r2 sym = Some (ys, o2) ->
       (default_rate2 amid (box_mass2 (step_U1 M) (step_UI c M)) xs ys 4 a1 a2 == th2 QNum (step_U1 M) (step_UI c M) (Fin a1) (Fin a2))%Q /\
       forall n, (default_rate2 amid (box_mass2 (step_U1 M) (step_UI c M)) (refine_axis_n amid (S n) xs) (refine_axis_n amid (S n) ys) (2 ^ S n * 4) a1 a2
                  == th2 QNum (step_U1 M) (step_UI c M) (Fin (a1 - credit_eps l1 a1 h / pw2 (S n))) (Fin (a2 - credit_eps l2 a2 h / pw2 (S n))))%Q) /\
  (forall l1 r1 l2 r2 l3 r3, step_truncated3b M l1 r1 l2 r2 l3 r3 = true ->
     (tails_proper3 (step_U1 M) (step_UI c M) /\ truncated3 (step_U1 M) (step_UI c M) l1 r1 l2 r2 l3 r3) /\
     forall a1 a2 a3 h sym xs ys zs o1 o2 o3,
       credit_axis l1 a1 h r1 sym = Some (xs, o1) -> credit_axis l2 a2 h r2 sym = Some (ys, o2) -> credit_axis l3 a3 h r3 sym = Some (zs, o3) ->
       (default_rate3 amid (box_mass3 (step_U1 M) (step_UI c M)) xs ys zs 4 a1 a2 a3 == th3 QNum (step_U1 M) (step_UI c M) (Fin a1) (Fin a2) (Fin a3))%Q).
Proof.
  intros c M. split.
  - intros l1 r1 l2 r2 B. split; [apply step_hypotheses2; exact B|]. intros a1 a2 h sym xs ys o1 o2 Hx Hy. split.
    + eapply rate_equals_theta_step_2d; eassumption.
    + intros n. eapply rate_equals_theta_step_refined_2d; eassumption.
  - intros l1 r1 l2 r2 l3 r3 B. split; [apply step_hypotheses3; exact B|]. intros a1 a2 a3 h sym xs ys zs o1 o2 o3 Hx Hy Hz.
    eapply rate_equals_theta_step_3d; eassumption.
Qed.

(* the implied-threshold objective composed with C19_monotone (d = 1): with the generated theta of real tails of a non-negative
   measure, cds_spread(a) - target is non-decreasing in the (negative) threshold *)
Theorem C19_threshold_objective_monotone : forall (U1 : nat -> ext R -> R) (target rec : R), rtails_ok U1 -> rec <= 1 ->
  forall a a' : R, a <= a' -> a' < 0 ->
  implied_threshold_fun R (fun x => th1 RNum U1 (Fin x)) target rec a <= implied_threshold_fun R (fun x => th1 RNum U1 (Fin x)) target rec a'.
Proof.
  intros U1 target rec Tok Hr a a' L N.
  apply (proj1 (implied_threshold_props R (fun x => th1 RNum U1 (Fin x)) (fun x y => x <= y /\ y < 0)
         (fun x y H => theta1_monotone U1 Tok (Fin x) (Fin y) (proj2 (Rleb_true x y) (proj1 H)) (proj2 (Rltb_true y 0) (proj2 H))) target rec Hr)).
  split; assumption.
Qed.

(* implied_cds_threshold hands brentq the bracket (-10, -h0).  A SHORT COROLLARY of C19_threshold_objective_monotone (6 lines; audit 4, B10): over
   the bracket the objective stays between its end values; hence a threshold in the bracket that reproduces the target forces the sign
   condition f(-10) f(-h0) <= 0 (brentq's precondition), and without a sign change NO threshold in the bracket reproduces the target
   (brentq's ValueError is then the right answer).  It does NOT establish a sign change, and a sign change alone gives no root: see
   C19_threshold_bracket_root (continuity hypothesis) and C19_threshold_bracket_needs_continuity (counterexample).  brentq itself is not modelled. *)
Theorem C19_threshold_bracket : forall (U1 : nat -> ext R -> R) (target rec h0 : R), rtails_ok U1 -> rec <= 1 -> 0 < h0 ->
  let f := implied_threshold_fun R (fun x => th1 RNum U1 (Fin x)) target rec in
  implied_threshold_fun_bracket h0 = (-10, - h0) /\
  (forall a, -10 <= a <= - h0 -> f (-10) <= f a <= f (- h0)) /\
  (forall a, -10 <= a <= - h0 -> f a = 0 -> f (-10) * f (- h0) <= 0) /\
  (0 < f (-10) * f (- h0) -> forall a, -10 <= a <= - h0 -> f a <> 0).
Proof. intros U1 target rec h0 Tok Hr Hh f. apply threshold_bracket; assumption. Qed.

(* the missing direction, under a continuity hypothesis (intermediate value theorem): if the marginal tail integral is continuous at every point
   of the bracket, brentq's sign test f(-10) f(-h0) <= 0 passes EXACTLY when some threshold of the bracket reproduces the target spread.  The
   hypothesis is discharged for the two-sided exponential measure (C19_threshold_nonvacuous); it fails for measures with atoms. *)
Theorem C19_threshold_bracket_root : forall (U1 : nat -> ext R -> R) (target rec h0 : R), rtails_ok U1 -> rec <= 1 -> 0 < h0 < 10 ->
  (forall a, -10 <= a <= - h0 -> continuity_pt (fun x => U1 0%nat (Fin x)) a) ->
  let f := implied_threshold_fun R (fun x => th1 RNum U1 (Fin x)) target rec in
  (f (-10) * f (- h0) <= 0 -> exists a, -10 <= a <= - h0 /\ f a = 0) /\
  (f (-10) * f (- h0) <= 0 <-> exists a, -10 <= a <= - h0 /\ f a = 0).
Proof.
  intros U1 target rec h0 Tok Hr Hh C f. split; [apply threshold_bracket_root; assumption|apply threshold_bracket_iff; assumption].
Qed.

(* continuity cannot be dropped: a unit atom at -1 satisfies rtails_ok; with target 1/2, recovery 0 and h0 = 1/20 the objective changes sign over
   the bracket and vanishes nowhere on it (brentq would return a point that does not reproduce the target) *)
Theorem C19_threshold_bracket_needs_continuity :
  let f := implied_threshold_fun R (fun x => th1 RNum atom_tail (Fin x)) (1 / 2) 0 in
  rtails_ok atom_tail /\ f (-10) * f (- (1 / 20)) < 0 /\ forall a, -10 <= a <= - (1 / 20) -> f a <> 0.
Proof. exact threshold_bracket_needs_continuity. Qed.

(* non-vacuity of rtails_ok and of the continuity hypothesis (C19_monotone, C19_threshold_objective_monotone, C19_threshold_bracket,
   C19_threshold_bracket_root): the two-sided exponential measure exp(-|x|) dx has theta(a) = exp(a), its tail integral is continuous at every
   negative threshold; the target spread (1 - 2/5) exp(-1) is reproduced by the threshold -1 inside the bracket (-10, -1/20) *)
Example C19_threshold_nonvacuous :
  rtails_ok exp_tail /\ (forall a, a < 0 -> th1 RNum exp_tail (Fin a) = exp a) /\
  (forall a, -10 <= a <= - (1 / 20) -> continuity_pt (fun x => exp_tail 0%nat (Fin x)) a) /\
  implied_threshold_fun R (fun x => th1 RNum exp_tail (Fin x)) ((1 - 2 / 5) * exp (-1)) (2 / 5) (-1) = 0 /\ -10 <= -1 <= - (1 / 20).
Proof.
  split; [exact exp_tail_ok|]. split; [exact exp_tail_theta|]. split; [intros a Ha; apply exp_tail_continuous; lra|]. split; [|lra].
  unfold implied_threshold_fun, cds_spread. rewrite exp_tail_theta by lra. lra.
Qed.

(* non-vacuity: the Q instance of the generated theta evaluates on a dyadic step model (independent copula): the union
   mass is the sum of the two marginal masses below the thresholds *)
Open Scope Q_scope.
Definition C19_example_margins : list (list (Q * Q * Q)) :=
  [[(-2, -(1#2), 3#4); ((1#2), 2, 3#2)]; [(-1, -(1#4), 3#1); ((1#4), 1, 3#4)]].
Example C19_nonvacuous :
  Qeq_bool (th2 QNum (step_U1 C19_example_margins) (step_UI Indep C19_example_margins) (Fin (-1)) (Fin (-(1#2)))) ((3#4) + (3#2)) = true
  /\ Qeq_bool (th2 QNum (step_U1 C19_example_margins) (step_UI Dep C19_example_margins) (Fin (-1)) (Fin (-(1#2)))) (3#2) = true.
Proof. vm_compute. repeat split. Qed.

(* non-vacuity of the d = 2 headline: step margins on [-2,2] and [-1,1] with the completely dependent copula satisfy BOTH hypotheses
   (tails_proper2 by theorem for every pair of step margins, truncated2 from the four vanishing marginal tails), the symmetric credit
   axes exist, and the common value of the summed rates (81 states, 81 - 49 = 32 of them in the default region) and of the generated theta is 3/2;
   the Lebesgue rectangle mass satisfies the hypotheses of the abstract theorem (it is additive everywhere) *)
Example C19_rate_2d_nonvacuous :
  let U1 := step_U1 ex2_margins in let UI := step_UI Dep ex2_margins in
  (tails_proper2 U1 UI /\ truncated2 U1 UI (-2) 2 (-1) 1) /\
  (exists xs ys, credit_axis (-2) (-1) (1#4) 2 true = Some (xs, 4%nat) /\ credit_axis (-1) (-(1#2)) (1#4) 1 true = Some (ys, 4%nat) /\
     length xs = 9%nat /\ length ys = 9%nat /\
     Qeq_bool (default_rate2 amid (box_mass2 U1 UI) xs ys 4 (-1) (-(1#2))) (3#2) = true /\
     Qeq_bool (th2 QNum U1 UI (Fin (-1)) (Fin (-(1#2)))) (3#2) = true /\
     Qeq_bool (default_rate2 amid (fun a b => (fst b - fst a) * (snd b - snd a)) xs ys 4 (-1) (-(1#2))) (1 * 2 + 3 * (1#2)) = true).
Proof.
  cbv zeta. split; [exact ex2_hypotheses|]. eexists. eexists. split; [vm_compute; reflexivity|]. split; [vm_compute; reflexivity|].
  vm_compute. repeat split.
Qed.

(* non-vacuity of the d = 3 headline: three step margins on [-2,2], [-1,1], [-3/2,3/2] with the completely dependent copula satisfy BOTH
   hypotheses (tails_proper3 / truncated3 are theorems for every triple of step margins with either copula, given the six vanishing
   marginal tails), the three symmetric credit axes exist (9 points each: 729 states, 386 of them in the default region), and the common
   value of the summed rates and of the generated theta is 3/2; the Lebesgue box volume satisfies the hypotheses of the abstract theorem *)
Example C19_rate_3d_nonvacuous :
  let U1 := step_U1 ex3_margins in let UI := step_UI Dep ex3_margins in
  (tails_proper3 U1 UI /\ truncated3 U1 UI (-2) 2 (-1) 1 (-(3#2)) (3#2)) /\
  (exists xs ys zs, credit_axis (-2) (-1) (1#4) 2 true = Some (xs, 4%nat) /\ credit_axis (-1) (-(1#2)) (1#4) 1 true = Some (ys, 4%nat) /\
     credit_axis (-(3#2)) (-(3#4)) (1#4) (3#2) true = Some (zs, 4%nat) /\ length xs = 9%nat /\ length ys = 9%nat /\ length zs = 9%nat /\
     Qeq_bool (default_rate3 amid (box_mass3 U1 UI) xs ys zs 4 (-1) (-(1#2)) (-(3#4))) (3#2) = true /\
     Qeq_bool (th3 QNum U1 UI (Fin (-1)) (Fin (-(1#2))) (Fin (-(3#4)))) (3#2) = true /\
     Qeq_bool (default_rate3 amid (fun a b => (p1 b - p1 a) * (p2 b - p2 a) * (p3 b - p3 a)) xs ys zs 4 (-1) (-(1#2)) (-(3#4)))
              (1 * 2 * 3 + 3 * (1#2) * 3 + 3 * (3#2) * (3#4)) = true).
Proof.
  cbv zeta. split; [exact ex3_hypotheses|]. eexists. eexists. eexists. split; [vm_compute; reflexivity|]. split; [vm_compute; reflexivity|].
  split; [vm_compute; reflexivity|]. vm_compute. repeat split.
Qed.

(* non-vacuity of the refined-grid theorems: the same model on refine^1 and refine^2 of the credit axes (17 and 33 points per axis): the decidable
   hypothesis holds, the rate defined on the state values, the rate defined on the indices (3 * 2^n default states per axis) and the generated theta
   at the cell boundaries a_i - eps_i / 2^(n+1) (eps = 3/8, 1/8) coincide: 21/16 (level 1), 45/32 (level 2) -- below the level-0 value 3/2 *)
Example C19_rate_2d_refined_nonvacuous :
  let U1 := step_U1 ex2_margins in let UI := step_UI Dep ex2_margins in
  let xs := credit_values (-2) (-1) (1#4) 2 true in let ys := credit_values (-1) (-(1#2)) (1#4) 1 true in
  step_truncated2b ex2_margins (-2) 2 (-1) 1 = true /\
  credit_axis (-2) (-1) (1#4) 2 true = Some (xs, 4%nat) /\ credit_axis (-1) (-(1#2)) (1#4) 1 true = Some (ys, 4%nat) /\
  Qeq_bool (credit_eps (-2) (-1) (1#4)) (3#8) = true /\ Qeq_bool (credit_eps (-1) (-(1#2)) (1#4)) (1#8) = true /\
  Qeq_bool (default_rate2 amid (box_mass2 U1 UI) (refine_axis_n amid 1 xs) (refine_axis_n amid 1 ys) 8 (-1) (-(1#2))) (21#16) = true /\
  Qeq_bool (default_rate2_idx amid (box_mass2 U1 UI) (refine_axis_n amid 1 xs) (refine_axis_n amid 1 ys) 8 3 3) (21#16) = true /\
  Qeq_bool (th2 QNum U1 UI (Fin (-1 - (3#8) / pw2 1)) (Fin (-(1#2) - (1#8) / pw2 1))) (21#16) = true /\
  Qeq_bool (default_rate2 amid (box_mass2 U1 UI) (refine_axis_n amid 2 xs) (refine_axis_n amid 2 ys) 16 (-1) (-(1#2))) (45#32) = true /\
  Qeq_bool (default_rate2_idx amid (box_mass2 U1 UI) (refine_axis_n amid 2 xs) (refine_axis_n amid 2 ys) 16 6 6) (45#32) = true /\
  Qeq_bool (th2 QNum U1 UI (Fin (-1 - (3#8) / pw2 2)) (Fin (-(1#2) - (1#8) / pw2 2))) (45#32) = true.
Proof. vm_compute. repeat split. Qed.

Print Assumptions C19_theta_is_union_mass.
Print Assumptions C19_monotone.
Print Assumptions C19_monotone_modelled.
Print Assumptions C19_spread_maps.
Print Assumptions C19_implied_quantities.
Print Assumptions C19_rate_equals_theta_partial.
Print Assumptions C19_rate_equals_theta_credit_1d.
Print Assumptions C19_rate_equals_union_mass_2d.
Print Assumptions C19_default_rate_2d_any_axes.
Print Assumptions C19_rate_equals_theta_2d.
Print Assumptions C19_credit_refined_boundary.
Print Assumptions C19_refined_gap_1d.
Print Assumptions C19_rate_equals_union_refined_2d.
Print Assumptions C19_rate_equals_theta_refined_2d.
Print Assumptions C19_rate_equals_union_mass_3d.
Print Assumptions C19_default_rate_3d_any_axes.
Print Assumptions C19_rate_equals_theta_3d.
Print Assumptions C19_rate_equals_theta_step_models.
Print Assumptions C19_threshold_objective_monotone.
Print Assumptions C19_threshold_bracket.
Print Assumptions C19_threshold_bracket_root.
Print Assumptions C19_threshold_bracket_needs_continuity.
Print Assumptions C19_threshold_nonvacuous.
Print Assumptions C19_nonvacuous.
Print Assumptions C19_rate_2d_nonvacuous.
Print Assumptions C19_rate_3d_nonvacuous.
Print Assumptions C19_rate_2d_refined_nonvacuous.

"""C01 (wave 5): d-dimensional density tables and their Levy copula -- the 3-d extension of stepmeasure.Table2.

TableN(pieces, dim): Levy measure on R^dim with piecewise-constant dyadic density; a piece is
(lo_1, hi_1, ..., lo_dim, hi_dim, density) and lies inside one closed orthant.  Its margins are step measures
(stepmeasure.StepMeasure); `copula()` is the Levy copula of this very measure (Kallsen-Tankov:
F(u_1..u_d) = sgn * nu(prod_k I_k) with I_k = [U_k^{-1}(u_k), +oo) or (-oo, U_k^{-1}(u_k)]), evaluated in exact rational
arithmetic; u_k = +-inf selects the whole half-line (what rpylib's `margin()` feeds for the I-margins of the copula).
With a grid whose end points cover the support, LevyCopulaModel.mass of any box not containing the origin is the integral
of the density over the box and every float operation (inclusion-exclusion over the 2^d corners, the axis-straddling
corrections of _mass_2d / _mass_3d) is exact on dyadic data with few bits.
"""
from __future__ import annotations

import math
from fractions import Fraction

from stepmeasure import StepMeasure, StepModel


class TableN:
    def __init__(self, pieces, dim: int = 3):
        self.dim = dim
        self.pieces = [tuple(Fraction(v) for v in p) for p in pieces]
        for p in self.pieces:
            assert len(p) == 2 * dim + 1 and p[-1] >= 0
            for k in range(dim):
                lo, hi = p[2 * k], p[2 * k + 1]
                assert lo < hi and (lo >= 0 or hi <= 0), "a piece must lie in one closed orthant"

    def mass_q(self, a, b) -> Fraction:
        """integral of the density over the box [a, b] (Fractions)"""
        tot = Fraction(0)
        for p in self.pieces:
            vol = p[-1]
            for k in range(self.dim):
                l, h = max(Fraction(a[k]), p[2 * k]), min(Fraction(b[k]), p[2 * k + 1])
                if l >= h:
                    vol = None
                    break
                vol *= h - l
            if vol is not None:
                tot += vol
        return tot

    def margin(self, k: int, strict: bool = True) -> StepMeasure:
        cuts = sorted({p[2 * k] for p in self.pieces} | {p[2 * k + 1] for p in self.pieces})
        dens = []
        for lo, hi in zip(cuts, cuts[1:]):
            d = Fraction(0)
            for p in self.pieces:
                if p[2 * k] <= lo and hi <= p[2 * k + 1]:
                    w = p[-1]
                    for m in range(self.dim):
                        if m != k:
                            w *= p[2 * m + 1] - p[2 * m]
                    d += w
            dens.append(d)
        return StepMeasure(cuts, dens, finite_variation=True, strict=strict)

    def support_bound(self) -> Fraction:
        return max(max(abs(v) for v in p[:-1]) for p in self.pieces)

    def coq(self) -> str:
        from common import qlit, lst
        return lst(["(" + ", ".join(qlit(v) for v in p) + ")" for p in self.pieces])

    def copula(self):
        return TableCopulaN(self)


class TableCopulaN:
    """duck-typed LevyCopula: LevyCopulaModel only calls it (directly and through levycopulamodel.margin)"""

    def __init__(self, table: TableN):
        self.table = table
        self.margins = [table.margin(k, strict=False) for k in range(table.dim)]
        self.big = table.support_bound() + 1

    def __repr__(self):
        return f"TableCopulaN(dim={self.table.dim})"

    def _inverse(self, k: int, u: Fraction):
        """(x, positive_side) with signed tail integral U_k(x) = u (x = 0 when |u| exceeds the half-line mass)"""
        nu = self.margins[k]
        if u > 0:
            rest = u
            for lo, hi, d in reversed(nu.pieces()):
                if hi <= 0:
                    break
                lo = max(lo, Fraction(0))
                m = d * (hi - lo)
                if m >= rest and d > 0:
                    return hi - rest / d, True
                rest -= m
            return Fraction(0), True
        rest = -u
        for lo, hi, d in nu.pieces():
            if lo >= 0:
                break
            hi = min(hi, Fraction(0))
            m = d * (hi - lo)
            if m >= rest and d > 0:
                return lo + rest / d, False
            rest -= m
        return Fraction(0), False

    def __call__(self, us) -> float:
        us = [float(v) for v in us]
        assert len(us) == self.table.dim
        if any(v == 0 for v in us):
            return 0.0
        pts = []
        for k, v in enumerate(us):
            if v == math.inf:
                pts.append((Fraction(0), True))
            elif v == -math.inf:
                pts.append((Fraction(0), False))
            else:
                pts.append(self._inverse(k, Fraction(v)))
        a = [x if pos else -self.big for x, pos in pts]
        b = [self.big if pos else x for x, pos in pts]
        sgn = 1
        for _, pos in pts:
            sgn *= 1 if pos else -1
        return float(sgn * self.table.mass_q(a, b))


def table_copula_model_nd(table: TableN, strict: bool = True):
    from rpylib.model.levycopulamodel import LevyCopulaModel
    margins = [table.margin(k, strict=strict) for k in range(table.dim)]
    models = [StepModel(m, a=0.0, sigma=0.0) for m in margins]
    return LevyCopulaModel(models, table.copula())


# a fixed table with mass in five octants, on and off the coordinate planes' neighbourhoods
WITNESS_TABLE3 = [
    (Fraction(1, 4), Fraction(1), Fraction(1, 4), Fraction(3, 2), Fraction(0), Fraction(1), 4),
    (Fraction(-2), Fraction(-1, 2), Fraction(0), Fraction(1, 2), Fraction(1, 2), Fraction(2), 3),
    (Fraction(-1), Fraction(0), Fraction(-3, 2), Fraction(-1, 4), Fraction(-1), Fraction(0), 6),
    (Fraction(0), Fraction(2), Fraction(-1, 2), Fraction(0), Fraction(-2), Fraction(-1), 2),
    (Fraction(1, 2), Fraction(3, 2), Fraction(1), Fraction(2), Fraction(-1, 4), Fraction(0), 8),
]


def random_table3(rng, bound: int = 2, dim: int = 3) -> TableN:
    """2-5 dyadic pieces, each inside one closed orthant of [-bound, bound]^dim (end points multiples of 1/4),
    densities k/m with k in {2,3,4,6,8,12}, m in {1,2,4}"""
    pieces = []
    for _ in range(rng.randrange(2, 6)):
        p = []
        for _k in range(dim):
            s = rng.choice([-1, 1])
            a, b = sorted(rng.sample(range(0, 4 * bound + 1), 2))
            p += [Fraction(a, 4), Fraction(b, 4)] if s > 0 else [Fraction(-b, 4), Fraction(-a, 4)]
        p.append(Fraction(rng.choice([2, 3, 4, 6, 8, 12]), rng.choice([1, 2, 4])))
        pieces.append(tuple(p))
    return TableN(pieces, dim)


# every axis is admissible in the sense of Model/Grid.v: strictly increasing, -h and +h next to the origin (h may differ per axis)
AXES5 = [[-2.0, -1.0, 0.0, 1.0, 2.0], [-2.0, -0.5, 0.0, 0.5, 2.0], [-2.0, -0.25, 0.0, 0.25, 2.0], [-2.0, -1.5, 0.0, 1.5, 2.0]]
AXES7 = [[-2.0, -1.0, -0.5, 0.0, 0.5, 1.5, 2.0], [-2.0, -1.5, -0.25, 0.0, 0.25, 1.0, 2.0], [-2.0, -1.25, -0.75, 0.0, 0.75, 1.0, 2.0]]

"""C01 wave 7 (audit 4: A4, X-d / D3, D5): helpers of props/C01.py.

* spy_rates: the n-d inversion sampler's OWN calls -- for every non-origin state the (a, b) the closure
  create_sampling_inversion_method.probability_to_jump_to_state hands to model.mass, the value model.mass returns and the probability the
  closure returns (or the IndexError it raises).  Nothing is recomputed by the harness: chain.model.mass is wrapped by a recorder.
* nd_case: the Coq literal of one chain from the spied data (rates, probabilities, per-axis cell bounds as the sampler used them).
* uneq_group: axes of UNEQUAL lengths (public CTMCGrid; no library constructor builds them): the code's clamp len(axes[0]) of
  spatial.py:93 against Model/ChainNdClamp.v -- behaviour pinned, not a violation of C01 (outside its quantifier).
* trunc_group: copula chains whose margins have mass OUTSIDE the grid (truncation active), the library's own Dependent / Independent
  components copulas on dyadic step margins: rates against Proofs/C01_CopulaTrunc.v chain_mass2/3 (copula of the truncated margins) and, oracle,
  against the model's own Levy measure nu of the cell (finding F-C01-1 when they differ).
"""
from __future__ import annotations

import itertools
import json
import warnings
from fractions import Fraction as Fr

import numpy as np

from common import qlit, natlit, lst

COQ_DEFS = r"""
Definition oqo_eqb (m o : option Q) : bool := match o with Some v => match m with Some w => Qeq_bool w v | None => false end | None => true end.
Fixpoint all2 {A B : Type} (f : A -> B -> bool) (a : list A) (b : list B) : bool :=
  match a, b with nil, nil => true | cons x a', cons y b' => f x y && all2 f a' b' | _, _ => false end.
Definition pclose (lam : Q) (r p : option Q) : bool :=
  match r, p with
  | Some rate, Some pr => Qle_bool (Qabs (pr * lam - Qmaxb rate 0)) (Qabs rate * (1 # 4503599627370496))
  | None, None => true | _, _ => false end.
Definition oval (x : option Q) : Q := match x with Some v => v | None => 0 end.
(* per-axis cell bounds as the sampler used them: lower bounds (None = not observable: every state with this index raised), upper bounds
   (None = the code raised IndexError there) against cell_lo / the code's clamp cell_hi_c *)
Definition cells_ok (n0 : nat) (xs : list Q) (c : list (option Q) * list (option Q)) : bool :=
  all2 oqo_eqb (map (fun k => Some (cell_lo amid xs k)) (seq 0 (length xs))) (fst c)
  && all2 oq_eqb (map (cell_hi_c amid n0 xs) (seq 0 (length xs))) (snd c).
Definition entries2 (mass : Q * Q -> Q * Q -> Q) xs ys o : list (list (option Q)) :=
  map (fun i => map (q_entry2_c amid mass xs ys o i) (seq 0 (length ys))) (seq 0 (length xs)).
Definition entries3 (mass : Q3 -> Q3 -> Q) xs ys zs o : list (list (list (option Q))) :=
  map (fun i => map (fun j => map (q_entry3_c amid mass xs ys zs o i j) (seq 0 (length zs))) (seq 0 (length ys))) (seq 0 (length xs)).
Definition osum2 (t : list (list (option Q))) : Q := qsum (map (fun r => qsum (map oval r)) t).
Definition osum3 (t : list (list (list (option Q)))) : Q := qsum (map osum2 t).
Definition is_some_all2 (t : list (list (option Q))) : bool := forallb (forallb (fun x => match x with Some _ => true | None => false end)) t.
Definition case2 : Type := (list Q * list Q * nat * Q) * (list (list (option Q)) * list (list (option Q)))
   * ((list (option Q) * list (option Q)) * (list (option Q) * list (option Q))) * (bool * bool).
(* axes admissible; intensity; EVERY entry of the code-clamp rate matrix (None <-> IndexError) = what model.mass returned to the sampler;
   sampler probability = fl(max(rate,0)/intensity); the sampler's cells; (sum of the rates = intensity) and (no state raises) AS OBSERVED *)
Definition chain2_chk (mass : Q * Q -> Q * Q -> Q) (c : case2) : bool :=
  match c with ((xs, ys, o, lam), (T, P), (cx, cy), (sum_eq, total)) =>
    admissibleb xs o (nthq xs (o + 1)) && admissibleb ys o (nthq ys (o + 1))
    && Qeq_bool (intensity2 amid mass xs ys o) lam
    && all2 (all2 oq_eqb) (entries2 mass xs ys o) T && all2 (all2 (pclose lam)) T P
    && cells_ok (length xs) xs cx && cells_ok (length xs) ys cy
    && Bool.eqb (Qeq_bool (osum2 (entries2 mass xs ys o)) (intensity2 amid mass xs ys o)) sum_eq
    && Bool.eqb (match q_matrix2_c amid mass xs ys o with Some _ => true | None => false end) total end.
Definition case3 : Type := (list Q * list Q * list Q * nat * Q) * (list (list (list (option Q))) * list (list (list (option Q))))
   * ((list (option Q) * list (option Q)) * (list (option Q) * list (option Q)) * (list (option Q) * list (option Q))) * (bool * bool).
Definition chain3_chk (mass : Q3 -> Q3 -> Q) (c : case3) : bool :=
  match c with ((xs, ys, zs, o, lam), (T, P), (cx, cy, cz), (sum_eq, total)) =>
    admissibleb xs o (nthq xs (o + 1)) && admissibleb ys o (nthq ys (o + 1)) && admissibleb zs o (nthq zs (o + 1))
    && Qeq_bool (intensity3 amid mass xs ys zs o) lam
    && all2 (all2 (all2 oq_eqb)) (entries3 mass xs ys zs o) T && all2 (all2 (all2 (pclose lam))) T P
    && cells_ok (length xs) xs cx && cells_ok (length xs) ys cy && cells_ok (length xs) zs cz
    && Bool.eqb (Qeq_bool (osum3 (entries3 mass xs ys zs o)) (intensity3 amid mass xs ys zs o)) sum_eq
    && Bool.eqb (match q_tensor3_c amid mass xs ys zs o with Some _ => true | None => false end) total end.
"""

TY2 = "case2"
TY3 = "case3"


def olit(x):
    return "None" if x is None else f"(Some {qlit(x)})"


def spy_rates(chain, grid, dim):
    """{state index tuple: (a, b, value, probability)} or {...: 'IndexError'}: the sampler's own model.mass call per state"""
    calls = []
    orig = chain.model.mass

    def spy(*args, **kw):
        v = orig(*args, **kw)
        calls.append((args, kw, v))
        return v
    chain.model.mass = spy           # instance attribute: the closure looks `model.mass` up at call time
    try:
        o = grid.origin_coordinate.value[0]
        prob = chain.sampling.probability_to_jump_to_state
        out = {}
        for idx in itertools.product(*[range(len(a)) for a in grid.axes]):
            if idx == (o,) * dim:
                continue
            calls.clear()
            try:
                pk = prob(tuple(i - o for i in idx))
            except IndexError:
                out[idx] = "IndexError"
                continue
            if len(calls) != 1:
                out[idx] = ("calls", len(calls))
                continue
            args, kw, v = calls[0]
            a = kw["a"] if "a" in kw else args[0]
            rest = args if "a" in kw else args[1:]
            b = kw["b"] if "b" in kw else rest[0]
            out[idx] = (tuple(float(x) for x in a), tuple(float(x) for x in b), float(v), float(pk))
    finally:
        del chain.model.mass
    return out


def nd_case(spied, axs, o, lam, viol, ctx):
    """(literal of type case2 / case3, rates dict) or None after reporting a structural violation"""
    dim = len(axs)
    for idx, e in spied.items():
        if isinstance(e, tuple) and e[0] == "calls":
            viol(f"copula chain (d={dim}): probability_to_jump_to_state called model.mass {e[1]} times for one state", state=list(idx), **ctx)
            return None
    los = [[None] * len(a) for a in axs]
    his = [[None] * len(a) for a in axs]
    seen_hi = [[False] * len(a) for a in axs]
    for idx, e in spied.items():
        if e == "IndexError":
            continue
        a, b, v, pk = e
        for d, k in enumerate(idx):
            if los[d][k] is None:
                los[d][k] = a[d]
            if not seen_hi[d][k]:
                his[d][k], seen_hi[d][k] = b[d], True
            if los[d][k] != a[d] or his[d][k] != b[d]:
                viol(f"copula chain (d={dim}): the cell the sampler integrates is not a product of per-axis intervals", state=list(idx),
                     cell=[list(a), list(b)], **ctx)
                return None

    def nest(f, prefix=()):
        d = len(prefix)
        if d == dim:
            return f(prefix)
        return lst([nest(f, prefix + (k,)) for k in range(len(axs[d]))])

    def rate(idx):
        if idx == (o,) * dim:
            return "(Some 0)"
        e = spied[idx]
        return "None" if e == "IndexError" else olit(e[2])

    def pr(idx):
        if idx == (o,) * dim:
            return "(Some 0)"
        e = spied[idx]
        return "None" if e == "IndexError" else olit(e[3])
    ok = [e for e in spied.values() if e != "IndexError"]
    total = len(ok) == len(spied)
    sum_eq = sum(Fr(e[2]) for e in ok) == Fr(float(lam))
    cells = ", ".join(f"({lst([olit(x) for x in los[d]])}, {lst([olit(x) for x in his[d]])})" for d in range(dim))
    lit = (f"(({', '.join(lst([qlit(x) for x in a]) for a in axs)}, {natlit(o)}, {qlit(float(lam))}), ({nest(rate)}, {nest(pr)}), ({cells}), "
           f"({'true' if sum_eq else 'false'}, {'true' if total else 'false'}))")
    return lit, sum_eq, total


# ------------------------------------------------------------------------------------------------ unequal lengths (X-d / D3)
def uneq_group(res, rng, viol, n_tables):
    """3-d density-table chains on the PUBLIC CTMCGrid(h, origin, axes) with axes of unequal lengths: what the code does (clamp with
    len(axes[0])) is compared state by state with Model/ChainNdClamp.v: rates, IndexErrors, sum of the rates vs the reported intensity.
    The collapsed cells of a long axis can be REVERSED intervals (a_k > b_k): LevyCopulaModel.mass then returns MINUS the mass of the interval
    (observed, e.g. -1/128) -- step_mass3s, the signed variant of the table integral -- and the sampler's max(state_mass, 0) makes it 0."""
    from rpylib.process.markovchain.markovchainlevycopula import MarkovChainLevyCopula
    from rpylib.distribution.sampling import SamplingMethod
    from rpylib.grid.spatial import CTMCGrid
    from c01_table3 import TableN, random_table3, table_copula_model_nd, AXES5
    x5, y7, z5 = [-2.0, -1.0, 0.0, 1.0, 2.0], [-2.0, -1.0, 0.0, 1.0, 2.0, 2.5, 3.0], [-2.0, -0.5, 0.0, 0.5, 2.0]
    long7 = [y7, [-2.0, -0.5, 0.0, 0.5, 1.0, 1.5, 2.0], [-2.0, -1.5, 0.0, 1.5, 1.75, 2.0, 4.0]]
    cases = []
    # every table is supported inside [-2, 2]^3 resp. (witness 0) inside the box of its layout: truncation INACTIVE, so that the table's own
    # integral (step_mass3) is the chain's mass and only the clamp is under test
    tables = [TableN([(1, 2, Fr(1, 2), Fr(5, 2), 1, 2, 1)], 3), TableN([(1, 2, Fr(1, 2), 2, 1, 2, 1)], 3)] + \
             [random_table3(rng, 2, 3) for _ in range(n_tables)]
    for t_i, table in enumerate(tables):
        if t_i == 0:
            layouts = [[x5, y7, z5]]               # the witness uneq_575 of Proofs/C01_NdClamp.v
        elif t_i == 1:
            layouts = [[y7, x5, z5]]               # the witness uneq_755
        else:
            lo = rng.choice(long7)
            sh = [list(a) for a in rng.sample(AXES5, 2)]
            layouts = [rng.choice([[sh[0], lo, sh[1]], [sh[0], sh[1], lo], [lo, sh[0], sh[1]], [sh[0], lo, list(rng.choice(long7))]])]
        for axes in layouts:
            ctx = dict(kind="table-chain3d-uneq", table=[[str(v) for v in p] for p in table.pieces], axes=axes, o=2)
            try:
                with warnings.catch_warnings():
                    warnings.simplefilter("ignore")
                    grid = CTMCGrid(h=axes[0][3], origin_coordinate=2, axes=[np.array(a) for a in axes])
                    chain = MarkovChainLevyCopula(levy_copula_model=table_copula_model_nd(table, strict=False), grid=grid,
                                                  method=SamplingMethod.INVERSION)
                    lam = float(chain.intensity_of_jumps)
                    spied = spy_rates(chain, grid, 3)
            except Exception as e:  # noqa
                res.bump("chain3d_uneq", f"constructor raises {type(e).__name__}")
                continue
            got = nd_case(spied, axes, 2, lam, viol, ctx)
            if got is None:
                continue
            lit, sum_eq, total = got
            res.count(("chain3d_uneq", json.dumps(ctx["table"]), json.dumps(axes)), kind="3-d chain, axes of unequal lengths (code's clamp pinned)")
            res.bump("chain3d_uneq", f"lengths {tuple(len(a) for a in axes)}: " + ("some states raise IndexError" if not total else
                     "sum of rates == intensity" if sum_eq else "sum of rates != intensity"))
            cases.append(f"({table.coq()}, {lit})")
    return ("chain3d_uneq", f"list (Q * Q * Q * Q * Q * Q * Q) * {TY3}",
            "fun c => forallb (fun p => Qle_bool 0 (dens3 p)) (fst c) && chain3_chk (step_mass3s (fst c)) (snd c)", cases, 2)


# ------------------------------------------------------------------------------------------------ truncation active (A4 / D5)
FINDING = "F-C01-1"
FINDING_WHAT = ("copula chain with truncation active: the rate of a cell INSIDE the grid box is the mass under the copula applied to the "
                "TRUNCATED margins (model_tilde), not the model's Levy-measure mass nu(cell) of that cell")


def _tails(nu, lo_lim, hi_lim):
    """(U+, U-): x >= 0 -> nu((x, hi_lim]),  x <= 0 -> nu([lo_lim, x)) in Fractions"""
    lo_lim, hi_lim = Fr(lo_lim), Fr(hi_lim)

    def up(x):
        x = max(Fr(x), Fr(0))
        return nu.moment_q(x, hi_lim, 0) if x < hi_lim else Fr(0)

    def um(x):
        x = min(Fr(x), Fr(0))
        return nu.moment_q(lo_lim, x, 0) if lo_lim < x else Fr(0)
    return up, um


def indep_mass(nus, lims, a, b):
    """independent components: nu lives on the axes"""
    tot = Fr(0)
    for k, nu in enumerate(nus):
        if a[k] <= 0 <= b[k]:
            continue
        if all(a[j] <= 0 <= b[j] for j in range(len(nus)) if j != k):
            l, h = max(Fr(a[k]), Fr(lims[k][0])), min(Fr(b[k]), Fr(lims[k][1]))
            if l < h:
                tot += nu.moment_q(l, h, 0)
    return tot


def dep_mass(nus, lims, a, b):
    """complete dependence: nu is the image of Lebesgue measure on u > 0 (and u < 0) under u -> (U_k^{-1}(u))_k, U_k^{-1}(u) = 0 beyond
    the half-line mass; mass of a box avoiding the origin = length of the set of u whose every coordinate falls into its interval"""
    tot = Fr(0)
    for side in (+1, -1):
        lo_u, hi_u = Fr(0), None
        empty = False
        for k, nu in enumerate(nus):
            up, um = _tails(nu, *lims[k])
            ak, bk = Fr(a[k]), Fr(b[k])
            if side < 0:
                ak, bk = -bk, -ak
                U = lambda x, um=um: um(-x)
            else:
                U = up
            if bk < 0:
                empty = True
                break
            if ak > 0:
                lo_u = max(lo_u, U(bk))
                hi_u = U(ak) if hi_u is None else min(hi_u, U(ak))
            else:
                lo_u = max(lo_u, U(bk))
        if not empty and hi_u is not None and hi_u > lo_u:
            tot += hi_u - lo_u
    return tot


def _trunc_build(margins, cop, axes, refine):
    from rpylib.process.markovchain.markovchainlevycopula import MarkovChainLevyCopula
    from rpylib.distribution.sampling import SamplingMethod
    from rpylib.grid.spatial import CTMCGrid
    from rpylib.model.levycopulamodel import LevyCopulaModel
    from rpylib.distribution.levycopula import DependentComponentsCopula, IndependentComponentsCopula
    import copula_models as CM
    dim = len(margins)
    full = LevyCopulaModel([CM.make_margin(m) for m in margins], (DependentComponentsCopula if cop == "dep" else IndependentComponentsCopula)())
    o = axes[0].index(0.0)
    grid = CTMCGrid(h=axes[0][o + 1], origin_coordinate=o, axes=[np.array(a) for a in axes])
    for _ in range(refine):
        grid.refine()
    chain = MarkovChainLevyCopula(levy_copula_model=full, grid=grid, method=SamplingMethod.INVERSION)
    return full, grid, chain


def trunc_evaluate(margins, cop, axes, refine):
    """run the real chain; returns dict(lam, spied, axs, o, bad_T (rate != copula-of-truncated-margins mass), diff_R (rate != nu(cell)),
    active (some margin has mass outside its axis), sum_ok, negative)"""
    import copula_models as CM
    with warnings.catch_warnings():
        warnings.simplefilter("ignore")
        full, grid, chain = _trunc_build(margins, cop, axes, refine)
        dim = len(margins)
        lam = float(chain.intensity_of_jumps)
        spied = spy_rates(chain, grid, dim)
    axs = [[float(x) for x in a] for a in grid.axes]
    o = grid.origin_coordinate.value[0]
    nus = [CM.make_margin(m).levy_triplet.nu for m in margins]
    supp = [(Fr(m[1][0][0]), Fr(m[1][0][-1])) for m in margins]
    box = [(Fr(a[0]), Fr(a[-1])) for a in axs]
    lims_T = [(max(s[0], bx[0]), min(s[1], bx[1])) for s, bx in zip(supp, box)]
    active = any(nu.moment_q(s[0], bx[0], 0) > 0 if s[0] < bx[0] else False for nu, s, bx in zip(nus, supp, box)) or \
        any(nu.moment_q(bx[1], s[1], 0) > 0 if bx[1] < s[1] else False for nu, s, bx in zip(nus, supp, box))
    massf = dep_mass if cop == "dep" else indep_mass
    bad_T, diff_R, negative, raised = [], [], [], []
    tot = Fr(0)
    for idx, e in spied.items():
        if not (isinstance(e, tuple) and len(e) == 4):
            raised.append(list(idx))
            continue
        a, b, v, pk = e
        tot += Fr(v)
        # the property's cell, recomputed from each axis (own-length clamp; lengths are equal here)
        ilo = [(Fr(axs[d][max(0, k - 1)]) + Fr(axs[d][k])) / 2 for d, k in enumerate(idx)]
        ihi = [(Fr(axs[d][k]) + Fr(axs[d][min(len(axs[d]) - 1, k + 1)])) / 2 for d, k in enumerate(idx)]
        if [Fr(x) for x in a] != ilo or [Fr(x) for x in b] != ihi:
            bad_T.append(dict(state=list(idx), what="cell", cell=[list(a), list(b)]))
            continue
        if v < 0:
            negative.append(list(idx))
        wT, wR = massf(nus, lims_T, ilo, ihi), massf(nus, supp, ilo, ihi)
        if Fr(v) != wT:
            bad_T.append(dict(state=list(idx), got=v, want=float(wT)))
        elif Fr(v) != wR:
            diff_R.append(dict(state=list(idx), cell=[[float(x) for x in ilo], [float(x) for x in ihi]], rate=v, nu_of_cell=float(wR)))
    return dict(lam=lam, spied=spied, axs=axs, o=o, bad_T=bad_T, diff_R=diff_R, active=active, sum_ok=(tot == Fr(lam)), negative=negative,
                raised=raised, full=full)


def trunc_group(res, rng, viol, dim, n_models):
    import copula_models as CM
    from c01_table3 import AXES5, AXES7
    cases = []
    fixed = [dict(margins=[["step", [["1", "4"], ["1"]]], ["step", [["1", "2"], ["3"]]]], cop="dep",
                  axes=[[-2.0, -1.0, 0.0, 1.0, 2.0]] * 2, refine=0)] if dim == 2 else []      # the witness of copula_rate_is_restricted_nu_refuted
    for k in range(n_models + len(fixed)):
        if k < len(fixed):
            cfg = fixed[k]
        else:
            span = rng.choice([2, 3, 3, 4])
            margins = [CM.random_step_margin(rng, bits=2, span=span if rng.random() < 0.8 else 2, gap_prob=0.3) for _ in range(dim)]
            pool = AXES5 if (dim == 3 or rng.random() < 0.5) else AXES7
            cfg = dict(margins=margins, cop=rng.choice(["dep", "dep", "indep"]), axes=[list(a) for a in rng.sample(pool, dim)],
                       refine=1 if (dim == 2 and rng.random() < 0.3) else 0)
        ctx = dict(kind=f"copula-trunc{dim}d", **cfg)
        try:
            ev = trunc_evaluate(cfg["margins"], cfg["cop"], cfg["axes"], cfg["refine"])
        except ZeroDivisionError:
            res.bump(f"chain{dim}d_trunc", "zero-intensity chain skipped")
            continue
        except Exception as e:  # noqa
            viol(f"building the {dim}-d truncated copula chain raises {type(e).__name__}", reason=str(e)[:200], **ctx)
            continue
        res.count((f"chain{dim}d_trunc", json.dumps(cfg, sort_keys=True)), nontrivial=ev["active"],
                  kind=f"{dim}-d copula chain, library copula on step margins, truncation {'ACTIVE' if ev['active'] else 'inactive'}")
        res.bump(f"chain{dim}d_trunc", f"{cfg['cop']}, truncation {'active' if ev['active'] else 'inactive'}, "
                 f"{'rates differ from nu(cell)' if ev['diff_R'] else 'rates == nu(cell)'}")
        if ev["raised"]:
            viol(f"copula chain (d={dim}): the sampler raises on a state of an equal-lengths grid", state=ev["raised"][0], **ctx)
        if ev["negative"]:
            viol(f"copula chain (d={dim}): negative rate", state=ev["negative"][0], **ctx)
        if ev["bad_T"]:
            viol(f"copula chain (d={dim}): rate of a state differs from the mass of its cell under the chain's own model (copula of the margins "
                 f"truncated to the grid)", first=ev["bad_T"][0], **ctx)
        if not ev["sum_ok"]:
            viol(f"copula chain (d={dim}): reported intensity differs from the sum of the rates", got=ev["lam"], **ctx)
        if ev["diff_R"] and not ev["bad_T"]:
            if not ev["active"]:
                viol(f"copula chain (d={dim}): truncation inactive, yet a rate differs from nu(cell)", first=ev["diff_R"][0], **ctx)
            else:
                viol(FINDING_WHAT, finding=FINDING, first=ev["diff_R"][0], n_cells_differing=len(ev["diff_R"]), intensity=ev["lam"], **ctx)
        got = nd_case(ev["spied"], ev["axs"], ev["o"], ev["lam"], viol, ctx)
        if got is None:
            continue
        ms = CM.margins_lit(cfg["margins"])          # "[m0; m1; ...]"
        cases.append(f"(({'Dep' if cfg['cop'] == 'dep' else 'Indep'}, {ms}), {got[0]})")
    if dim == 2:
        return ("chain2d_trunc", f"(copula_kind * list (list (Q * Q * Q))) * {TY2}",
                "fun c => match c with ((ck, M), r) => match r with ((xs, ys, _, _), _, _, _) => "
                "chain2_chk (chain_mass2 ck (nth 0 M nil) (nth 1 M nil) xs ys) r end end", cases, 3)
    return ("chain3d_trunc", f"(copula_kind * list (list (Q * Q * Q))) * {TY3}",
            "fun c => match c with ((ck, M), r) => match r with ((xs, ys, zs, _, _), _, _, _) => "
            "chain3_chk (chain_mass3 ck (nth 0 M nil) (nth 1 M nil) (nth 2 M nil) xs ys zs) r end end", cases, 1)


def matches_known_trunc(v, match):
    """accept ONLY the recorded finding: re-run the real chain from the replay and require that (i) truncation is active, (ii) every rate is
    EXACTLY the mass of its cell under the copula of the truncated margins, rates >= 0, no state raises, sum of the rates == reported intensity
    (i.e. the chain is consistent with its own truncated model), and (iii) at least one cell inside the box has rate != nu(cell)."""
    rp = v["replay"]
    if match.get("id") != FINDING or rp.get("finding") != FINDING or v.get("what") != FINDING_WHAT:
        return False
    try:
        ev = trunc_evaluate(rp["margins"], rp["cop"], rp["axes"], rp["refine"])
    except Exception:  # noqa
        return False
    return bool(ev["active"] and not ev["bad_T"] and not ev["negative"] and not ev["raised"] and ev["sum_ok"] and ev["diff_R"])

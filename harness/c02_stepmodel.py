"""C02 helper: a Levy measure with piecewise-constant dyadic density, plugged into rpylib through its public
subclassing interface (LevyMeasure / LevyModel).  With dyadic pieces and a power-of-two total mass every float
operation of the generic chain/sampler code is exact, so the Q models must agree bit for bit."""
from fractions import Fraction as Fr

import numpy as np

from rpylib.model.levymodel.levymodel import LevyMeasure, LevyModel, LevyTriplet
from rpylib.model.model import ModelType


class C02StepMeasure(LevyMeasure):
    def __init__(self, pieces):
        """pieces: list of (left, right, density) with left < right, disjoint interiors (Fractions or dyadic floats)"""
        self.pieces = [(Fr(l), Fr(r), Fr(d)) for l, r, d in pieces]

    def __call__(self, x):
        x = Fr(float(x))
        for l, r, d in self.pieces:
            if l <= x < r:
                return float(d)
        return 0.0

    def jump_of_finite_activity(self):
        return True

    def jump_of_finite_variation(self):
        return True

    def finite_first_moment(self):
        return True

    def blumenthal_getoor_index(self):
        return 0.0

    @staticmethod
    def _fr(x):
        if x == np.inf:
            return Fr(10 ** 9)
        if x == -np.inf:
            return Fr(-10 ** 9)
        return Fr(float(x))

    def exact(self, a, b, power=0):
        a, b = self._fr(a), self._fr(b)
        tot = Fr(0)
        for l, r, d in self.pieces:
            lo, hi = max(a, l), min(b, r)
            if lo < hi:
                tot += d * (hi ** (power + 1) - lo ** (power + 1)) / (power + 1)
        return tot

    def integrate(self, a, b):
        if a > b:
            raise ValueError("Expected a<b when integrating the levy measure")
        return float(self.exact(a, b, 0))

    def integrate_against_x(self, a, b):
        if a > b:
            raise ValueError("Expected a<b when integrating the levy measure")
        return float(self.exact(a, b, 1))

    def integrate_against_xx(self, a, b):
        if a > b:
            raise ValueError("Expected a<b when integrating the levy measure")
        return float(self.exact(a, b, 2))


class C02StepModel(LevyModel):
    def __init__(self, measure):
        super().__init__(ModelType.HEM, LevyTriplet(sigma=0.0, nu=measure, a=0.0), cumulant=None)

    def __repr__(self):
        return "C02StepModel"

    def levy_exponent_pure_jump(self, x):
        return 0.0

    def intensity(self):
        return self.levy_triplet.nu.integrate(-np.inf, np.inf)


def cells_of_axis(axis):
    """cell boundaries of a CTMCGrid axis with arithmetic mid-points: [(a_k, b_k)] (Fractions)"""
    ax = [Fr(float(x)) for x in axis]
    n = len(ax)
    return [((ax[max(0, k - 1)] + ax[k]) / 2, (ax[k] + ax[min(n - 1, k + 1)]) / 2) for k in range(n)]


def measure_from_cell_masses(axis, origin, masses):
    """step measure whose density is constant on every grid cell, with the given cell masses (Fraction; the
    origin cell gets density 0).  Edge cells have half width."""
    cells = cells_of_axis(axis)
    pieces = []
    for k, ((a, b), m) in enumerate(zip(cells, masses)):
        if k == origin or m == 0:
            continue
        pieces.append((a, b, Fr(m) / (b - a)))
    return C02StepMeasure(pieces)

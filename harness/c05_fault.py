"""C05 (wave 7): fault injection.  A scripted coupling process whose `simulate` call raises (KeyboardInterrupt or an
ordinary exception) at a chosen (pass, level, iteration) of the REAL multilevel engine.  Afterwards EITHER the exception
propagates to the caller (nothing is reported; the arrays the engine object still exposes are then compared with the
aborted state of the Coq model, Model/MlmcVec.v gloop_f) OR whatever the engine returns must satisfy the C05 statement
exactly as an uninterrupted run must (mlmcdrive.check_c05: every level's rows are exactly its N_l simulated samples, no
placeholder; price() / ml / vl / ... from those rows)."""
from __future__ import annotations

import warnings

import numpy as np

from common import zlit, qlit, blit, lst, natlit
import mlmcdrive as D
from mcscript import Shared, ScriptedCoupling, scripted_criteria, make_product, WarningCatcher

MESSAGE = "injected by the C05 harness"


class Injected(RuntimeError):
    """the 'ordinary exception' a simulation may raise (numerical failure inside a sampler, MemoryError, ...)"""


KINDS = {"KeyboardInterrupt": KeyboardInterrupt, "Injected": Injected}


class FaultyCoupling(ScriptedCoupling):
    """ScriptedCoupling whose n-th draw of level `fault[0]` (n = fault[1], counted over the whole pricing) raises
    KINDS[fault[2]] INSTEAD of simulating the path; fires once per Shared log (a handler that retries gets the sample)"""

    def __init__(self, sample, cost, df=1.0, shared=None, fault=None):
        super().__init__(sample, cost, df=df, shared=shared)
        self.fault = fault

    def _draw(self):
        sh, f = self.shared, self.fault
        if f is not None and not getattr(sh, "fault_fired", False) and self.level == f[0] and sh.draws.get(self.level, 0) == f[1]:
            sh.fault_fired = True
            sh.events.append(("fault", self.level, f[1]))
            raise KINDS[f[2]](MESSAGE)
        return super()._draw()


def passes_of(obs):
    """[{level: (first draw index, number of draws)}] per pass of an observed (uninterrupted) run: the draws between two
    compute_mc_paths calls"""
    out, cur = [], {}
    for e in obs["shared"].events:
        if e[0] == "draw":
            a, n = cur.get(e[1], (e[2], 0))
            cur[e[1]] = (a, n + 1)
        elif e[0] == "alloc" and cur:
            out.append(cur)
            cur = {}
    if cur:
        out.append(cur)
    return out


def choose_faults(rng, passes):
    """up to three fault points (pass, level, offset): one anywhere, one in a LATER pass at a level below another level
    that still has paths to simulate in that pass (if the history has such a point), one in the first pass"""
    def point(p, levels=None):
        levels = levels or sorted(passes[p])
        l = rng.choice(levels)
        return (p, l, rng.randrange(passes[p][l][1]))
    if not passes:
        return []
    out = [point(rng.randrange(len(passes)))]
    later = [(p, [l for l in sorted(ps) if any(k > l for k in ps)]) for p, ps in enumerate(passes) if p >= 1]
    later = [(p, ls) for p, ls in later if ls]
    if later:
        p, ls = rng.choice(later)
        out.append(point(p, ls))
    out.append(point(0))
    return list(dict.fromkeys(out))


def classify(passes, fault):
    p, l, _ = fault
    pending = any(k > l for k in passes[p])
    return ("first pass" if p == 0 else "later pass") + (", a higher level still has paths to simulate" if pending else ", last level of the pass")


def run_faulty(spec, atab, vtab, fault, fixed=False, again=True):
    """one pricing of `spec` (scripted tables atab / vtab) on a fresh real Engine whose coupling process raises at
    fault = (level, draw index, kind).  obs["propagated"]: the injected exception reached the caller; then obs["exposed"] holds
    the arrays / draw counts the engine object still exposes and obs["again"] a second, uninterrupted pricing on the SAME engine.
    Otherwise obs is what mlmcdrive._observe reads from the returned statistics."""
    from rpylib.montecarlo.multilevel.engine import Engine
    from rpylib.montecarlo.configuration import ConfigurationMultiLevel, ConvergenceRates
    sh = Shared()
    cp = FaultyCoupling(D.sample_fn(spec["salt"]), D.cost_fn(spec["ctab"]), df=spec["df"], shared=sh, fault=fault)
    conf = ConfigurationMultiLevel(convergence_rates=ConvergenceRates(1.0, 2.0, 1.0), convergence_criteria=scripted_criteria(atab, vtab, sh),
                                   initial_level=spec["L0"], maximum_level=spec["Lmax"], initial_mc_paths=spec["N0"],
                                   nb_of_processes=1, seed=1)
    eng = Engine(conf, cp)
    dim = spec.get("dim", 1)

    def product():
        return make_product(notional=spec["notional"], dimension=dim, fun=D.vector_payoff(dim))

    def price():
        return eng.price_with_constant_mc_paths_and_level(product()) if fixed else eng.price(product(), rmse=0.125)

    obs = {"raised": None, "propagated": False, "shared": sh}
    with WarningCatcher() as w, np.errstate(all="ignore"), warnings.catch_warnings():
        warnings.simplefilter("ignore")
        try:
            st = price()
        except BaseException as ex:                  # noqa: the injected KeyboardInterrupt is a BaseException
            if not (getattr(sh, "fault_fired", False) and type(ex) is KINDS[fault[2]] and ex.args == (MESSAGE,)):
                raise
            obs["propagated"] = True
            stats = getattr(eng, "statistics", None)
            obs["exposed"] = {"draws": dict(sh.draws),
                              "arrays": [np.array(m._payoff_statistics.stats) for m in stats.mc_statistics] if stats is not None else []}
            obs["atab"], obs["vtab"] = list(sh.alloc_answers), list(sh.conv_answers)
            if again:                                # the engine object survives: its next pricing must be a clean one
                conf.convergence_criteria = scripted_criteria(atab, vtab, sh)
                o2 = {"raised": None}
                try:
                    st2 = price()
                    o2["fallthrough"] = False
                    D._observe(o2, st2, sh)
                except (IndexError, ValueError, np.linalg.LinAlgError) as ex2:
                    o2["raised"] = f"{type(ex2).__name__}: {ex2}"
                obs["again"] = o2
            return obs
        obs["fallthrough"] = any("Initial number of Monte-Carlo paths" in m for m in w.messages)
        D._observe(obs, st, sh)
    return obs


def check_returned(spec, obs, fault, pass_start):
    """the engine REPORTED something although a simulation raised: the C05 statement must hold for what it reports.  The only
    latitude: the incomplete pass of the interrupted level may have been rolled back as a whole (N_l = the count before
    the pass) -- then the level must hold exactly those N_l samples; every other level is judged as in any run."""
    level = fault[0]
    o = dict(obs)
    o["draws"] = list(obs["draws"])
    if level < len(obs["Nl"]) and level < len(o["draws"]) and obs["Nl"][level] == pass_start < o["draws"][level]:
        o["draws"][level] = pass_start
    return [("after an exception raised by a simulation the engine reports results: " + what, det) for what, det in D.check_c05(spec, o)]


# ------------------------------------------------------------------ Coq literals (Model/MlmcVec.v vfault_tab)
def fault_case(spec, obs, unfaulted, fault_pli):
    """propagated exception: the arrays the engine object exposes = the aborted state of the model, row by row (every
    payoff component), and the number of paths each level's process has simulated"""
    p, l, i = fault_pli
    ex = obs["exposed"]
    nlev = len(ex["arrays"])
    prow = []
    for k, arr in enumerate(ex["arrays"]):
        # first pass: rows behind the written ones are np.empty content (possibly nan): not compared, sent as 0
        keep = arr.shape[0] if p >= 1 else ex["draws"].get(k, 0)
        prow.append(lst([lst([f"({qlit(float(arr[a, j, 0]))}, {qlit(float(arr[a, j, 1]))})" if a < keep else "(0, 0)" for j in range(arr.shape[1])])
                         for a in range(arr.shape[0])]))
    cnt = lst([zlit(ex["draws"].get(k, 0)) for k in range(nlev)])
    full = blit(p >= 1)          # first pass: the rows behind the written ones are np.empty content, not compared
    return (f"(vfault_tab ({natlit(p)}, {natlit(l)}, {natlit(i)}) {natlit(spec['dim'])} {D.coq_inputs(spec, unfaulted)}, "
            f"({full}, {cnt}, {lst(prow)}))")


FAULT_TY = "aout (gstate srow vrow) * (bool * list Z * list (list vrow))"
FAULT_CHK = "fun c => corr_fault (fst c) (snd c)"

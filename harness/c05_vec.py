"""C05 (wave 5): Coq literals and drivers for Model/MlmcVec.v -- the multilevel engine with vector payoffs, control
variates and the multi-process merge.  Everything observed comes from the real Engine (driven by mlmcdrive / mcscript)."""
from __future__ import annotations

import math
from fractions import Fraction

import numpy as np

from common import zlit, qlit, blit, lst, natlit
import mlmcdrive as D

HEADER = ("From Coq Require Import ZArith QArith List Bool.\nFrom RV Require Import Base.QB Model.McStats Model.Mlmc Model.MlmcVec.\n"
          "Open Scope Q_scope.\nDefinition tol : Q := 1 # 100000.\nDefinition tolr : Q := 1 # 1000000.\n")


def _pair(a, b):
    return f"({qlit(float(a))}, {qlit(float(b))})"


def tables(spec, obs, fuel=80):
    """samples ctab atab vtab df notional level_max fuel L0 N0 (as D.coq_inputs)"""
    return D.coq_inputs(spec, obs, fuel=fuel)


def expected_vrows(obs, ncv=0):
    """(Nl, counts, payoff rows [level][path][component] of (fine, coarse), control rows [level][path][control][component])"""
    st = obs["st"]
    prow, crow = [], []
    for l, m in enumerate(st.mc_statistics):
        arr = np.array(m._payoff_statistics.stats)                    # (n, d, 2)
        prow.append(lst([lst([_pair(arr[i, j, 0], arr[i, j, 1]) for j in range(arr.shape[1])]) for i in range(arr.shape[0])]))
        if ncv == 0:
            crow.append(lst([lst([]) for _ in range(arr.shape[0])]))
        else:
            X = np.array(m._control_variates_statistics.stats)        # level 0: (n, ncv, d); level >= 1: (n, ncv, d, 2)
            if l == 0:
                crow.append(lst([lst([lst([_pair(X[i, k, j], 0.0) for j in range(X.shape[2])]) for k in range(X.shape[1])])
                                 for i in range(X.shape[0])]))
            else:
                crow.append(lst([lst([lst([_pair(X[i, k, j, 0], X[i, k, j, 1]) for j in range(X.shape[2])]) for k in range(X.shape[1])])
                                 for i in range(X.shape[0])]))
    Nl = lst([zlit(n) for n in obs["Nl"]])
    cnt = lst([zlit(n) for n in obs["draws"][:len(obs["Nl"])]])
    return f"({Nl}, {cnt}, {lst(prow)}, {lst(crow)})"


def expected_cv(obs):
    """(with_cv rows [level][path][component], (price(), cost, fields)) -- price() and the fields are what the code computed
    from the ADJUSTED rows"""
    st = obs["st"]
    cvrows = []
    for m in st.mc_statistics:
        arr = np.array(m._payoff_statistics_with_cv.stats)
        cvrows.append(lst([lst([_pair(arr[i, j, 0], arr[i, j, 1]) for j in range(arr.shape[1])]) for i in range(arr.shape[0])]))
    fields = lst([lst([qlit(x) for x in D._nz(obs, name)]) for name in ("ml", "vl", "cl", "mean_level_l", "var_level_l", "kurtosis")])
    return f"({lst(cvrows)}, ({qlit(obs['price'])}, {qlit(obs['cost'])}, {fields}))"


def vector_case(spec, obs):
    tag = 1 if obs["fallthrough"] else 0
    return f"(vrun_tab {natlit(spec['dim'])} 0 nil {tables(spec, obs)}, {zlit(tag)}, {expected_vrows(obs)})"


VEC_TY = "outcome (gstate srow vrow) * Z * (list Z * list Z * list (list vrow) * list (list crow))"
VEC_CHK = "fun c => match c with (o, tag, e) => Z.eqb (gout_tag o) tag && corr_vrows (gout_levels o) e end"


def cv_case(spec, obs, ncv, prices):
    tag = 1 if obs["fallthrough"] else 0
    return (f"(vrun_tab {natlit(spec.get('dim', 1))} {natlit(ncv)} {lst([qlit(p) for p in prices])} {tables(spec, obs)}, {natlit(ncv)}, {zlit(tag)}, "
            f"{expected_vrows(obs, ncv)}, {expected_cv(obs)})")


CV_TY = ("outcome (gstate srow vrow) * nat * Z * (list Z * list Z * list (list vrow) * list (list crow)) * "
         "(list (list vrow) * (Q * Q * list (list Q)))")
CV_CHK = ("fun c => match c with (o, nc, tag, e, ecv) => Z.eqb (gout_tag o) tag && corr_vrows (gout_levels o) e && "
          "corr_cv tolr tol nc (gout_levels o) ecv end")


def vfixed_case(spec, obs, L0, Lmax, N):
    samples = lst([lst([D.qpair(D.raw_value(spec, l, n)) for n in range(N + 1)]) for l in range(max(L0, Lmax) + 2)])
    args = (f"{natlit(spec['dim'])} {samples} {lst([qlit(c) for c in spec['ctab']])} {qlit(spec['df'])} {qlit(spec['notional'])} "
            f"{natlit(L0)} {natlit(Lmax)} {natlit(N)}")
    if obs["raised"]:
        return f"(vfixed_tab {args}, None)"
    return f"(vfixed_tab {args}, Some {expected_vrows(obs)})"


VFIX_TY = "option (list (glev srow vrow)) * option (list Z * list Z * list (list vrow) * list (list crow))"
VFIX_CHK = "fun c => match c with (Some vs, Some e) => corr_vrows vs e | (None, None) => true | _ => false end"


# ------------------------------------------------------------------ multi-process: observed sigma
# Wave 8 (audit 5a, A5 / top-10 #5).  Until wave 7 sigma[l][i] was obtained by INVERTING the sample function on the stored fine
# row i, and the model then rebuilt row i from it: the fine component was compared with itself.  Now every simulated path
# carries, in a channel that does not feed the payoff (the jump component at two INTERMEDIATE times; Spot reads the value at
# the last time only), the draw index it got from the shared counter and the pid of the worker that simulated it.  The
# payoff underlying of the product (TagSpot, evaluated by the callback in the PARENT for every (it, path) pair of `res`, in
# the order of `res`) logs that tag.  sigma[l][k] = draw index carried by the k-th path of level l the callback processed;
# nothing of it is read from the statistics arrays.  The Coq model then predicts the stored row k = row of draw sigma[l][k].
MP_DELAY = 0.002          # seconds a worker waits before it takes its draw index: the workers of a pool overlap, so the
#                           draw order differs from the iteration order (non-identity sigma) in every run


def _tag_classes():
    """the two classes live in this module's namespace under their own names (pickled by reference by the pool, like ScriptedCoupling)"""
    g = globals()
    if "TagSpot" in g:
        return g["TagSpot"], g["TaggedCoupling"]
    from rpylib.product.underlying import Spot
    from rpylib.montecarlo.path import StochasticJumpPath
    from mcscript import ScriptedCoupling

    class TagSpot(Spot):
        """Spot at maturity (value = path[..., -1], as Spot) that logs the tag channel of every path it is evaluated on"""

        def __init__(self):
            self.log = []          # (level, draw index, worker pid) of the FINE component, in evaluation order (parent process)

        def value(self, times, path, jump_path, payoff_underlying=None):
            tag = float(np.asarray(jump_path)[..., 1])
            if tag > 0:            # fine component (the coarse one carries -tag)
                t = int(tag)
                self.log.append((t // (1 << 24) - 1, t % (1 << 24) - 1, int(float(np.asarray(jump_path)[..., 2]))))
            return path[..., -1]

    class TaggedCoupling(ScriptedCoupling):
        """ScriptedCoupling whose paths have 4 times: value at maturity = the scripted sample (as ScriptedCoupling), jump
        component at the two intermediate times = (tag of (level, draw index), pid of the simulating process)"""

        def _tagged_draw(self):
            import os
            import time
            import mcscript
            time.sleep(MP_DELAY * (1 + 2 * (os.getpid() % 3)))      # workers of unequal speed: draws are taken far from iteration order
            c = mcscript.MP_COUNTERS[self.level]
            with c.get_lock():
                n = c.value
                c.value = n + 1
            f, co = self.sample(self.level, n)
            return f, co, float((self.level + 1) * (1 << 24) + n + 1), float(os.getpid())

        def simulate_one_path(self):
            f, _, tag, pid = self._tagged_draw()
            return StochasticJumpPath(jump_times=np.array([0.0, 0.25, 0.5, 1.0]), diffusion_path=np.array([0.0, 0.0, 0.0, f]),
                                      jump_path=np.array([0.0, tag, pid, 0.0]))

        def simulate_one_path_with_coupling(self):
            f, c, tag, pid = self._tagged_draw()
            return StochasticJumpPath(jump_times=np.array([0.0, 0.25, 0.5, 1.0]),
                                      diffusion_path=np.array([[0.0, 0.0, 0.0, f], [0.0, 0.0, 0.0, c]]),
                                      jump_path=np.array([[0.0, tag, pid, 0.0], [0.0, -tag, pid, 0.0]]))

    for cls in (TagSpot, TaggedCoupling):
        cls.__qualname__ = cls.__name__
        g[cls.__name__] = cls
    return TagSpot, TaggedCoupling


def mp_observe(spec):
    """one REAL multi-process pricing (spec['nb_of_processes'] workers, real pathos pool) of the scripted history; returns
    dict(Nl, rows[level] = [(fine, coarse)] as stored, sigma[level] = [draw index carried by the k-th path of the level the callback
    processed] (from the TAG channel, not from the stored rows), pids[level], drawn[level])"""
    import os
    import warnings
    from rpylib.montecarlo.multilevel.engine import Engine
    from rpylib.montecarlo.configuration import ConfigurationMultiLevel, ConvergenceRates
    from rpylib.product.product import Product
    from rpylib.product.payoff import PayoffOnTheFly
    from mcscript import Shared, scripted_criteria, MP_COUNTERS, WarningCatcher
    TagSpot, TaggedCoupling = _tag_classes()
    sh = Shared()
    sh.use_mp_counters = True
    cp = TaggedCoupling(D.sample_fn(spec["salt"], big=True), D.cost_fn(spec["ctab"]), df=spec["df"], shared=sh)
    conf = ConfigurationMultiLevel(convergence_rates=ConvergenceRates(1.0, 2.0, 1.0), convergence_criteria=scripted_criteria(spec["atab"], spec["vtab"], sh),
                                   initial_level=spec["L0"], maximum_level=spec["Lmax"], initial_mc_paths=spec["N0"],
                                   nb_of_processes=spec["nb_of_processes"], seed=None)
    spot = TagSpot()
    product = Product(payoff_underlying=spot, payoff=PayoffOnTheFly(lambda x: x), maturity=1.0, notional=spec["notional"])
    with WarningCatcher() as w, warnings.catch_warnings(), np.errstate(all="ignore"):
        warnings.simplefilter("ignore")
        st = Engine(conf, cp).price(product, rmse=0.125)
        Nl = [int(x) for x in st.mlmc_results.Nl]
        fine = [np.array(st.simulation_payoff_with_fine_process(l)) for l in range(len(st.mc_statistics))]
        coarse = [np.array(st.simulation_payoff_with_coarse_process(l)) for l in range(len(st.mc_statistics))]
    drawn = [MP_COUNTERS[l].value for l in range(len(Nl))]
    sigma = [[n for (l, n, _) in spot.log if l == lev] for lev in range(len(Nl))]
    pids = [[p for (l, _, p) in spot.log if l == lev] for lev in range(len(Nl))]
    return {"Nl": Nl, "rows": [list(zip(f, c)) for f, c in zip(fine, coarse)], "sigma": sigma, "pids": pids, "drawn": drawn,
            "parent_pid": os.getpid(), "tags_logged": len(spot.log),
            "fallthrough": any("Initial number of Monte-Carlo paths" in m for m in w.messages),
            "atab": sh.alloc_answers, "vtab": sh.conv_answers}


def mp_case(spec, ob, fuel=40):
    nlev = len(ob["Nl"]) + 1
    drawn = ob["drawn"] + [0] * nlev
    samples = lst([lst([D.qpair(D.raw_value(spec, l, n)) for n in range(drawn[l] + 1)]) for l in range(nlev)])
    sig = lst([lst([natlit(n) for n in s]) for s in ob["sigma"]])
    atab = lst([lst([zlit(x) for x in row]) for row in ob["atab"]])
    vtab = lst([blit(b) for b in ob["vtab"]])
    rows = lst([lst([_pair(a, b) for a, b in r]) for r in ob["rows"]])
    tag = 1 if ob["fallthrough"] else 0
    return (f"(mp_run_tab {sig} {samples} {lst([qlit(c) for c in spec['ctab']])} {atab} {vtab} {qlit(spec['df'])} {qlit(spec['notional'])} "
            f"{natlit(spec['Lmax'])} {natlit(fuel)} {natlit(spec['L0'])} {natlit(spec['N0'])}, {zlit(tag)}, "
            f"({lst([zlit(n) for n in ob['Nl']])}, {rows}))")


MP_TY = "outcome (gstate row unit) * Z * (list Z * list (list row))"
MP_CHK = "fun c => match c with (o, tag, e) => Z.eqb (gout_tag o) tag && corr_mp (gout_levels o) e end"

"""C05 (wave 5): Coq literals and drivers for Model/MlmcVec.v -- the multilevel engine with vector payoffs, control
variates and the multi-process merge.  Everything observed comes from the real Engine (driven by mlmcdrive / mcscript)."""
from __future__ import annotations

import math
from fractions import Fraction

import numpy as np

from common import zlit, qlit, blit, lst, natlit
import mlmcdrive as D

HEADER = ("From Coq Require Import ZArith QArith List Bool.\nFrom RV Require Import Base.QB Model.McStats Model.Mlmc Model.MlmcVec.\n"
          "Open Scope Q_scope.\nDefinition tol : Q := 1 # 100000.\nDefinition tolr : Q := 1 # 1000000.\n")


def _pair(a, b):
    return f"({qlit(float(a))}, {qlit(float(b))})"


def tables(spec, obs, fuel=80):
    """samples ctab atab vtab df notional level_max fuel L0 N0 (as D.coq_inputs)"""
    return D.coq_inputs(spec, obs, fuel=fuel)


def expected_vrows(obs, ncv=0):
    """(Nl, counts, payoff rows [level][path][component] of (fine, coarse), control rows [level][path][control][component])"""
    st = obs["st"]
    prow, crow = [], []
    for l, m in enumerate(st.mc_statistics):
        arr = np.array(m._payoff_statistics.stats)                    # (n, d, 2)
        prow.append(lst([lst([_pair(arr[i, j, 0], arr[i, j, 1]) for j in range(arr.shape[1])]) for i in range(arr.shape[0])]))
        if ncv == 0:
            crow.append(lst([lst([]) for _ in range(arr.shape[0])]))
        else:
            X = np.array(m._control_variates_statistics.stats)        # level 0: (n, ncv, d); level >= 1: (n, ncv, d, 2)
            if l == 0:
                crow.append(lst([lst([lst([_pair(X[i, k, j], 0.0) for j in range(X.shape[2])]) for k in range(X.shape[1])])
                                 for i in range(X.shape[0])]))
            else:
                crow.append(lst([lst([lst([_pair(X[i, k, j, 0], X[i, k, j, 1]) for j in range(X.shape[2])]) for k in range(X.shape[1])])
                                 for i in range(X.shape[0])]))
    Nl = lst([zlit(n) for n in obs["Nl"]])
    cnt = lst([zlit(n) for n in obs["draws"][:len(obs["Nl"])]])
    return f"({Nl}, {cnt}, {lst(prow)}, {lst(crow)})"


def expected_cv(obs):
    """(with_cv rows [level][path][component], (price(), cost, fields)) -- price() and the fields are what the code computed
    from the ADJUSTED rows"""
    st = obs["st"]
    cvrows = []
    for m in st.mc_statistics:
        arr = np.array(m._payoff_statistics_with_cv.stats)
        cvrows.append(lst([lst([_pair(arr[i, j, 0], arr[i, j, 1]) for j in range(arr.shape[1])]) for i in range(arr.shape[0])]))
    fields = lst([lst([qlit(x) for x in D._nz(obs, name)]) for name in ("ml", "vl", "cl", "mean_level_l", "var_level_l", "kurtosis")])
    return f"({lst(cvrows)}, ({qlit(obs['price'])}, {qlit(obs['cost'])}, {fields}))"


def vector_case(spec, obs):
    tag = 1 if obs["fallthrough"] else 0
    return f"(vrun_tab {natlit(spec['dim'])} 0 nil {tables(spec, obs)}, {zlit(tag)}, {expected_vrows(obs)})"


VEC_TY = "outcome (gstate srow vrow) * Z * (list Z * list Z * list (list vrow) * list (list crow))"
VEC_CHK = "fun c => match c with (o, tag, e) => Z.eqb (gout_tag o) tag && corr_vrows (gout_levels o) e end"


def cv_case(spec, obs, ncv, prices):
    tag = 1 if obs["fallthrough"] else 0
    return (f"(vrun_tab {natlit(spec.get('dim', 1))} {natlit(ncv)} {lst([qlit(p) for p in prices])} {tables(spec, obs)}, {natlit(ncv)}, {zlit(tag)}, "
            f"{expected_vrows(obs, ncv)}, {expected_cv(obs)})")


CV_TY = ("outcome (gstate srow vrow) * nat * Z * (list Z * list Z * list (list vrow) * list (list crow)) * "
         "(list (list vrow) * (Q * Q * list (list Q)))")
CV_CHK = ("fun c => match c with (o, nc, tag, e, ecv) => Z.eqb (gout_tag o) tag && corr_vrows (gout_levels o) e && "
          "corr_cv tolr tol nc (gout_levels o) ecv end")


def vfixed_case(spec, obs, L0, Lmax, N):
    samples = lst([lst([D.qpair(D.raw_value(spec, l, n)) for n in range(N + 1)]) for l in range(max(L0, Lmax) + 2)])
    args = (f"{natlit(spec['dim'])} {samples} {lst([qlit(c) for c in spec['ctab']])} {qlit(spec['df'])} {qlit(spec['notional'])} "
            f"{natlit(L0)} {natlit(Lmax)} {natlit(N)}")
    if obs["raised"]:
        return f"(vfixed_tab {args}, None)"
    return f"(vfixed_tab {args}, Some {expected_vrows(obs)})"


VFIX_TY = "option (list (glev srow vrow)) * option (list Z * list Z * list (list vrow) * list (list crow))"
VFIX_CHK = "fun c => match c with (Some vs, Some e) => corr_vrows vs e | (None, None) => true | _ => false end"


# ------------------------------------------------------------------ multi-process: observed sigma
def mp_observe(spec):
    """one REAL 2-process pricing of the scripted history; returns dict(Nl, rows[level] = [(fine, coarse)], sigma[level] = [draw index
    stored under iteration index i], drawn[level])"""
    import warnings
    from rpylib.montecarlo.multilevel.engine import Engine
    from rpylib.montecarlo.configuration import ConfigurationMultiLevel, ConvergenceRates
    from mcscript import Shared, ScriptedCoupling, scripted_criteria, make_product, MP_COUNTERS, WarningCatcher
    sh = Shared()
    sh.use_mp_counters = True
    cp = ScriptedCoupling(D.sample_fn(spec["salt"], big=True), D.cost_fn(spec["ctab"]), df=spec["df"], shared=sh)
    conf = ConfigurationMultiLevel(convergence_rates=ConvergenceRates(1.0, 2.0, 1.0), convergence_criteria=scripted_criteria(spec["atab"], spec["vtab"], sh),
                                   initial_level=spec["L0"], maximum_level=spec["Lmax"], initial_mc_paths=spec["N0"], nb_of_processes=2, seed=None)
    with WarningCatcher() as w, warnings.catch_warnings(), np.errstate(all="ignore"):
        warnings.simplefilter("ignore")
        st = Engine(conf, cp).price(make_product(notional=spec["notional"]), rmse=0.125)
        Nl = [int(x) for x in st.mlmc_results.Nl]
        fine = [np.array(st.simulation_payoff_with_fine_process(l)) for l in range(len(st.mc_statistics))]
        coarse = [np.array(st.simulation_payoff_with_coarse_process(l)) for l in range(len(st.mc_statistics))]
    drawn = [MP_COUNTERS[l].value for l in range(len(Nl))]
    scale = Fraction(spec["df"]) * Fraction(spec["notional"])
    sigma = []
    for l in range(len(Nl)):
        off = Fraction(D.pm_offset(0, l)[0])
        sig = []
        for f in fine[l]:
            raw = Fraction(float(f)) / scale - off                   # sample_big: f = (n + 1) / 1024 + 16 l
            n = (raw - 16 * l) * 1024 - 1
            sig.append(int(n) if n.denominator == 1 and n >= 0 else -1)
        sigma.append(sig)
    return {"Nl": Nl, "rows": [list(zip(f, c)) for f, c in zip(fine, coarse)], "sigma": sigma, "drawn": drawn,
            "fallthrough": any("Initial number of Monte-Carlo paths" in m for m in w.messages),
            "atab": sh.alloc_answers, "vtab": sh.conv_answers}


def mp_case(spec, ob, fuel=40):
    nlev = len(ob["Nl"]) + 1
    drawn = ob["drawn"] + [0] * nlev
    samples = lst([lst([D.qpair(D.raw_value(spec, l, n)) for n in range(drawn[l] + 1)]) for l in range(nlev)])
    sig = lst([lst([natlit(n) for n in s]) for s in ob["sigma"]])
    atab = lst([lst([zlit(x) for x in row]) for row in ob["atab"]])
    vtab = lst([blit(b) for b in ob["vtab"]])
    rows = lst([lst([_pair(a, b) for a, b in r]) for r in ob["rows"]])
    tag = 1 if ob["fallthrough"] else 0
    return (f"(mp_run_tab {sig} {samples} {lst([qlit(c) for c in spec['ctab']])} {atab} {vtab} {qlit(spec['df'])} {qlit(spec['notional'])} "
            f"{natlit(spec['Lmax'])} {natlit(fuel)} {natlit(spec['L0'])} {natlit(spec['N0'])}, {zlit(tag)}, "
            f"({lst([zlit(n) for n in ob['Nl']])}, {rows}))")


MP_TY = "outcome (gstate row unit) * Z * (list Z * list (list row))"
MP_CHK = "fun c => match c with (o, tag, e) => Z.eqb (gout_tag o) tag && corr_mp (gout_levels o) e end"

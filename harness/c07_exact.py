"""C07 -- exact (Fraction) linear algebra for the control-variate regression with any number of controls.
lstsq_certificate computes the b the specification of the code determines (Model/McCv.v: code_b) together with the
certificate w of minimal norm on the correlation scale; the Coq side re-checks both conditions by vm_compute."""
from fractions import Fraction

GUARD_EPS = Fraction(1, 10 ** 24)


def mean(v):
    return sum(v, Fraction(0)) / len(v)


def cov(x, y):
    mx, my = mean(x), mean(y)
    return sum((a - mx) * (b - my) for a, b in zip(x, y)) / len(x)


def solve_any(A, b):
    """Gauss-Jordan over Fractions, singular matrices allowed: (a solution with the free unknowns = 0, rank),
    (None, rank) when the system is inconsistent"""
    n, m = len(A), len(A[0])
    M = [list(r) + [x] for r, x in zip(A, b)]
    piv, r = [], 0
    for c in range(m):
        p = next((i for i in range(r, n) if M[i][c] != 0), None)
        if p is None:
            continue
        M[r], M[p] = M[p], M[r]
        M[r] = [v / M[r][c] for v in M[r]]
        for i in range(n):
            if i != r and M[i][c] != 0:
                f = M[i][c]
                M[i] = [a - f * q for a, q in zip(M[i], M[r])]
        piv.append(c)
        r += 1
    if any(all(v == 0 for v in row[:-1]) and row[-1] != 0 for row in M):
        return None, len(piv)
    x = [Fraction(0)] * m
    for i, c in enumerate(piv):
        x[c] = M[i][m]
    return x, len(piv)


def det(A):
    M = [list(r) for r in A]
    n, d = len(M), Fraction(1)
    for c in range(n):
        p = next((i for i in range(c, n) if M[i][c] != 0), None)
        if p is None:
            return Fraction(0)
        if p != c:
            M[c], M[p] = M[p], M[c]
            d = -d
        d *= M[c][c]
        for i in range(c + 1, n):
            f = M[i][c] / M[c][c]
            M[i] = [a - f * q for a, q in zip(M[i], M[c])]
    return d


def lstsq_certificate(xrows, y):
    """xrows[i][k] = control k on path i, y[i] = payoff on path i (Fractions).
    returns dict(kind= 'guard' | 'lstsq', b, w, rank, rel_det, S, sxy):
      guard: some control has variance <= 1e-24 * mean(x^2): b = 0 (w = 0)
      lstsq: Sigma b = sigma_xy and diag(Sigma) b = Sigma w  (the minimal-norm least-squares solution on the correlation scale)"""
    n, k = len(y), len(xrows[0])
    xc = [[xrows[i][a] for i in range(n)] for a in range(k)]
    S = [[cov(xc[a], xc[b]) for b in range(k)] for a in range(k)]
    sxy = [cov(xc[a], y) for a in range(k)]
    out = {"S": S, "sxy": sxy}
    if any(S[a][a] <= GUARD_EPS * mean([v * v for v in xc[a]]) for a in range(k)):
        out.update(kind="guard", b=[Fraction(0)] * k, w=[Fraction(0)] * k, rank=None, rel_det=None)
        return out
    D = [S[a][a] for a in range(k)]
    M = [[sum(S[i][a] * S[a][j] / D[a] for a in range(k)) for j in range(k)] for i in range(k)]
    w, rank = solve_any(M, sxy)
    if w is None:       # impossible: sigma_xy is in the range of Sigma_X (Proofs/C07_CvGeneral.v normal_eq_solvable)
        raise ArithmeticError("normal equations inconsistent")
    b = [sum(S[j][a] * w[a] for a in range(k)) / D[j] for j in range(k)]
    diag = Fraction(1)
    for a in range(k):
        diag *= D[a]
    out.update(kind="lstsq", b=b, w=w, rank=rank, rel_det=abs(det(S)) / diag)
    return out

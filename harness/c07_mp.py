"""C07 -- scripted standard-engine process for the MULTI-PROCESS branch of Engine.price (standard/engine.py:127-149).
The path values are handed out through a shared-memory counter (mcscript.MP_COUNTERS, inherited by the forked pool
workers), so every simulated path is one distinct scripted value whichever worker draws it; which iteration index gets
which draw is decided by the pool (the oracle sigma of Model/McStdFull.v), and is observed through the spot statistics."""
import time

import numpy as np

import mcscript

SLOT = 23     # the counter used by this check (the multilevel checks use the low slots, one per level)


class ScriptedProcessMP(mcscript.ScriptedProcess):
    def reset(self):
        mcscript.MP_COUNTERS[SLOT].value = 0

    def drawn(self):
        return mcscript.MP_COUNTERS[SLOT].value

    def simulate_one_path(self):
        from rpylib.montecarlo.path import StochasticJumpPath
        c = mcscript.MP_COUNTERS[SLOT]
        with c.get_lock():
            k = c.value
            c.value = k + 1
        time.sleep(0.0004 * ((k * 7) % 3))      # uneven work, so that the pool's chunks finish out of order now and then
        v = self.values[k]
        return StochasticJumpPath(jump_times=np.array([0.0, 1.0]), diffusion_path=np.array([0.0, v]), jump_path=np.zeros(2))


class TaggedProcessMP(ScriptedProcessMP):
    """wave 8 (audit5a A5): a TWO-dimensional scripted process.  Coordinate 0 of the path is the scripted value the payoff and the
    controls read, coordinate 1 is the DRAW NUMBER k taken from the shared-memory counter.  With the spot statistics on, row `it` of
    the spot array is (value, k): the assignment sigma(it) = k is read from the tag column, which no payoff / control / price reads,
    so the scripted values need not be distinct and the spot VALUE column becomes a compared quantity (model: path(sigma it))
    instead of the source of sigma.  Works in the single-process loop too (the counter lives in the parent then)."""

    def __init__(self, values, df=1.0):
        super().__init__(values, df=df, dimension=2)
        self.model.models = [object(), object()]     # Engine.initialisation asks model.models for densities when dimension > 1: none

    def simulate_one_path(self):
        from rpylib.montecarlo.path import StochasticJumpPath
        c = mcscript.MP_COUNTERS[SLOT]
        with c.get_lock():
            k = c.value
            c.value = k + 1
        time.sleep(0.0004 * ((k * 7) % 3))
        v = self.values[k]
        return StochasticJumpPath(jump_times=np.array([0.0, 1.0]), diffusion_path=np.array([[0.0, v], [0.0, float(k)]]),
                                  jump_path=np.zeros((2, 2)))


def first_coordinate(f):
    """payoff / control function of the scripted value only (coordinate 0 of the tagged 2-d spot)"""
    return lambda x: f(x[0])


def split_tagged_spot(spot, n):
    """(values column as an (n, 1) array, sigma as a list of ints) or (None, None) when the array is not n x 2 with integral tags"""
    spot = np.asarray(spot)
    if spot.shape != (n, 2) or any(float(t) != int(t) or t < 0 for t in spot[:, 1]):
        return None, None
    return spot[:, :1].copy(), [int(t) for t in spot[:, 1]]

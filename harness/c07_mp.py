"""C07 -- scripted standard-engine process for the MULTI-PROCESS branch of Engine.price (standard/engine.py:127-149).
The path values are handed out through a shared-memory counter (mcscript.MP_COUNTERS, inherited by the forked pool
workers), so every simulated path is one distinct scripted value whichever worker draws it; which iteration index gets
which draw is decided by the pool (the oracle sigma of Model/McStdFull.v), and is observed through the spot statistics."""
import time

import numpy as np

import mcscript

SLOT = 23     # the counter used by this check (the multilevel checks use the low slots, one per level)


class ScriptedProcessMP(mcscript.ScriptedProcess):
    def reset(self):
        mcscript.MP_COUNTERS[SLOT].value = 0

    def drawn(self):
        return mcscript.MP_COUNTERS[SLOT].value

    def simulate_one_path(self):
        from rpylib.montecarlo.path import StochasticJumpPath
        c = mcscript.MP_COUNTERS[SLOT]
        with c.get_lock():
            k = c.value
            c.value = k + 1
        time.sleep(0.0004 * ((k * 7) % 3))      # uneven work, so that the pool's chunks finish out of order now and then
        v = self.values[k]
        return StochasticJumpPath(jump_times=np.array([0.0, 1.0]), diffusion_path=np.array([0.0, v]), jump_path=np.zeros(2))

"""C13 (wave 6): pass-through recorders around one run of rpylib.grid.spatial.compute_right_axis / compute_left_axis.

Nothing is altered: scipy.optimize.root_scalar is called as the code calls it and its result (or exception) is passed on;
levy_measure.integrate is the measure's own.  What is recorded is what Model/ProbStepLoop.v takes as ORACLES:
  roots : [(bracket end the search starts from, root | None if the call raised)]       in call order
  tests : [(middle_point, p_left < minimum_probability_step / 2)]                      one per loop iteration
plus the returned half axis and a summary of the branches taken."""
import math

import numpy as np
import scipy.optimize


class _Measure:
    def __init__(self, nu, on_integrate):
        self._nu, self._cb = nu, on_integrate

    def integrate(self, a, b):
        v = self._nu.integrate(a, b)
        self._cb(a, b, v)
        return v


def record(side: str, nu, h: float, p: float) -> dict:
    import rpylib.grid.spatial as S
    right = side == "right"
    roots, mids = [], []

    def on_integrate(a, b, v):
        # the loop's own call: integrate(h/2, middle_point) resp. integrate(middle_point, -h/2); the root search's calls start
        # at a state >= h (end at a state <= -h), the two intensity calls have an infinite bound
        if right and a == h / 2 and math.isfinite(b):
            mids.append((float(b), float(v)))
        if not right and b == -h / 2 and math.isfinite(a):
            mids.append((float(a), float(v)))

    real = scipy.optimize.root_scalar

    def root_scalar(f, *a, **kw):
        br = kw["bracket"]
        key = float(br[0] if right else br[1])
        try:
            sol = real(f, *a, **kw)
        except BaseException:
            roots.append((key, None))
            raise
        roots.append((key, float(sol.root)))
        return sol

    scipy.optimize.root_scalar = root_scalar
    try:
        fn = S.compute_right_axis if right else S.compute_left_axis
        axis = fn(h=h, levy_measure=_Measure(nu, on_integrate), minimum_probability_step=p)
    finally:
        scipy.optimize.root_scalar = real
    # the exhaustion test, recomputed with the code's own float expression from the recorded integral
    intensity = nu.integrate(-np.inf, -h / 2) + nu.integrate(h / 2, np.inf)
    side_intensity = nu.integrate(h / 2, np.inf) if right else nu.integrate(-np.inf, -h / 2)
    tests = [(m, bool((side_intensity - v) / intensity < p / 2)) for m, v in mids]
    n_ok = sum(1 for _, r in roots if r is not None)
    n_raise = len(roots) - n_ok
    branches = (f"{'regular' if n_ok >= 2 else 'no-regular'}+{'except' if n_raise else 'no-except'}"
                f"+{'first-ok-second-raised' if n_raise and any(r is not None and (k2, None) in roots for (k, r) in roots for k2 in [r]) else 'plain'}")
    beyond = all(r is None or (r > k if right else r < k) for k, r in roots)
    return {"axis": [float(x) for x in axis], "roots": roots, "tests": tests, "branches": branches, "roots_beyond": beyond}

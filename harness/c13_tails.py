"""C13 helper: tail masses of the Levy measures of /repo's model families computed INDEPENDENTLY of /repo (closed forms
evaluated with mpmath, 40 digits), used by the promised-tail-probability monitor of harness/props/C13.py.

    tail(spec, +1, a) = nu([a, inf)),   tail(spec, -1, a) = nu((-inf, -a])      (a > 0)
    coverage(spec, h, l, r) = (nu([l, -h/2]) / nu((-inf, -h/2]),  nu([h/2, r]) / nu([h/2, inf)))

  CGMY(c,g,m,y):  density c e^{-m x}/x^{1+y} (x>0), c e^{-g|x|}/|x|^{1+y} (x<0):  int_a^inf = c rate^y Gamma(-y, rate a)
  VG(sigma,nu,theta): CGMY with y = 0, c = 1/nu, rates lambda_p (x>0), lambda_m (x<0):  c E1(rate a)
  HEM(p,eta1,eta2,intensity): lambda p e^{-eta1 a} (right), lambda (1-p) e^{-eta2 a} (left)
  MERTON(mu_j,sigma_j,intensity): lambda * Normal(mu_j, sigma_j) tail
"""
import mpmath as mp

DPS = 40


def tail(spec: dict, side: int, a) -> "mp.mpf":
    fam, kw = spec["family"], spec["kwargs"]
    with mp.workdps(DPS):
        a = mp.mpf(a)
        if fam == "CGMY":
            rate = mp.mpf(kw["m"] if side > 0 else kw["g"])
            y = mp.mpf(kw["y"])
            return mp.mpf(kw["c"]) * rate ** y * mp.gammainc(-y, rate * a)
        if fam == "VG":
            sigma2 = mp.mpf(kw["sigma"]) ** 2
            nu, theta = mp.mpf(kw["nu"]), mp.mpf(kw["theta"])
            lam_p = mp.sqrt(theta ** 2 + 2 * sigma2 / nu) / sigma2 - theta / sigma2
            lam_m = lam_p + 2 * theta / sigma2
            return mp.e1((lam_p if side > 0 else lam_m) * a) / nu
        if fam == "HEM":
            lam, p = mp.mpf(kw["intensity"]), mp.mpf(kw["p"])
            return lam * p * mp.exp(-mp.mpf(kw["eta1"]) * a) if side > 0 else lam * (1 - p) * mp.exp(-mp.mpf(kw["eta2"]) * a)
        if fam == "MERTON":
            lam, mu, sj = mp.mpf(kw["intensity"]), mp.mpf(kw["mu_j"]), mp.mpf(kw["sigma_j"])
            z = (a - mu) / (sj * mp.sqrt(2)) if side > 0 else (a + mu) / (sj * mp.sqrt(2))
            return lam * mp.erfc(z) / 2
    raise KeyError(fam)


def supported(spec: dict) -> bool:
    return spec.get("family") in ("CGMY", "VG", "HEM", "MERTON")


def coverage(spec: dict, h: float, l: float, r: float):
    """(left, right) fraction of the jump mass beyond the first cell boundary -/+h/2 that lies inside [l, r]"""
    with mp.workdps(DPS):
        tl, tr = tail(spec, -1, mp.mpf(h) / 2), tail(spec, +1, mp.mpf(h) / 2)
        return (tl - tail(spec, -1, -mp.mpf(l))) / tl, (tr - tail(spec, +1, mp.mpf(r))) / tr

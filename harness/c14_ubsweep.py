"""C14 helper: complete sweep of the brackets upper_bound_a_n gets from the float guesses of inv_guess_a.

coq/Proofs/C14_Hyperbolic.upper_bound_a_n_spec is conditional on ub_bracket_ok (the bracket the three guesses
inv_guess_a(max(0, z - delta)), inv_guess_a(z), inv_guess_a(z + delta) select contains the answer).  This module records
the three guesses the implementation really makes for every z = 0..N (the real inv_guess_a runs; it is wrapped, never replaced),
and generates the Coq file that checks the whole table with the boolean checker of coq/Proofs/C14_UbSweep.v and instantiates
ub_table_spec, so that the conclusion holds unconditionally for all 0 <= z <= N (bound in the statement).
"""
from __future__ import annotations

from rpylib.numerical import numbers

from common import zlit


class GuessRecorder:
    """Context manager: wraps rpylib.numerical.numbers.inv_guess_a (upper_bound_a_n looks the name up in the module globals at call
    time) so that the integer result of every call is appended to a list.  The real function computes the result; it is restored
    on exit."""

    def __init__(self):
        self._real = None
        self._seen: list[int] = []

    def __enter__(self):
        if self._real is not None:
            raise RuntimeError("GuessRecorder is not re-entrant")
        real = numbers.inv_guess_a
        seen = self._seen

        def inv_guess_a(c):
            r = real(c)
            seen.append(int(r))
            return r

        inv_guess_a.__wrapped__ = real
        self._real = real
        self._wrapper = inv_guess_a
        numbers.inv_guess_a = inv_guess_a
        return self

    def __exit__(self, *exc):
        if numbers.inv_guess_a is self._wrapper:
            numbers.inv_guess_a = self._real
        self._real = None
        return False

    def take(self) -> list[int]:
        """the results recorded since the last take (and forget them)"""
        out = list(self._seen)
        self._seen.clear()
        return out


def record_table(N: int) -> list[tuple[int, int, int, int]]:
    """rows (z, n_low_bound, n_guess, n_high_bound) of numbers.upper_bound_a_n(z) for z = 0..N (z = 0 returns before guessing:
    (0, 0, 0, 0))"""
    rows = []
    with GuessRecorder() as rec:
        for z in range(int(N) + 1):
            rec.take()
            numbers.upper_bound_a_n(z)
            g = rec.take()
            if z == 0:
                if g:
                    raise ValueError(f"upper_bound_a_n(0) made {len(g)} guesses, expected none")
                rows.append((0, 0, 0, 0))
                continue
            if len(g) != 3:
                raise ValueError(f"upper_bound_a_n({z}) made {len(g)} guesses {g}, expected 3")
            rows.append((z, g[0], g[1], g[2]))
    return rows


def first_invalid(rows):
    """oracle on the implementation (its own a_n): the first row whose bracket does not contain the answer, i.e. violates
    0 <= g  and  (z < a_n(g) -> 0 <= lo and a_n(lo) <= z)  and  (a_n(g) < z -> z < a_n(hi)); None when all are valid"""
    a_n = numbers.a_n
    for row in rows:
        z, lo, g, hi = row
        if g < 0:
            return row
        ag = a_n(g)
        if z < ag:
            if lo < 0 or a_n(lo) > z:
                return row
        elif ag < z:
            if hi < 0 or not z < a_n(hi):     # a_n of a negative number raises in Python; the Coq a_n is 0 there (< z as well)
                return row
    return None


SWEEP_HEADER = ("From Coq Require Import ZArith List Bool.\n"
                "From RV Require Import Model.Pairing Model.Hyperbolic Proofs.C14_Hyperbolic Proofs.C14_UbSweep.\n"
                "Import ListNotations.\nOpen Scope Z_scope.\n")


SWEEP_CHUNK = 4000      # rows per list literal: one literal of ~10^5 elements overflows coqc's stack


def sweep_text(rows, N: int, name: str = "impl") -> str:
    """Coq file: the recorded table (literal, in chunks of SWEEP_CHUNK rows joined with ++), the checker evaluated on it (the memoising
    checker ub_table_ok_fast, proved to imply ub_table_ok; one VM evaluation, at Qed), ub_table_spec instantiated"""
    lits = [f"({zlit(z)}, {zlit(lo)}, {zlit(g)}, {zlit(hi)})" for z, lo, g, hi in rows]
    parts, names = [SWEEP_HEADER], []
    for c in range(0, max(len(lits), 1), SWEEP_CHUNK):
        chunk = lits[c:c + SWEEP_CHUNK]
        body = ";\n  ".join("; ".join(chunk[i:i + 8]) for i in range(0, len(chunk), 8))
        names.append(f"{name}_table_{c // SWEEP_CHUNK}")
        parts.append(f"Definition {names[-1]} : list (Z*Z*Z*Z) := [\n  {body}\n].\n")
    n = zlit(N)
    parts.append(
        f"Definition {name}_table : list (Z*Z*Z*Z) := {' ++ '.join(names)}.\n"
        f"Lemma {name}_table_ok : ub_table_ok {n} {name}_table = true.\n"
        f"Proof. apply ub_table_ok_fast_sound. vm_cast_no_check (eq_refl true). Qed.\n"
        f"Theorem {name}_bracket_valid : forall z, 0 <= z <= {n} ->\n"
        f"  exists lo g hi, In (z, lo, g, hi) {name}_table /\\ ub_bracket_ok z lo g hi /\\\n"
        f"    let n := upper_bound_a_n z lo g hi in 1 <= n /\\ a_n (n - 1) <= z < a_n n.\n"
        f"Proof. exact (ub_table_spec {n} {name}_table {name}_table_ok). Qed.\n"
        f"Print Assumptions {name}_bracket_valid.\n")
    return "".join(parts)

"""C17, wave 8b (audit5b B11 / top-10 #10): the COMPOSITION Product(Performances, Rainbow([1, 0, ..., 0], K)) against
Product(MaximumOfPerformances, Vanilla(K)) on real objects, both representations, each pair of objects reused over 3 paths.

Performances._value_log calls np.exp, MaximumOfPerformances._value_log calls math.exp: two float functions that differ by one ulp on
about 5% of the arguments.  The model side therefore gets TWO tables (et = what np.exp returned, mt = what math.exp returned) and the
underlying values are compared EXACTLY under LOG (the value is the table entry) -- a model with one exponential for both classes fails
on every case where the two differ (the first case is the auditor's witness, where they do).

Implementation-only oracle (theorems C17_rainbow_on_performances_is_vanilla_on_max_identity / _vs_vanilla_on_max_log):
  identity representation: the two product values are EQUAL as floats (==) for arbitrary, non-dyadic spots / paths / strikes -- the
      weights are 0 and 1, so sum(w * sorted) is the maximum exactly and both sides round the same subtraction and product;
  LOG representation: |v_rainbow - v_vanilla| <= |N| (|np.exp(M) - math.exp(M)| + 2^-51 max(|a - K|, |b - K|)) (the bound of the theorem
      plus the rounding of u - K and N * .), and |np.exp(M) - math.exp(M)| <= 2 ulp (each is within one ulp of exp)."""
import math
from fractions import Fraction

from common import qlit, lst, blit, natlit
import c17_exotic as X

TOL = X.TOL

HEADER_C = X.HEADER_X + """
Inductive ccase :=
| CCompose (lg : bool) (et mt lt : list (Q * Q)) (eps k nt : Q) (n : nat) (spots : list Q) (path : list (list Q))
           (uR : list Q) (uV : Q) (eR eV tolu tolv : Q).
Definition c_check (c : ccase) : bool :=
  match c with
  | CCompose lg et mt lt eps k nt n sp p uR uV eR eV tolu tolv =>
      let perf := perf_value (qlookup_near et) (qlookup lt) lg sp p in
      closel tolu perf uR
      && close tolv (nt * rainbow_eval eps (rev (1 :: repeat 0 n)) k perf) eR      (* Product.__call__ = notional * payoff(underlying): product_call on a vector underlying *)
      && match maxperf_value (qlookup_near mt) (qlookup lt) lg sp p with
         | UFin m => close tolu m uV && close tolv (product_call nt (vanilla_eval eps k) m) eV
         | _ => false
         end
  end.
"""

# the auditor's witness (audit5b B11): spots 100, 100, last log-spots below, K = 1, CALL: 0.31871313749037933 vs 0.31871313749037955
WITNESS_LOG_SPOTS = [4.8818265512257195, 3.5718725266415094]


def _ulps(a, b):
    return abs(a - b) / math.ulp(max(abs(a), abs(b))) if a != b else 0.0


def _pair(spots, k, cp, notional):
    from rpylib.product import payoff as P
    from rpylib.product import underlying as U
    from rpylib.product.product import Product
    ty = P.PayoffType.CALL if cp == 1 else P.PayoffType.PUT
    w = [1.0] + [0.0] * (len(spots) - 1)
    return (Product(U.Performances(spots), P.Rainbow(w, k, ty), 1.0, notional=notional),
            Product(U.MaximumOfPerformances(spots), P.Vanilla(k, ty), 1.0, notional=notional))


def _value(pr, pv, lg, times, arr):
    import numpy as np
    pr.update(X.rep_enum(lg))
    pv.update(X.rep_enum(lg))
    u_r = np.asarray(pr.underlying_value(times, arr.copy(), arr.copy()), dtype=float)
    u_v = float(pv.underlying_value(times, arr.copy(), arr.copy()))
    return u_r, u_v, float(pr(u_r)), float(pv(u_v))


def _oracle(res, lg, spots, k, cp, notional, arr, u_r, u_v, v_r, v_v):
    a = float(max(u_r))
    rp = {"kind": "compose", "log": lg, "spots": list(map(float, spots)), "strike": k, "cp": cp, "notional": notional, "path": arr.tolist(),
          "performances": u_r.tolist(), "max_of_performances": u_v, "rainbow_product": v_r, "vanilla_product": v_v}
    if not lg:
        if v_r != v_v or a != u_v:
            res.violation("identity representation: Product(Performances, Rainbow([1,0,..,0], K)) != Product(MaximumOfPerformances, Vanilla(K)) as floats", rp)
        return
    ul = _ulps(a, u_v)
    res.bump("compose_log_npexp_vs_mathexp_ulps", str(int(round(ul))))
    res.bump("compose_log_products", "equal" if v_r == v_v else "differ")
    bound = abs(notional) * (abs(a - u_v) + 2.0 ** -51 * max(abs(a - k), abs(u_v - k)))
    if ul > 2 or abs(v_r - v_v) > bound:
        res.violation("LOG representation: Product(Performances, Rainbow([1,0,..,0], K)) and Product(MaximumOfPerformances, Vanilla(K)) differ by more than "
                      "|N| (|np.exp(M) - math.exp(M)| + rounding), or np.exp and math.exp are more than 2 ulp apart at the maximal log-performance",
                      {**rp, "ulps": ul, "bound": bound})


def _separated(keys):
    ks = sorted(set(keys))
    return all(b - a > 2.0 ** -28 for a, b in zip(ks, ks[1:]))


def cases(res, rng, tier):
    """-> list of ccase literals"""
    import numpy as np
    out = []

    def one(it, step, pr, pv, spots, k, cp, notional, lg, spot_path, arr, exact_ok):
        d = len(spots)
        times = np.array([float(j) for j in range(arr.shape[1])])
        u_r, u_v, v_r, v_v = _value(pr, pv, lg, times, arr)
        res.count(("compose", it, step, lg, repr(arr.tolist())), nontrivial=step >= 1 and d >= 2, kind="Performances+Rainbow vs MaximumOfPerformances+Vanilla, reused objects")
        res.bump("compose_rep", "LOG" if lg else "identity")
        res.bump("compose_dim", d)
        _oracle(res, lg, spots, k, cp, notional, arr, u_r, u_v, v_r, v_v)
        lt = {float(s): float(l) for s, l in zip(spots, np.log(spots))}
        et, mt = {}, {}
        if lg:
            diffs = arr[..., -1] - np.log(spots)                 # the expression of both _value_log
            for x, e in zip(diffs, np.exp(diffs)):
                et[float(x)] = float(e)
            mt[float(max(diffs))] = math.exp(max(diffs))
            if not _separated(list(et)):
                res.bump("compose_skipped_model_case", "log-performances closer than 2^-28 (table lookup ambiguous)")
                return
        tolu = Fraction(0) if (lg or exact_ok) else TOL           # LOG: the value IS the table entry; identity: float division
        tolv = Fraction(0) if (exact_ok and not lg) else TOL      # u - K and N * . round
        out.append(f"(CCompose {blit(lg)} {X.tbl(et)} {X.tbl(mt)} {X.tbl(lt)} {qlit(cp)} {qlit(k)} {qlit(notional)} {natlit(d - 1)} {X.ql(spots)} "
                   f"{X.ql2(arr)} {X.ql(u_r)} {qlit(u_v)} {qlit(v_r)} {qlit(v_v)} {qlit(tolu)} {qlit(tolv)})")

    # (0) the auditor's witness: np.exp(M) != math.exp(M), the two products differ in the last place
    pr, pv = _pair([100.0, 100.0], 1.0, 1, 1.0)
    arr = np.array([[math.log(100.0), WITNESS_LOG_SPOTS[0]], [math.log(100.0), WITNESS_LOG_SPOTS[1]]])
    one(-1, 0, pr, pv, [100.0, 100.0], 1.0, 1, 1.0, True, np.exp(arr), arr, False)
    u_r, u_v, v_r, v_v = _value(pr, pv, True, np.array([0.0, 1.0]), arr)
    res.bump("compose_witness_B11", f"rainbow {v_r!r} vanilla {v_v!r}")

    # (1) model cases: dyadic spot paths; power-of-two initial spots in one case out of three (identity then exact)
    for it in range(24 if tier == "quick" else 250):
        d = rng.randrange(1, 6)
        pow2 = it % 3 == 0
        spots = [rng.choice([32.0, 64.0, 128.0]) if pow2 else X.dy(rng, 40, 120, 4) for _ in range(d)]
        k, cp, notional = X.dy(rng, 0.5, 1.5, 16), rng.choice([1, -1]), X.dy(rng, 0.25, 4, 4)
        pr, pv = _pair(spots, k, cp, notional)
        for step in range(3):
            lg = rng.random() < 0.6
            n = rng.randrange(1, 5)
            spot_path = np.array([[X.dy(rng, 30, 160, 8) for _ in range(n)] for _ in range(d)])
            arr = np.log(spot_path) if lg else spot_path
            one(it, step, pr, pv, spots, k, cp, notional, lg, spot_path, arr, pow2)

    # (2) implementation only: arbitrary (non-dyadic) floats; identity compared with ==, LOG with the bound
    for it in range(300 if tier == "quick" else 5000):
        d = rng.randrange(1, 6)
        spots = [rng.uniform(10, 200) for _ in range(d)]
        k, cp, notional = rng.uniform(0.3, 2.0), rng.choice([1, -1]), rng.uniform(0.1, 10)
        pr, pv = _pair(spots, k, cp, notional)
        for step in range(2):
            lg = rng.random() < 0.6
            n = rng.randrange(1, 4)
            spot_path = np.array([[rng.uniform(5, 400) for _ in range(n)] for _ in range(d)])
            arr = np.log(spot_path) if lg else spot_path
            times = np.array([float(j) for j in range(n)])
            u_r, u_v, v_r, v_v = _value(pr, pv, lg, times, arr)
            res.count(("compose-float", it, step, lg, repr(arr.tolist())), nontrivial=step >= 1 and d >= 2, kind="Performances+Rainbow vs MaximumOfPerformances+Vanilla, arbitrary floats")
            res.bump("compose_rep", "LOG" if lg else "identity")
            _oracle(res, lg, spots, k, cp, notional, arr, u_r, u_v, v_r, v_v)
    return out

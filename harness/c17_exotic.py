"""C17, wave 5: exact replay of the payoff / underlying classes that nothing else instantiates (Rainbow, CDS, Bond, Cap, Ratchet,
Swaption, FixedCoupon; Mean, Performances, MaximumOfPerformances, NthSpot, Indicators, Spot/Libors on d x n paths, Vanilla /
Forward on the vector of last spots, Barrier.process on a d x n path, NthSpot.imply_from_payoff_underlying through
ControlVariates.initialisation / process) on REAL objects, each object reused for several evaluations with the representation
re-chosen by update() before each one, against Gen/GenC17Exotic.v + Model/PayoffExt.v; plus implementation-only oracles of the
identities proved in Properties/C17.v (C17_rainbow, C17_rates_payoffs, C17_cds, C17_mean_between_extremes)."""
from fractions import Fraction

from common import qlit, lst, blit, natlit

TOL = Fraction(1, 2 ** 40)

HEADER_X = """From Coq Require Import ZArith QArith Qabs List Bool.
From RV Require Import Base.QB Base.Corr Model.PayoffVec Gen.GenC17Payoff Gen.GenC17Exotic Model.Payoff Model.PayoffExt.
Import ListNotations.
Open Scope Q_scope.
Definition close (tol x y : Q) : bool := Qle_bool (Qabs (x - y)) (tol * (1 + Qabs y)).
Fixpoint closel (tol : Q) (a b : list Q) : bool :=
  match a, b with [], [] => true | x :: r, y :: s => close tol x y && closel tol r s | _, _ => false end.
Definition closeu (tol : Q) (a b : uval) : bool :=
  match a, b with UFin x, UFin y => close tol x y | UInf, UInf => true | UErr, UErr => true | _, _ => false end.
(* np.exp / np.log as data; the argument the code hands to exp may be a ROUNDED difference (path - log_spots): nearest key within 2^-30 *)
Fixpoint qlookup_near (tbl : list (Q * Q)) (x : Q) : Q :=
  match tbl with [] => 0 | (k, v) :: r => if Qle_bool (Qabs (k - x)) (1 # 1073741824) then v else qlookup_near r x end.
Inductive xcase :=
| XFixed (c u e : Q)
| XRainbow (eps : Q) (wflip : list Q) (k : Q) (u : list Q) (e : Q)
| XBond (deltas : list Q) (factor : Q) (L : list Q) (e tol : Q)
| XCap (deltas : list Q) (strike factor : Q) (L : list Q) (e tol : Q)
| XSwaption (eps : Q) (deltas : list Q) (strike factor : Q) (L : list Q) (e tol : Q)
| XRatchet (deltas : list Q) (gearing margin spread incr first : Q) (L : list Q) (e tol : Q)
| XCds (R s T r dfT : Q) (tbl : list (Q * Q)) (tau : uval) (e tol : Q).
Definition x_check (c : xcase) : bool :=
  match c with
  | XFixed c u e => Qeq_bool (fixedcoupon_eval c u) e
  | XRainbow eps w k u e => Qeq_bool (rainbow_eval eps w k u) e
  | XBond d f L e tol => close tol (bond_eval d f L) e
  | XCap d k f L e tol => close tol (cap_eval d k f L) e
  | XSwaption eps d k f L e tol => close tol (swaption_eval eps d k f L) e
  | XRatchet d g m s i f L e tol => close tol (ratchet_eval d g m s i f L) e
  | XCds R s T r dfT tbl tau e tol => match cds_uval R s T r dfT (qlookup tbl) tau with Some v => close tol v e | None => false end
  end.
Inductive ucase :=
| VSpot (lg : bool) (et : list (Q * Q)) (path : list (list Q)) (e : list Q) (tol : Q)
| VMean (lg : bool) (et : list (Q * Q)) (path : list (list Q)) (e : uval) (tol : Q)
| VPerf (lg : bool) (et lt : list (Q * Q)) (spots : list Q) (path : list (list Q)) (e : list Q) (tol : Q)
| VMaxPerf (lg : bool) (et lt : list (Q * Q)) (spots : list Q) (path : list (list Q)) (e : uval) (tol : Q)
| VNthSpot (lg : bool) (et : list (Q * Q)) (k : nat) (path : list (list Q)) (e : uval) (tol : Q)
| VIndic (lg : bool) (et : list (Q * Q)) (th : list Q) (path : list (list Q)) (e : Q)
| VVanilla (lg : bool) (et : list (Q * Q)) (cp k n : Q) (path : list (list Q)) (e : list Q) (tol : Q)
| VForward (lg : bool) (et : list (Q * Q)) (k n : Q) (path : list (list Q)) (e : list Q) (tol : Q)
| VBarrier (lg : bool) (et : list (Q * Q)) (down : bool) (b : Q) (path : list (list Q)) (e : bool)
| VImplied (lg : bool) (et : list (Q * Q)) (k : nat) (strike n : Q) (path : list (list Q)) (e tol : Q).
Definition u_check (c : ucase) : bool :=
  match c with
  | VSpot lg et p e tol => closel tol (spot_vec (qlookup et) lg p) e
  | VMean lg et p e tol => closeu tol (mean_uval (qlookup et) lg p) e
  | VPerf lg et lt sp p e tol => closel tol (perf_value (qlookup_near et) (qlookup lt) lg sp p) e
  | VMaxPerf lg et lt sp p e tol => closeu tol (maxperf_value (qlookup_near et) (qlookup lt) lg sp p) e
  | VNthSpot lg et k p e tol => closeu tol (nthspot_value (qlookup et) lg k p) e
  | VIndic lg et th p e => Qeq_bool (indicators_value (qlookup et) lg th p) e
  | VVanilla lg et cp k n p e tol => closel tol (map (product_call n (vanilla_eval cp k)) (spot_vec (qlookup et) lg p)) e
  | VForward lg et k n p e tol => closel tol (map (product_call n (forward_eval k)) (spot_vec (qlookup et) lg p)) e
  | VBarrier lg et down b p e => Bool.eqb (crosses2 down b (if lg then map (map (qlookup et)) p else p)) e
  | VImplied lg et k strike n p e tol =>
      match nthspot_implied k (spot_vec (qlookup et) lg p) with
      | UFin u => close tol (product_call n (forward_eval strike) u) e
      | _ => false
      end
  end.
"""


def ql(xs):
    return lst([qlit(float(x)) for x in xs])


def ql2(rows):
    return lst([ql(r) for r in rows])


def tbl(d):
    return lst([f"({qlit(k)}, {qlit(v)})" for k, v in d.items()])


def dy(rng, lo, hi, den):
    return rng.randrange(int(lo * den), int(hi * den) + 1) / den


def uv_lit(v):
    import math
    v = float(v)
    if v != v:
        return "UErr"
    return "UInf" if math.isinf(v) else f"(UFin {qlit(v)})"


def rep_enum(lg):
    from rpylib.process.process import ProcessRepresentation as PR
    return PR.LOG if lg else PR.IDENDITY


def payoff_cases(res, rng, tier):
    """-> list of xcase literals; every payoff object is evaluated 3 times (reuse), process() called in between"""
    import numpy as np
    from rpylib.product import payoff as P
    cases = []
    n_it = 30 if tier == "quick" else 300

    def viol(what, rp):
        res.violation(what, {"kind": "exotic-payoff", **rp})

    for it in range(n_it):
        d = rng.randrange(1, 5)
        deltas = np.array([rng.choice([0.5, 0.25, 1.0]) for _ in range(d)])
        today = np.zeros(d) if it % 2 == 0 else np.array([dy(rng, 0, 0.0625, 256) for _ in range(d)])
        exact = it % 2 == 0
        tol = Fraction(0) if exact else TOL
        strike = dy(rng, 0, 0.0625, 256)
        bond, cap = P.Bond(today, deltas), P.Cap(today, deltas, strike)
        swp = {1: P.Swaption(today, deltas, strike, P.SwaptionType.PAYER), -1: P.Swaption(today, deltas, strike, P.SwaptionType.RECEIVER)}
        rat_par = (rng.choice([1.0, 0.5]), dy(rng, 0, 0.03125, 256), dy(rng, 0, 0.03125, 256), rng.choice([0.0, 1 / 1024, 1 / 256]), dy(rng, 0, 0.0625, 256))
        rat = P.Ratchet(deltas, *rat_par)
        # the bond is worth 1 on today's rates (C17_rates_payoffs)
        b0 = float(bond.evaluate(today))
        res.count(("bond0", it), kind="Bond at inception")
        if abs(b0 - 1.0) > 1e-12:
            viol("Bond.evaluate on today's rates is not 1", {"cls": "Bond", "deltas": deltas.tolist(), "rates": today.tolist(), "got": b0})
        for step in range(3):
            L = np.array([dy(rng, 0, 0.0625, 256) for _ in range(d)])
            for o in (bond, cap, swp[1], swp[-1], rat):
                o.process(None, L)            # no-op for these classes; must not change anything
            vb, vc = float(bond.evaluate(L)), float(cap.evaluate(L))
            vs = {e: float(swp[e].evaluate(L)) for e in (1, -1)}
            vr = float(rat.evaluate(L))
            res.count(("rates", it, step, tuple(L.tolist())), nontrivial=step >= 1, kind="Bond/Cap/Swaption/Ratchet reused object")
            res.bump("exotic_rates_dim", d)
            if vc < 0 or vs[1] < 0 or vs[-1] < 0 or vb <= 0:
                viol("a cap / swaption is negative or a bond non-positive on positive accruals",
                     {"cls": "rates", "deltas": deltas.tolist(), "today": today.tolist(), "strike": strike, "rates": L.tolist(), "bond": vb, "cap": vc, "swaptions": vs})
            if np.all(L <= strike) and vc != 0.0:
                viol("Cap is not 0 although no rate exceeds the strike", {"cls": "Cap", "deltas": deltas.tolist(), "strike": strike, "rates": L.tolist(), "got": vc})
            aux = np.cumprod(1 + deltas * L)
            swap = (float(aux[-1]) - 1 - strike * float(np.sum(deltas * aux[::-1]))) * float(swp[1]._factor)
            if abs((vs[1] - vs[-1]) - swap) > 1e-12 * (1 + abs(swap)):
                viol("payer swaption - receiver swaption != factor * payer swap", {"cls": "Swaption", "deltas": deltas.tolist(), "strike": strike, "rates": L.tolist(), "payer": vs[1], "receiver": vs[-1], "swap": swap})
            dl, Ll = ql(deltas), ql(L)
            cases.append(f"(XBond {dl} {qlit(float(bond._factor))} {Ll} {qlit(vb)} {qlit(tol)})")
            cases.append(f"(XCap {dl} {qlit(strike)} {qlit(float(cap._factor))} {Ll} {qlit(vc)} {qlit(tol)})")
            for e in (1, -1):
                cases.append(f"(XSwaption {qlit(e)} {dl} {qlit(strike)} {qlit(float(swp[e]._factor))} {Ll} {qlit(vs[e])} {qlit(tol)})")
            cases.append(f"(XRatchet {dl} {' '.join(qlit(x) for x in rat_par)} {Ll} {qlit(vr)} {qlit(TOL)})")
        # Rainbow: dyadic weights summing to 1, dyadic performances -> exact
        w = rng.choice([[0.5, 0.25, 0.25], [1.0, 0.0, 0.0], [0.25, 0.25, 0.25, 0.25], [0.5, 0.5], [0.0, 0.0, 1.0], [0.75, 0.125, 0.125]])
        k = dy(rng, 0.5, 1.5, 16)
        rb = {1: P.Rainbow(w, k, P.PayoffType.CALL), -1: P.Rainbow(w, k, P.PayoffType.PUT)}
        for step in range(3):
            u = np.array([dy(rng, 0.25, 2, 16) for _ in w])
            v = {e: float(rb[e].evaluate(u)) for e in (1, -1)}
            vperm = float(rb[1].evaluate(np.array(rng.sample(u.tolist(), len(w)))))
            wavg = sum(a * b for a, b in zip(reversed(w), sorted(u.tolist())))
            res.count(("rainbow", it, step, tuple(u.tolist())), nontrivial=len(set(u.tolist())) > 1, kind="Rainbow reused object")
            if v[1] - v[-1] != wavg - k or v[1] != vperm or not (min(u) <= wavg <= max(u)):
                viol("Rainbow: call - put != weighted sorted performances - strike, or the value depends on the order of the performances",
                     {"cls": "Rainbow", "weights": w, "strike": k, "performances": u.tolist(), "call": v[1], "put": v[-1], "permuted": vperm})
            for e in (1, -1):
                cases.append(f"(XRainbow {qlit(e)} {ql(list(reversed(w)))} {qlit(k)} {ql(u)} {qlit(v[e])})")
        # FixedCoupon
        fc = P.FixedCoupon(dy(rng, 0, 1, 64))
        for step in range(2):
            u = dy(rng, 50, 150, 8)
            cases.append(f"(XFixed {qlit(fc.coupon)} {qlit(u)} {qlit(float(fc.evaluate(u)))})")
        # CDS with the discounting function exp(-rate t); np.inf, before, at and after maturity
        rate, T = rng.choice([0.03125, 0.0625, 0.015625]), rng.choice([2.0, 5.0, 3.5])
        calls = {}

        def df(t, rate=rate, calls=calls):
            v = float(np.exp(-rate * t))
            calls[float(t)] = v
            return v

        R, s = rng.choice([0.25, 0.5, 0.375]), dy(rng, 0, 0.0625, 1024)
        cds = P.CDS(R, s, T, df)
        v_inf = float(cds.evaluate(float("inf")))
        for step, tau in enumerate([float("inf"), dy(rng, 0.125, T, 8), T, T + dy(rng, 0.125, 4, 8), dy(rng, 0.125, T, 8)]):
            v = float(cds.evaluate(tau))
            res.count(("cds", it, step, tau), nontrivial=tau < T, kind="CDS reused object")
            res.bump("cds_default_time", "inf" if tau == float("inf") else ("<= T" if tau <= T else "> T"))
            if (tau > T and v != v_inf) or (tau <= T and v < v_inf):
                viol("CDS: payoff after maturity differs from the no-default payoff, or a default before maturity is worse than no default",
                     {"cls": "CDS", "recovery": R, "spread": s, "maturity": T, "rate": rate, "default_time": tau, "got": v, "no_default": v_inf})
            cases.append(f"(XCds {qlit(R)} {qlit(s)} {qlit(T)} {qlit(float(cds._r))} {qlit(float(cds._df_T))} {tbl(calls)} {uv_lit(tau)} {qlit(v)} {qlit(TOL)})")
    return cases


def underlying_cases(res, rng, tier):
    """-> list of ucase literals: d x n paths, one object per class reused over 3 paths with update(rep) before each valuation"""
    import numpy as np
    from rpylib.product import payoff as P
    from rpylib.product import underlying as U
    from rpylib.product.product import Product, ControlVariates
    cases = []
    for it in range(18 if tier == "quick" else 200):
        d = rng.randrange(1, 5)
        pow2 = it % 3 == 0
        spots = [rng.choice([32.0, 64.0, 128.0]) if pow2 else dy(rng, 40, 120, 4) for _ in range(d)]
        th = [dy(rng, 30, 120, 4) if rng.random() < 0.8 else rng.choice([0.0, -1.0]) for _ in range(d)]
        k = rng.randrange(1, d + 1)
        cp, strike, notional = rng.choice([1, -1]), dy(rng, 60, 120, 8), dy(rng, 0.25, 4, 4)
        down, barrier = rng.random() < 0.5, dy(rng, 40, 150, 8) + 1 / 16
        objs = {"spot": U.Spot(), "libors": U.Libors(), "mean": U.Mean(), "perf": U.Performances(spots), "maxperf": U.MaximumOfPerformances(spots),
                "nth": U.NthSpot(k), "ind": U.Indicators(th)}
        pv = Product(U.Spot(), P.Vanilla(strike, P.PayoffType.CALL if cp == 1 else P.PayoffType.PUT), 1.0, notional=notional)
        pf = Product(U.Libors(), P.Forward(strike), 1.0, notional=notional)
        bt = P.BarrierType.DOWN_AND_OUT if down else P.BarrierType.UP_AND_OUT
        pb = Product(U.Spot(), P.Barrier(strike, P.PayoffType.CALL, bt, barrier), 1.0)
        ctrl = Product(U.NthSpot(k), P.Forward(strike), 1.0, notional=notional)
        cv = ControlVariates(products=[ctrl], prices=[0.0])
        lt = {s: float(l) for s, l in zip(spots, np.log(np.array(spots)))}
        for step in range(3):
            lg = rng.random() < 0.5
            n = rng.randrange(1, 6)
            times = np.array([float(j) for j in range(n)])
            spot_path = np.array([[dy(rng, 30, 160, 8) for _ in range(n)] for _ in range(d)])
            if th[0] > 0 and rng.random() < 0.35:
                spot_path[0, -1] = th[0]               # a last spot exactly AT its threshold: the indicator's test is strict
                res.bump("indicator_boundary", "last spot == threshold")
            arr = np.log(spot_path) if lg else spot_path
            et = {}
            if lg:
                for x in arr.ravel():
                    et[float(x)] = float(np.exp(x))
            et_p = dict(et)
            if lg:
                import math
                for x, ls in zip(arr[:, -1], np.log(spots)):
                    et_p[float(x - ls)] = float(np.exp(x - ls))          # Performances: np.exp of the rounded difference
                et_p[float(max(arr[:, -1] - np.log(spots)))] = math.exp(max(arr[:, -1] - np.log(spots)))
            tol, tol_div = (TOL if lg else Fraction(0)), (TOL if (lg or not pow2) else Fraction(0))
            tol_mean = TOL if (lg or d == 3) else Fraction(0)
            for o in objs.values():
                o.update(rep_enum(lg))
            for pr in (pv, pf, pb, ctrl):
                pr.update(rep_enum(lg))
            P2, E, Lb = ql2(arr), tbl(et), blit(lg)
            res.count(("vec-und", it, step, lg, repr(arr.tolist())), nontrivial=step >= 1 and d >= 2, kind="d x n path, reused underlying objects")
            res.bump("vec_dim", d)
            res.bump("vec_rep", "LOG" if lg else "identity")
            val = lambda o: o.value(times, arr.copy(), arr.copy())   # noqa
            sv = np.asarray(val(objs["spot"]), dtype=float)
            cases.append(f"(VSpot {Lb} {E} {P2} {ql(sv)} {qlit(tol)})")
            cases.append(f"(VSpot {Lb} {E} {P2} {ql(np.asarray(val(objs['libors']), dtype=float))} {qlit(tol)})")
            mv = float(val(objs["mean"]))
            cases.append(f"(VMean {Lb} {E} {P2} {uv_lit(mv)} {qlit(tol_mean)})")
            if not (min(spot_path[:, -1]) * (1 - 1e-12) <= mv <= max(spot_path[:, -1]) * (1 + 1e-12)):
                res.violation("Mean underlying outside [min, max] of the last spots", {"kind": "exotic-und", "cls": "Mean", "log": lg, "spot_path": spot_path.tolist(), "got": mv})
            cases.append(f"(VPerf {Lb} {tbl(et_p)} {tbl(lt)} {ql(spots)} {P2} {ql(np.asarray(val(objs['perf']), dtype=float))} {qlit(tol_div)})")
            cases.append(f"(VMaxPerf {Lb} {tbl(et_p)} {tbl(lt)} {ql(spots)} {P2} {uv_lit(float(val(objs['maxperf'])))} {qlit(tol_div)})")
            cases.append(f"(VNthSpot {Lb} {E} {natlit(k - 1)} {P2} {uv_lit(float(val(objs['nth'])))} {qlit(tol)})")
            cases.append(f"(VIndic {Lb} {E} {ql(th)} {P2} {qlit(float(np.asarray(val(objs['ind'])).ravel()[0]))})")
            # products on the vector underlying (Vanilla / Forward broadcast), barrier monitor on all d rows
            uvv = pv.underlying_value(times, arr.copy(), arr.copy())
            cases.append(f"(VVanilla {Lb} {E} {qlit(cp)} {qlit(strike)} {qlit(notional)} {P2} {ql(np.asarray(pv(uvv), dtype=float).ravel())} {qlit(tol)})")
            uvf = pf.underlying_value(times, arr.copy(), arr.copy())
            cases.append(f"(VForward {Lb} {E} {qlit(strike)} {qlit(notional)} {P2} {ql(np.asarray(pf(uvf), dtype=float).ravel())} {qlit(tol)})")
            pb.underlying_value(times, arr.copy(), arr.copy())
            want = bool(np.any(spot_path < barrier)) if down else bool(np.any(spot_path > barrier))
            if bool(pb.payoff.barrier_event) != want and not lg:
                res.violation("Barrier on a (d, n) path: the flag is not 'some entry beyond the barrier'", {"kind": "exotic-und", "cls": "Barrier2d", "path": spot_path.tolist(), "barrier": barrier, "down": down})
            cases.append(f"(VBarrier {Lb} {E} {blit(down)} {qlit(barrier)} {P2} {blit(bool(pb.payoff.barrier_event))})")
            # ControlVariates.initialisation(Spot) installs NthSpot's short cut payoff_underlying[index - 1]; process uses it
            cv.initialisation(U.Spot)
            out = float(np.asarray(cv.process(times, arr.copy(), arr.copy(), sv)).ravel()[0])
            own = float(ctrl(ctrl.underlying_value(times, arr.copy(), arr.copy())))
            if out != own:
                res.violation("NthSpot control next to a Spot product: the implied underlying differs from NthSpot's own value",
                              {"kind": "exotic-und", "cls": "NthSpot-imply", "log": lg, "path": arr.tolist(), "index": k, "inside_control_variates": out, "alone": own})
            cases.append(f"(VImplied {Lb} {E} {natlit(k - 1)} {qlit(strike)} {qlit(notional)} {P2} {qlit(out)} {qlit(tol)})")
    return cases

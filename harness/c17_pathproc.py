"""C17 (wave 6): MCPath.process / MLMCPath.process / MLMCPath.process_l0 with ControlVariates (0-3 control products) driven on REAL
objects through random operation sequences -- product.update, cv.products[i].update, all controls update, cv.initialisation,
path_manager.update, process / process_l0 / process (fine + coarse) -- in ANY order (updates after the initialisation included: F-C17-17, fixed by 09f959e), against the model
sys_run of Model/PathProcess.v; plus the implementation-only oracle of C17_mc_process_pure: after the engine protocol every
processed path gives what fresh objects give."""
from fractions import Fraction

from common import qlit, lst, blit, natlit

HEADER_PP = """From Coq Require Import ZArith QArith List Bool.
From RV Require Import Base.QB Base.Corr Gen.GenC17Payoff Model.Payoff Model.PayoffExt Model.PathProcess.
Import ListNotations.
Open Scope Q_scope.
Definition ppcase := (list (Q * Q) * list (Q * Q) * Q * product * bool * list product * list sop * list (list pathout))%type.
Definition pp_check (c : ppcase) : bool :=
  match c with (et, lt, tol, pr, activate, prods, ops, e) =>
    runouts_eqb tol (snd (sys_run (qlookup et) (qlookup lt) pr activate (sys0 prods) ops)) e end.
"""

TOL = Fraction(1, 2 ** 36)


def _ql(xs):
    return lst([qlit(x) for x in xs])


def cases(res, rng, tier, H):
    """H = the props module (generators / literal helpers are shared with the other C17 cases)"""
    import math
    import numpy as np
    from rpylib.montecarlo.path import MCPath, MLMCPath, StochasticJumpPath
    from rpylib.product.product import ControlVariates
    out_cases = []
    # the recorded witness of F-C17-17 (fixed by 09f959e), always evaluated: initialisation; update(LOG); process
    from rpylib.product import payoff as P_, underlying as U_
    from rpylib.product.product import Product as Product_
    ctrl = Product_(U_.Spot(), P_.Forward(0.0), 1.0)
    cv0 = ControlVariates(products=[ctrl], prices=[0.0])
    cv0.initialisation(U_.DefaultTime)
    ctrl.update(H.rep_enum(True))
    t0, lp = np.array([0.0, 1.0]), np.log(np.array([100.0, 120.0]))
    inside = float(np.asarray(cv0.process(t0, lp, lp, 0.0)).ravel()[0])
    alone = float(ctrl(ctrl.underlying_value(t0, lp, lp)))
    res.count(("cv-stale-capture",), kind="ControlVariates: update() after initialisation")
    if inside != alone:
        res.violation("a Product.update(representation) after ControlVariates.initialisation leaves the control valued in the representation in force at initialisation time",
                      {"kind": "cv-stale-capture", "finding": "F-C17-17", "order": ["initialisation", "update(LOG)", "process"], "spot_path": [100.0, 120.0],
                       "inside_control_variates": inside, "alone": alone})
    for it in range(70 if tier == "quick" else 700):
        level = -H.dy(rng, 0.25, 1.5, 8)
        kinds = [("spot",), ("asian",), ("logspot",), ("dt", level)]
        mspec = {"und": rng.choice(kinds), "pay": H.gen_payoff(rng), "notional": H.dy(rng, 0.25, 8, 4)}
        cspecs = []
        for _ in range(rng.choice([0, 1, 1, 2, 2, 3])):
            pay = H.gen_payoff(rng) if rng.random() < 0.4 else ("barrier", rng.choice([1, -1]), H.dy(rng, 70, 150, 8), rng.random() < 0.5, rng.random() < 0.5, H.dy(rng, 60, 160, 8) + 1 / 16)
            cspecs.append({"und": rng.choice(kinds), "pay": pay, "notional": H.dy(rng, 0.25, 8, 4)})
        activate = rng.random() < 0.5
        main = H.make_product(mspec)
        ctrls = [H.make_product(sp) for sp in cspecs]
        cv = ControlVariates(products=ctrls, prices=[0.0] * len(ctrls))
        mc = MCPath(deterministic_path=None, activate_spot_underlying=activate)
        ml = MLMCPath(deterministic_path=None, activate_spot_underlying=activate)
        # plan: random operations; half of the sequences end with the engine protocol followed by processed paths (oracle)
        plan, cur = [], False
        for _ in range(rng.randrange(3, 9 if tier == "quick" else 14)):
            r = rng.random()
            if r < 0.12:
                cur = rng.random() < 0.5
                plan.append(("um", cur))
            elif r < 0.22 and ctrls:
                plan.append(("uc", rng.randrange(len(ctrls)), rng.random() < 0.5))
            elif r < 0.32:
                plan.append(("ucs", rng.random() < 0.5))
            elif r < 0.45:
                plan.append(("init",))
            elif r < 0.52:
                plan.append(("up", rng.random() < 0.5))
            else:
                plan.append((rng.choice(["p", "p", "l0", "ml"]), cur))
        n_protocol, oracle_lg = None, None
        if it % 2 == 0:
            lg = rng.random() < 0.5
            plan += [("um", lg), ("ucs", lg), ("init",), ("up", lg)]
            if it % 4 == 2:
                # C17_mc_reinitialisation_not_needed: every object switched to the other representation AFTER the initialisation
                lg = not lg
                plan += [("um", lg), ("ucs", lg), ("up", lg)]
            n_protocol, oracle_lg = len(plan), lg
            plan += [(rng.choice(["p", "l0", "ml"]), lg) for _ in range(rng.randrange(2, 4))]
        et, lt, ops_lit, exp_lit, synced_lg = {}, {}, [], [], None

        def gen_leg(n, scale_log):
            """(det, diff, jump, path): all dyadic, path = det + (diff + jump) exactly; the jump path has one drop 4 -> 0.25 so that every
            DefaultTime level in [-1.5, -0.25] is crossed in the identity reading (log ratio -2.77) and in the LOG reading (-3.75)"""
            while True:
                jump = [H.dy(rng, 0.25, 4, 8) for _ in range(n)]
                k = rng.randrange(0, n - 1)
                jump[k], jump[k + 1] = 4.0, 0.25
                lgs = np.log(np.array(jump))
                if all(abs(Fraction(float(lgs[i + 1])) - Fraction(float(lgs[i])) - Fraction(level)) > Fraction(1, 10 ** 9) for i in range(n - 1)):
                    break
            path = H.gen_spot_path(rng, n, scale_log)
            det = [rng.choice([0.0, 0.5, 1.0])] * n
            diff = [p - d - j for p, d, j in zip(path, det, jump)]
            assert all(d + (x + j) == p for p, d, x, j in zip(path, det, diff, jump))
            for v in path:
                et[v] = float(np.exp(np.float64(v)))
            lt[path[-1]] = float(np.log(np.float64(path[-1])))
            for v, l in zip(jump, np.log(np.array(jump, dtype=float))):
                lt[v] = float(l)
            return det, diff, jump, path

        def po_lit(main_v, spot_v, cv_vals):
            sp = f"(Some {qlit(spot_v)})" if spot_v is not None else "None"
            return f"(Build_pathout (OutV {qlit(main_v)}) {sp} {lst(['(OutV ' + qlit(v) + ')' for v in cv_vals])})"

        def fresh_values(lg, times, path, jump):
            vals = []
            for sp in [mspec] + cspecs:
                f = H.make_product(sp)
                f.update(H.rep_enum(lg))
                vals.append(float(f(f.underlying_value(np.array(times), np.array(path), np.array(jump)))))
            return vals

        ok = True
        for k, op in enumerate(plan):
            if op[0] == "um":
                main.update(H.rep_enum(op[1]))
                ops_lit.append(f"(SUpdateMain {blit(op[1])})")
                exp_lit.append("[]")
            elif op[0] == "uc":
                ctrls[op[1]].update(H.rep_enum(op[2]))
                ops_lit.append(f"(SUpdateCtrl {natlit(op[1])} {blit(op[2])})")
                exp_lit.append("[]")
            elif op[0] == "ucs":
                for c in cv.products:
                    c.update(H.rep_enum(op[1]))
                ops_lit.append(f"(SUpdateCtrls {blit(op[1])})")
                exp_lit.append("[]")
            elif op[0] == "init":
                cv.initialisation(type(main.payoff_underlying))
                ops_lit.append("SInit")
                exp_lit.append("[]")
            elif op[0] == "up":
                mc.update(H.rep_enum(op[1]))
                ml.update(H.rep_enum(op[1]))
                ops_lit.append(f"(SUpdatePath {blit(op[1])})")
                exp_lit.append("[]")
            else:
                n = rng.randrange(2, 8)
                times = H.gen_times(rng, n)
                scale_log = op[1] if rng.random() < 0.8 else not op[1]
                legs = [gen_leg(n, scale_log) for _ in range(2 if op[0] == "ml" else 1)]
                det = legs[0][0]
                legs = [(det, [p - d - j for p, d, j in zip(pth, det, jmp)], jmp, pth) for (_, _, jmp, pth) in legs]
                t = np.array(times)
                try:
                    if op[0] == "ml":
                        ml.deterministic_path = lambda tt, det=det: np.array(det)
                        ml.set_to_path(StochasticJumpPath(t, np.array([legs[0][1], legs[1][1]]), np.array([legs[0][2], legs[1][2]])))
                        ml.process(main, cv)
                        pay = [float(ml.payoff[0]), float(ml.payoff[1])]
                        spots = [float(x) for x in np.asarray(ml.spot_underlying).ravel()] if activate else [None, None]
                        o = np.asarray(ml.payoff_control_variates, dtype=float)
                        cvv = [[float(o[i, 0, 0]) for i in range(o.shape[0])], [float(o[i, 0, 1]) for i in range(o.shape[0])]]
                        ops_lit.append(f"(SProcessMLMC {_ql(times)} {_ql(det)} {_ql(legs[0][1])} {_ql(legs[0][2])} {_ql(legs[1][1])} {_ql(legs[1][2])})")
                    else:
                        pm = mc if op[0] == "p" else ml
                        pm.deterministic_path = lambda tt, det=det: np.array(det)
                        pm.set_to_path(StochasticJumpPath(t, np.array(legs[0][1]), np.array(legs[0][2])))
                        if op[0] == "p":
                            pm.process(main, cv)
                            pay = [float(pm.payoff)]
                        else:
                            pm.process_l0(main, cv)
                            pay = [float(pm.payoff[0])]
                            if float(pm.payoff[1]) != 0.0:
                                res.violation("MLMCPath.process_l0: the coarse column of the payoff is not zero", {"kind": "pathproc-l0", "payoff": [float(x) for x in pm.payoff]})
                        spots = [float(pm.spot_underlying)] if activate else [None]
                        cvv = [[float(x) for x in np.asarray(pm.payoff_control_variates, dtype=float).ravel()]]
                        ops_lit.append(f"({'SProcess' if op[0] == 'p' else 'SProcessL0'} {_ql(times)} {_ql(det)} {_ql(legs[0][1])} {_ql(legs[0][2])})")
                except Exception as e:  # noqa
                    res.violation(f"path manager raises {type(e).__name__} on operation {op[0]}", {"kind": "pathproc-raise", "main": mspec, "controls": cspecs, "plan": [list(x) for x in plan[:k + 1]], "error": f"{type(e).__name__}: {e}"})
                    ok = False
                    break
                if not all(math.isfinite(v) for v in pay + [x for row in cvv for x in row] + [s for s in spots if s is not None]):
                    ok = False          # overflow of exp on a spot-scale path handed to an object bound to LOG twice over: outside the rational model
                    res.bump("pathproc_skipped", "non-finite value")
                    break
                exp_lit.append(lst([po_lit(pv, sv, cr) for pv, sv, cr in zip(pay, spots, cvv)]))
                after_protocol = n_protocol is not None and k >= n_protocol
                res.count(("pathproc", it, k, repr(legs)), nontrivial=k >= 1, kind=f"path manager {op[0]} ({len(cspecs)} controls, {('after the engine protocol + later updates' if it % 4 == 2 else 'after the engine protocol') if after_protocol else 'free order'})")
                res.bump("pathproc_controls", len(cspecs))
                if after_protocol:
                    # C17_mc_process_pure on the implementation: fresh objects valued alone give the same numbers
                    for (d_, x_, j_, p_), pv, cr in zip(legs, pay, cvv):
                        want = fresh_values(oracle_lg, times, p_, j_)
                        got = [pv] + cr
                        if len(got) != len(want) or any(abs(g - w) > 1e-9 * max(1.0, abs(w)) for g, w in zip(got, want)):
                            res.violation("after the engine protocol (update, update controls, initialisation" + (", then update of every object to the other representation" if it % 4 == 2 else "")
                                          + ") a processed path does not give what fresh products valued alone give",
                                          {"kind": "pathproc-pure", **({"finding": "F-C17-17"} if it % 4 == 2 else {}), "main": mspec, "controls": cspecs, "plan": [list(x) for x in plan[:k + 1]],
                                           "times": times, "path": p_, "jump_path": j_, "got": got, "fresh": want})
        if not ok or not any(o[0] in ("p", "l0", "ml") for o in plan):
            continue
        prods = lst([f"(Build_product {H.und_lit(sp['und'])} {H.payoff_lit(sp['pay'])} {qlit(sp['notional'])})" for sp in cspecs])
        mlit = f"(Build_product {H.und_lit(mspec['und'])} {H.payoff_lit(mspec['pay'])} {qlit(mspec['notional'])})"
        # exact where every float operation is exact: no object ever bound to LOG and no np.log value entering an arithmetic operation
        exact = not any((o[0] in ("um", "ucs", "up") and o[1]) or (o[0] == "uc" and o[2]) for o in plan) and all(sp["und"][0] != "logspot" for sp in [mspec] + cspecs)
        res.bump("pathproc_comparison", "exact" if exact else "tolerance 2^-36")
        out_cases.append(f"({H.table_lit(et)}, {H.table_lit(lt)}, {qlit(Fraction(0) if exact else TOL)}, {mlit}, {blit(activate)}, {prods}, {lst(ops_lit)}, {lst(exp_lit)})")
    return out_cases

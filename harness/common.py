"""Shared machinery of the /verif checks.

Every check (./check Cxx) goes through `run_property` below:

  1. py2coq regenerates coq/Gen/*.v from /repo's working tree        (tie 1: translator)
  2. make rebuilds whatever depends on them; Properties/Cxx.v is
     re-compiled and its `Print Assumptions` output captured          (theorems re-checked)
  3. hygiene grep (no Admitted/admit/Axiom/Parameter/...)             (fail closed)
  4. the property's correspondence + oracle (harness/props/Cxx.py)    (tie 2: correspondence)
  5. known findings are replayed on the implementation
  6. evidence/Cxx.json is written, VIOLATION lines printed, exit code set
"""
from __future__ import annotations

import fcntl
import hashlib
import json
import os
import re
import subprocess
import sys
import time
from fractions import Fraction
from pathlib import Path

VERIF = Path(__file__).resolve().parent.parent
REPO = Path(os.environ.get("RPYLIB_REPO", "/repo"))
COQ = VERIF / "coq"
BUILD = VERIF / "build"
EVID = VERIF / "evidence"
REPLAYS = VERIF / "replays"
PY = "/venv/bin/python"

KERNEL_TB = [
    "Coq 8.16.1 kernel incl. its vm_compute machine (no native_compute, no -type-in-type, no -impredicative-set)",
    "harness/py2coq.py (Python ast -> Gallina printer, fail-closed) where Gen.* definitions are used",
    "harness/props/*.py correspondence drivers, harness/shims (gmpy2.qdiv -> fractions.Fraction, tqdm -> identity), numpy/scipy/CPython float semantics",
]


def py_env():
    env = dict(os.environ)
    env["PYTHONPATH"] = f"{REPO}:{VERIF / 'harness' / 'shims'}:{VERIF / 'harness'}"
    env["PYTHONHASHSEED"] = "0"
    env["SYMPY_GROUND_TYPES"] = "python"
    env["RPYLIB_VERIF"] = "1"
    env["OMP_NUM_THREADS"] = "1"
    env["OPENBLAS_NUM_THREADS"] = "1"
    return env


# ----------------------------------------------------------------------------- Coq literals
def zlit(n) -> str:
    n = int(n)
    return f"({n})%Z" if n < 0 else f"{n}%Z"


def nlit(n) -> str:
    n = int(n)
    assert n >= 0
    return f"{n}%N"


def natlit(n) -> str:
    n = int(n)
    assert 0 <= n <= 5000, "nat literal too large"
    return f"{n}%nat"


def qlit(x) -> str:
    """exact rational literal; floats are converted exactly (Fraction(float))."""
    fr = Fraction(x)
    return f"(({fr.numerator}) # {fr.denominator})%Q"


def blit(b) -> str:
    return "true" if b else "false"


def lst(items) -> str:
    return "[" + "; ".join(items) + "]"


def tup(items) -> str:
    items = list(items)
    if len(items) == 1:
        return items[0]
    return "(" + ", ".join(items) + ")"


def opt(x, f) -> str:
    return "None" if x is None else f"(Some {f(x)})"


def is_dyadic_exact(x: float, bits: int = 53) -> bool:
    fr = Fraction(x)
    d = fr.denominator
    return d & (d - 1) == 0 and abs(fr.numerator).bit_length() <= bits


# ----------------------------------------------------------------------------- Coq driver
class CoqError(Exception):
    pass


def coqc(vfile: Path, timeout: int = 600, cwd: Path | None = None, stdout_only: bool = False) -> tuple[int, str]:
    cmd = ["timeout", str(timeout), "coqc", "-Q", str(COQ), "RV", str(vfile)]
    p = subprocess.run(cmd, capture_output=True, text=True, cwd=str(cwd or vfile.parent))
    if stdout_only and p.returncode == 0:
        return 0, p.stdout          # warnings go to stderr; Print Assumptions answers to stdout
    return p.returncode, p.stdout + p.stderr


def run_dir(prop: str) -> Path:
    """per-invocation scratch directory: concurrent runs of one check never share generated files"""
    return BUILD / prop / f"run{os.getpid()}"


def coq_eval_file(prop: str, name: str, text: str, timeout: int = 600) -> tuple[int, str]:
    d = run_dir(prop)
    d.mkdir(parents=True, exist_ok=True)
    f = d / f"{name}.v"
    f.write_text(text)
    return coqc(f, timeout=timeout)


_BAD_RE = re.compile(r"bad_(\w+)\s*=\s*(\[[^\]]*\])", re.S)


def _coq_bad_one(prop, name, header, pieces, timeout):
    """pieces: [(label, case_type, check, [literals])] -> {label: [bad indices]} (one coqc run)"""
    parts = [header, "From RV Require Import Base.Corr.", "Import ListNotations.", "Open Scope list_scope."]
    for g, ty, chk, cases in pieces:
        parts.append(f"Definition cases_{g} : list ({ty}) := [\n  " + ";\n  ".join(cases) + "\n].")
        parts.append(f"Definition bad_{g} := Eval vm_compute in bad_indices ({chk}) cases_{g}.")
        parts.append(f"Print bad_{g}.")
    rc, out = coq_eval_file(prop, name, "\n".join(parts) + "\n", timeout=timeout)
    if rc != 0:
        raise CoqError(f"{name}.v does not compile (rc={rc}):\n{out[-3000:]}")
    res = {}
    for m in _BAD_RE.finditer(out):
        res[m.group(1)] = [int(t) for t in re.findall(r"\d+", m.group(2).replace("%N", ""))]
    for g, _, _, _ in pieces:
        if g not in res:
            raise CoqError(f"no result for group {g} in output of {name}.v:\n{out[-2000:]}")
    return res


def coq_bad_indices(prop: str, name: str, header: str, groups: list[tuple[str, str, str, list[str]]],
                    timeout: int = 900, chunk: int = 800, per_file: int = 4000, jobs: int = 10) -> dict[str, list[int]]:
    """groups: (group_name, case_type, check_fun_term, [case literals]).
    Evaluates  bad_indices check cases  by vm_compute and returns {group: indices i where check case_i = false}.
    Long groups are cut into chunks (a list literal of several thousand elements overflows coqc's stack) and
    the chunks are spread over several coqc processes.  Raises CoqError if a file does not compile
    (a broken correspondence)."""
    from concurrent.futures import ThreadPoolExecutor
    pieces = []   # (label, group, offset, ty, chk, cases)
    for g, ty, chk, cases in groups:
        if not cases:
            raise CoqError(f"correspondence group {g} has no case: nothing would be compared (generator or driver problem)")
        for k, off in enumerate(range(0, len(cases), chunk)):
            pieces.append((f"{g}_c{k}", g, off, ty, chk, cases[off:off + chunk]))
    files, cur, cur_n = [], [], 0
    for pc in pieces:
        if cur and cur_n + len(pc[5]) > per_file:
            files.append(cur)
            cur, cur_n = [], 0
        cur.append(pc)
        cur_n += len(pc[5])
    if cur:
        files.append(cur)

    def work(i):
        fl = files[i]
        return _coq_bad_one(prop, f"{name}_{i}" if len(files) > 1 else name, header,
                            [(lab, ty, chk, cs) for lab, _, _, ty, chk, cs in fl], timeout)

    out = {g: [] for g, _, _, _ in groups}
    with ThreadPoolExecutor(max_workers=jobs) as ex:
        results = list(ex.map(work, range(len(files))))
    for fl, r in zip(files, results):
        for lab, g, off, _, _, _ in fl:
            out[g].extend(off + i for i in r[lab])
    for g in out:
        out[g].sort()
    return out


def chunked(xs, n):
    for i in range(0, len(xs), n):
        yield xs[i:i + n]


def parallel_coq_bad(prop, name, header, ty, chk, cases, shard=400, timeout=900, jobs=12):
    """Shard a long case list over several coqc processes; returns sorted bad indices (global)."""
    from concurrent.futures import ThreadPoolExecutor
    if not cases:
        raise CoqError(f"correspondence group {name} has no case: nothing would be compared (generator or driver problem)")
    shards = list(chunked(list(enumerate(cases)), shard))

    def work(k):
        sh = shards[k]
        r = coq_bad_indices(prop, f"{name}_{k}", header, [("s", ty, chk, [c for _, c in sh])], timeout=timeout)
        return [sh[i][0] for i in r["s"]]

    bad = []
    with ThreadPoolExecutor(max_workers=jobs) as ex:
        for r in ex.map(work, range(len(shards))):
            bad.extend(r)
    return sorted(bad), len(shards)


# ----------------------------------------------------------------------------- build / hygiene
FORBIDDEN = re.compile(
    r"\b(Admitted|admit|Axiom|Axioms|Parameter|Parameters|Conjecture|Conjectures|Admit Obligations|"
    r"Unset Guard Checking|Unset Positivity Checking|Unset Universe Checking|bypass_check|"
    r"Guard Checking|Positivity Checking|Universe Checking|type-in-type|impredicative-set|native_compute)\b")


def strip_comments(src: str) -> str:
    out, depth, i = [], 0, 0
    while i < len(src):
        if src.startswith("(*", i):
            depth += 1
            i += 2
        elif src.startswith("*)", i) and depth:
            depth -= 1
            i += 2
        else:
            if depth == 0:
                out.append(src[i])
            i += 1
    return "".join(out)


def hygiene() -> list[str]:
    """Returns offending 'file:line: text' entries; Variable/Hypothesis outside Section also flagged."""
    bad = []
    for f in sorted(COQ.rglob("*.v")):
        src = strip_comments(f.read_text())
        stack = []
        for ln, line in enumerate(src.splitlines(), 1):
            s = line.strip()
            if FORBIDDEN.search(s):
                bad.append(f"{f.relative_to(VERIF)}:{ln}: {s[:100]}")
            m = re.match(r"^(Section|Module(?:\s+Type)?)\s+(\w+)", s)
            if m and ":=" not in s:
                stack.append((m.group(1).split()[0], m.group(2)))
            if re.match(r"^(Variable|Variables|Hypothesis|Hypotheses|Context)\b", s) and not any(k == "Section" for k, _ in stack):
                bad.append(f"{f.relative_to(VERIF)}:{ln}: {s[:100]} (outside Section)")
            m = re.match(r"^End\s+(\w+)\s*\.", s)
            if m and stack and stack[-1][1] == m.group(1):
                stack.pop()
    return bad


class Lock:
    def __enter__(self):
        BUILD.mkdir(exist_ok=True)
        self.f = open(BUILD / ".lock", "w")
        fcntl.flock(self.f, fcntl.LOCK_EX)
        return self

    def __exit__(self, *a):
        fcntl.flock(self.f, fcntl.LOCK_UN)
        self.f.close()


def regen_and_make(targets: list[str], timeout: int = 3000, gen_deps=()) -> tuple[bool, str]:
    """py2coq + make of the given .vo targets (relative to coq/).  Returns (ok, log)."""
    import py2coq
    with Lock():
        log = []
        changed, failures = py2coq.generate_all(REPO, COQ / "Gen", only=set(gen_deps))
        log.append(f"py2coq: regenerated, changed={changed}")
        # generate_all reports per module (wave 8): a refusal, a plug-in that cannot be imported, a GEN_DEPS name that no spec
        # defines (e.g. because its spec file does not load) are all failures of that module
        mine = {k: v for k, v in failures.items() if k in gen_deps}
        if mine:  # fail closed: translator refused the current source of a function this property's model uses
            return False, f"py2coq refused the current source: {mine}"
        if failures:  # spec files of OTHER properties that do not load: not this property's obligation, but visible in its log
            log.append(f"py2coq: failures outside this property's GEN_DEPS: {failures}")
        mk = subprocess.run([PY, str(VERIF / "tools" / "mkproject.py")], capture_output=True, text=True)
        if mk.returncode != 0:
            return False, "mkproject failed: " + mk.stdout + mk.stderr
        p = subprocess.run(["timeout", str(timeout), "make", "-C", str(COQ), "-j", "14"] + targets,
                           capture_output=True, text=True)
        log.append(p.stdout[-4000:] + p.stderr[-6000:])
        return p.returncode == 0, "\n".join(log)


def print_assumptions(prop_file: str) -> tuple[bool, dict[str, list[str]], str]:
    """Re-compiles Properties/Cxx.v alone (its dependencies are built) and parses the
    Print Assumptions blocks.  Returns (ok, {theorem: [axioms]}, raw output)."""
    f = COQ / prop_file
    src = strip_comments(f.read_text())
    thms = re.findall(r"Print Assumptions\s+([\w.']+)\s*\.", src)
    with Lock():
        rc, out = coqc(f, timeout=900, cwd=COQ, stdout_only=True)
    if rc != 0:
        return False, {}, out
    blocks: dict[str, list[str]] = {}
    # coqc prints, per Print Assumptions, either "Closed under the global context" or "Axioms:" followed by
    # entries whose NAME starts at column 0 (the type follows on the same line or on indented lines)
    chunks = re.split(r"(?=^Closed under the global context|^Axioms:|^Section Variables:)", out, flags=re.M)
    chunks = [c for c in chunks if c.startswith("Closed under") or c.startswith("Axioms:") or c.startswith("Section Variables:")]
    if len(chunks) != len(thms):
        return False, {}, (f"Print Assumptions: {len(thms)} requests but {len(chunks)} answers (a Print Assumptions inside a "
                           f"Section, or an unparsed block)\n" + out[-3000:])
    for name, c in zip(thms, chunks):
        if c.startswith("Closed"):
            blocks[name] = []
        elif c.startswith("Section Variables:"):
            blocks[name] = ["<section-variables>"]
        else:
            names = []
            for line in c.splitlines()[1:]:
                m = re.match(r"^([A-Za-z_][\w.']*)(\s*:.*)?$", line)
                if m:
                    names.append(m.group(1))
            blocks[name] = names or ["<unparsed>"]
    return True, blocks, out


# Axioms the standard library itself declares (module-qualified as Print Assumptions prints them).  Anything
# else -- in particular an unqualified name, which is how an axiom declared in this development would print --
# makes the check fail.
STDLIB_AXIOM_MODULES = (
    "ClassicalDedekindReals.", "FunctionalExtensionality.", "Classical_Prop.", "ClassicalEpsilon.", "ClassicalFacts.",
    "ProofIrrelevance.", "Eqdep.", "JMeq.", "ChoiceFacts.", "Description.", "IndefiniteDescription.", "Epsilon.",
    "PropExtensionality.", "PropExtensionalityFacts.", "ClassicalChoice.", "ClassicalDescription.", "ClassicalUniqueChoice.",
    "RelationalChoice.", "Raxioms.", "Rdefinitions.", "Diaconescu.",
    "PrimFloat.", "PrimInt63.", "Uint63.", "Sint63.", "FloatAxioms.", "FloatOps.", "Uint63Axioms.", "PArray.", "CyclicAxioms.",
)


def foreign_axioms(blocks: dict[str, list[str]]) -> list[str]:
    """axioms that are not the standard library's (whitelist by defining module)"""
    bad = []
    for thm, axs in blocks.items():
        for a in axs:
            if not a.startswith(STDLIB_AXIOM_MODULES):
                bad.append(f"{thm}: {a}")
    return bad


# ----------------------------------------------------------------------------- results
class Result:
    def __init__(self, prop: str, tier: str, seed: int):
        self.prop, self.tier, self.seed = prop, tier, seed
        self.evaluations = 0
        self._nontrivial: set[str] = set()
        self.samples: list = []
        self.hist: dict[str, dict] = {}
        self.violations: list[dict] = []      # failing inputs on the implementation (oracle)
        self.broken: list[dict] = []          # broken proof obligations / correspondences
        self.known_hits: list[dict] = []
        self.case_lemmas = 0                  # coq case files / lemmas compiled
        self.case_ok = 0
        self.notes: list[str] = []
        self.traces = 0

    def count(self, case, nontrivial: bool = True, kind: str | None = None):
        self.evaluations += 1
        if nontrivial:
            h = hashlib.sha1(repr(case).encode()).hexdigest()
            self._nontrivial.add(h)
        if kind:
            self.bump("kind", kind)
        if len(self.samples) < 6 and nontrivial:
            self.samples.append(_jsonable(case))

    def bump(self, table: str, key):
        t = self.hist.setdefault(table, {})
        t[str(key)] = t.get(str(key), 0) + 1

    def violation(self, what: str, replay: dict):
        self.violations.append({"what": what, "replay": replay})

    def broke(self, obligation: str, detail: str):
        self.broken.append({"obligation": obligation, "detail": detail[-3000:]})

    @property
    def distinct_nontrivial(self):
        return len(self._nontrivial)


def _jsonable(x):
    if isinstance(x, Fraction):
        return f"{x.numerator}/{x.denominator}"
    if isinstance(x, (list, tuple)):
        return [_jsonable(v) for v in x]
    if isinstance(x, dict):
        return {str(k): _jsonable(v) for k, v in x.items()}
    if isinstance(x, (int, float, str, bool)) or x is None:
        return x
    try:
        import numpy as np
        if isinstance(x, np.generic):
            return x.item()
        if isinstance(x, np.ndarray):
            return x.tolist()
    except Exception:
        pass
    return repr(x)


# properties whose module does not define matches_known() yet (being added); to be emptied
KNOWN_TAG_ONLY_TRANSITIONAL = set()


def load_known(prop: str) -> list[dict]:
    f = VERIF / "KNOWN_FINDINGS.json"
    if not f.exists():
        return []
    data = json.loads(f.read_text())
    return [k for k in data.get("findings", []) if k.get("property") == prop]


def write_replay(prop: str, payload: dict) -> Path:
    REPLAYS.mkdir(exist_ok=True)
    h = hashlib.sha1(json.dumps(_jsonable(payload), sort_keys=True).encode()).hexdigest()[:12]
    f = REPLAYS / f"{prop}_{h}.json"
    f.write_text(json.dumps(_jsonable(payload), indent=1, sort_keys=True))
    return f


def repo_provenance() -> dict:
    """which tree the run looked at: path, HEAD and whether the working tree differs from HEAD"""
    def git(*a):
        p = subprocess.run(["git", "-C", str(REPO), *a], capture_output=True, text=True)
        return p.stdout.strip() if p.returncode == 0 else "?"
    return {"path": str(REPO), "head": git("rev-parse", "--short", "HEAD"),
            "dirty": bool(git("status", "--porcelain", "--untracked-files=no"))}


def write_evidence(prop: str, tier: str, seed: int, level: str, coverage: dict, assumptions: list[str],
                   wall: float, violations: int):
    global EVID
    coverage = dict(coverage)
    coverage["repo"] = repo_provenance()
    if str(REPO) != "/repo":
        # a run against another tree (seeded change in a scratch worktree) must never overwrite the evidence of /repo
        EVID = BUILD / "evidence_other_trees"
    EVID.mkdir(parents=True, exist_ok=True)
    ev = {
        "property_id": prop, "tier": tier, "seed": seed, "level": level,
        "coverage": _jsonable(coverage), "assumptions": assumptions,
        "wall_s": round(wall, 2), "violations": violations,
    }
    tmp = EVID / f"{prop}.json.tmp"
    tmp.write_text(json.dumps(ev, indent=1))
    tmp.replace(EVID / f"{prop}.json")


def _clean_old_runs(prop: str, keep_s: int = 3600):
    import shutil
    d = BUILD / prop
    if not d.exists():
        return
    now = time.time()
    for sub in d.glob("run*"):
        try:
            if now - sub.stat().st_mtime > keep_s:
                shutil.rmtree(sub, ignore_errors=True)
        except OSError:
            pass


# ----------------------------------------------------------------------------- main per-property driver
def run_property(mod, tier: str, seed: int, replay: str | None = None) -> int:
    """mod: a harness/props/Cxx module with attributes
         PROP, PROPERTY_FILE ('Properties/Cxx.v'), THEOREM_NOTES (dict), ASSUMPTIONS (list[str]),
         MODELLED (list[str]), correspond(res: Result) and optionally search(res), replay(path)."""
    t0 = time.time()
    prop = mod.PROP
    if replay:
        return mod.replay(replay)
    _clean_old_runs(prop)
    res = Result(prop, tier, seed)
    checker_cmds = []

    # 1+2: translator + proofs
    target = mod.PROPERTY_FILE.replace(".v", ".vo")
    ok, log = regen_and_make([target], gen_deps=getattr(mod, 'GEN_DEPS', ()))
    checker_cmds.append(f"python harness/py2coq.py && make -C coq -j14 {target}")
    proofs_ok = ok
    if not ok:
        res.broke(f"make {target}", log)
    blocks: dict[str, list[str]] = {}
    if ok:
        ok2, blocks, out = print_assumptions(mod.PROPERTY_FILE)
        checker_cmds.append(f"coqc -Q coq RV coq/{mod.PROPERTY_FILE}   (Print Assumptions captured)")
        if not ok2:
            proofs_ok = False
            res.broke(f"coqc {mod.PROPERTY_FILE}", out)
        fa = foreign_axioms(blocks)
        if fa:
            proofs_ok = False
            res.broke("Print Assumptions: non-stdlib axiom", "; ".join(fa))
    # 3: hygiene
    hy = hygiene()
    if hy:
        proofs_ok = False
        res.broke("hygiene grep", "\n".join(hy))

    # 3b (thorough tier): independent re-check of the compiled theorems with coqchk, axioms listed with -o
    coqchk_report = None
    if tier == "thorough" and proofs_ok and getattr(mod, "COQCHK", True):
        lib = "RV." + mod.PROPERTY_FILE.replace(".v", "").replace("/", ".")
        snap = run_dir(prop) / "coqchk"
        snap.mkdir(parents=True, exist_ok=True)
        with Lock():   # snapshot the compiled files under the lock, then check the snapshot without holding it
            subprocess.run(["rsync", "-a", "--include=*/", "--include=*.vo", "--exclude=*", str(COQ) + "/", str(snap) + "/"],
                           capture_output=True, text=True)
        budget = int(getattr(mod, "COQCHK_TIMEOUT", 1200))
        p = subprocess.run(["timeout", str(budget), "coqchk", "-o", "-silent", "-Q", str(snap), "RV", lib],
                           capture_output=True, text=True, cwd=str(snap))
        tail = (p.stdout + p.stderr)[-6000:]
        coqchk_report = {"cmd": f"coqchk -o -silent -Q <snapshot of coq/*.vo> RV {lib}", "rc": p.returncode, "output_tail": tail}
        checker_cmds.append(coqchk_report["cmd"])
        if p.returncode == 124:
            coqchk_report["note"] = f"coqchk did not finish within {budget} s (it re-checks every library the theorems depend on); not counted as a failure"
            res.notes.append(coqchk_report["note"])
        elif p.returncode != 0:
            proofs_ok = False
            res.broke("coqchk", tail)

    # 4: correspondence + oracle on the implementation
    try:
        mod.correspond(res)
    except CoqError as e:
        res.broke("correspondence case file", str(e))
    except Exception as e:  # harness could not drive the implementation: treat as broken correspondence
        import traceback
        res.broke("correspondence driver", f"{type(e).__name__}: {e}\n{traceback.format_exc()[-2500:]}")

    # 4b: if something is broken but no failing input yet, run the deeper search
    if res.broken and not res.violations and hasattr(mod, "search"):
        try:
            mod.search(res)
        except Exception as e:
            res.notes.append(f"search raised {type(e).__name__}: {e}")

    # 5: known findings
    known = load_known(prop)
    known_active = [k for k in known if k.get("status") == "known"]
    unlisted = []
    for v in res.violations:
        kid = v["replay"].get("finding")
        match = next((k for k in known_active if k["id"] == kid), None)
        if match is not None:
            if not hasattr(mod, "matches_known") and prop in KNOWN_TAG_ONLY_TRANSITIONAL:
                res.notes.append(f"violation tagged {kid} accepted on its tag alone (matches_known() not yet defined for {prop})")
            elif not hasattr(mod, "matches_known"):
                # a tag alone must not absorb a violation: the property module has to say that THIS failure is the recorded one
                match = None
                res.notes.append(f"violation tagged {kid} but props module defines no matches_known(): treated as unlisted")
            elif not mod.matches_known(v, match):
                match = None
        if match is not None:
            res.known_hits.append({"id": match["id"], "what": match["what"]})
        else:
            unlisted.append(v)
    printed = set()
    for k in res.known_hits:
        if k["id"] not in printed:
            printed.add(k["id"])
            print(f"KNOWN-FINDING: property={prop} {k['id']} {k['what']}")

    n_thm = len(blocks)
    obligations = n_thm + res.case_lemmas + (1 if True else 0)
    discharged = (n_thm if proofs_ok else 0) + res.case_ok + (0 if hy else 1)
    rc = 0
    lines = []
    if unlisted:
        seen_what, chosen = set(), []
        for v in unlisted:           # one replay per distinct kind of failure, at most 10
            if v["what"] not in seen_what and len(chosen) < 10:
                seen_what.add(v["what"])
                chosen.append(v)
        for v in chosen:
            payload = dict(v["replay"])
            payload.update({"property": prop, "what": v["what"],
                            "broken_obligations": [b["obligation"] for b in res.broken]})
            f = write_replay(prop, payload)
            lines.append(f"VIOLATION property={prop} replay={f}")
        rc = 1
    elif res.broken:
        # broken obligations explained entirely by listed known findings are not re-raised
        unexplained = [b for b in res.broken if not b.get("explained_by_known")]
        if unexplained:
            payload = {"property": prop, "no_failing_input_found": True,
                       "broken_obligations": unexplained}
            f = write_replay(prop, payload)
            lines.append(f"VIOLATION property={prop} replay={f} no-failing-input-found")
            rc = 1
    for ln in lines:
        print(ln)

    axioms = sorted({a for axs in blocks.values() for a in axs})
    coverage = {
        "obligations": obligations, "discharged": discharged,
        "checker_cmd": " ; ".join(checker_cmds),
        "trusted_base": KERNEL_TB + [f"axioms reported by Print Assumptions: {axioms or 'none (closed under the global context)'}"]
                        + [f"modelled, not verified: {m}" for m in getattr(mod, "MODELLED", [])],
        "theorems": {k: (v or "closed under the global context") for k, v in blocks.items()},
        "theorem_notes": getattr(mod, "THEOREM_NOTES", {}),
        "evaluations": res.evaluations, "distinct_nontrivial": res.distinct_nontrivial,
        "rule": getattr(mod, "RULE", ""), "samples": res.samples[:6] or ["<none>"],
        "input_distribution": res.hist,
        "traces_validated_against_impl": res.evaluations,
        "coq_case_files": res.case_lemmas, "coq_case_files_ok": res.case_ok,
        "known_findings_replayed": res.known_hits,
        "broken": res.broken, "notes": res.notes, "coqchk": coqchk_report,
    }
    write_evidence(prop, tier, seed, "proof", coverage, getattr(mod, "ASSUMPTIONS", []),
                   time.time() - t0, len(unlisted) + (1 if rc and not unlisted else 0))
    if rc == 0:
        import shutil
        shutil.rmtree(run_dir(prop), ignore_errors=True)
    print(f"[{prop}] tier={tier} seed={seed} theorems={n_thm} proofs_ok={proofs_ok} cases={res.evaluations} "
          f"nontrivial={res.distinct_nontrivial} coq_case_files={res.case_ok}/{res.case_lemmas} "
          f"violations={len(unlisted)} known={len(printed)} broken={len(res.broken)} wall={time.time()-t0:.1f}s")
    return rc

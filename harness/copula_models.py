"""Shared helpers of the copula checks (C11, C12, C19): model builders from a JSON-able descriptor,
rectangle generators that are complete over sign patterns / infinite end points, Coq literals.

Descriptors (what goes into a replay file):
  margins : ["step", [[breaks...], [dens...]]]      dyadic step Levy measure (harness/stepmeasure.py) -> exact floats
            ["hem"] | ["merton"] | ["cgmy"] | ["vg"] | ["hem2"] ...   rpylib's own models with fixed parameters
  copula  : ["indep"] | ["dep"] | ["clayton", theta, eta]
"""
from __future__ import annotations

import itertools
import math
import random
from fractions import Fraction

import numpy as np

from common import qlit, lst

INF = math.inf


# ----------------------------------------------------------------------------- models
def make_margin(desc):
    kind = desc[0]
    if kind == "stepinf":
        # a dyadic step measure PLUS infinite mass in every neighbourhood of 0 (both sides): integrate over an interval that touches 0
        # is +inf, everything else is the exact step integral.  Gives U_i(0) = +inf with exact arithmetic elsewhere.
        from stepmeasure import StepMeasure, StepModel

        class InfAtZeroStep(StepMeasure):
            def integrate(self, a, b):
                if a > b:
                    raise ValueError("Expected a<b when integrating the levy measure")
                if a <= 0 <= b and a < b:
                    return math.inf
                return super().integrate(a, b)

            def jump_of_finite_activity(self):
                return False
        breaks = [Fraction(b) for b in desc[1][0]]
        dens = [Fraction(d) for d in desc[1][1]]
        m = StepModel(InfAtZeroStep(breaks, dens))
        m.r = 0.0
        return m
    if kind == "step":
        from stepmeasure import StepMeasure, StepModel
        breaks = [Fraction(b) for b in desc[1][0]]
        dens = [Fraction(d) for d in desc[1][1]]
        m = StepModel(StepMeasure(breaks, dens))
        m.r = 0.0
        return m
    from rpylib.model import utils as U
    if kind == "hem":
        return U._create_hem_model()
    if kind == "hem2":
        return U._create_hem_model(sigma=0.1, p=0.3, eta1=12, eta2=30, intensity=5)
    if kind == "merton":
        return U._create_merton_model()
    if kind == "merton2":
        return U._create_merton_model(sigma=0.08, sigma_j=0.1, mu_j=0.03, intensity=2)
    if kind == "cgmy":
        return U._create_cgmy_model()
    if kind == "cgmy2":
        return U._create_cgmy_model(c=0.5, g=8, m=12, y=0.8)
    if kind == "cgmy3":
        return U._create_cgmy_model(c=0.1, g=5.0, m=6.0, y=0.5)
    if kind == "cgmy4":
        return U._create_cgmy_model(c=0.2, g=4.0, m=7.0, y=0.3)
    if kind == "hem3":
        return U._create_hem_model(sigma=0.1, p=0.4, eta1=8.0, eta2=6.0, intensity=3.0)
    if kind == "vg":
        return U._create_variancegamma_model()
    raise ValueError(desc)


def make_copula(desc):
    from rpylib.distribution.levycopula import ClaytonCopula, IndependentComponentsCopula, DependentComponentsCopula
    if desc[0] == "indep":
        return IndependentComponentsCopula()
    if desc[0] == "dep":
        return DependentComponentsCopula()
    if desc[0] == "clayton":
        return ClaytonCopula(theta=float(desc[1]), eta=float(desc[2]))
    raise ValueError(desc)


def make_model(margins, copula):
    from rpylib.model.levycopulamodel import LevyCopulaModel
    return LevyCopulaModel(models=[make_margin(m) for m in margins], copula=make_copula(copula))


def random_step_margin(rng: random.Random, bits: int = 3, span: int = 2, gap_prob: float = 0.5):
    """dyadic step measure on [-span, span] with pieces on both sides of 0 (possibly a gap around 0,
    possibly a piece across 0); densities are multiples of 3/4 (some 0)."""
    unit = Fraction(1, 2 ** bits)
    n = span * 2 ** bits
    cuts = sorted(rng.sample(range(-n + 1, n), rng.randrange(2, 7)))
    pts = [-n] + cuts + [n]
    if rng.random() < gap_prob and 0 not in pts:
        pts = sorted(set(pts + [0]))
    breaks = [unit * p for p in pts]
    dens = [Fraction(0) if rng.random() < 0.15 else Fraction(3 * rng.randrange(1, 9), 4) for _ in range(len(breaks) - 1)]
    if all(d == 0 for d in dens):
        dens[0] = Fraction(3, 4)
    return ["step", [[str(b) for b in breaks], [str(d) for d in dens]]]


# ----------------------------------------------------------------------------- rectangles
KINDS = ["neg", "neg_inf", "pos", "pos_from_zero", "pos_inf", "pos_inf_from_zero",
         "straddle", "straddle_to_zero", "straddle_ninf", "straddle_pinf", "whole_line"]
STRADDLING = {"straddle", "straddle_to_zero", "straddle_ninf", "straddle_pinf", "whole_line"}


def interval_of_kind(kind: str, rng: random.Random, pos_points, neg_points):
    """pos_points: sorted positive values; neg_points: sorted negative values (ascending)."""
    def two(points):
        i, j = sorted(rng.sample(range(len(points)), 2))
        return points[i], points[j]
    if kind == "neg":
        return two(neg_points)
    if kind == "neg_inf":
        return -INF, rng.choice(neg_points)
    if kind == "pos":
        return two(pos_points)
    if kind == "pos_from_zero":
        return 0.0, rng.choice(pos_points)
    if kind == "pos_inf":
        return rng.choice(pos_points), INF
    if kind == "pos_inf_from_zero":
        return 0.0, INF
    if kind == "straddle":
        return rng.choice(neg_points), rng.choice(pos_points)
    if kind == "straddle_to_zero":
        return rng.choice(neg_points), 0.0
    if kind == "straddle_ninf":
        return -INF, rng.choice(pos_points)
    if kind == "straddle_pinf":
        return rng.choice(neg_points), INF
    if kind == "whole_line":
        return -INF, INF
    raise ValueError(kind)


def straddles(a, b) -> bool:
    return a < 0 <= b


def rectangles(rng: random.Random, dim: int, pos_points, neg_points, n_random: int, complete: bool = True):
    """rectangles (a, b, kinds) that do not contain the origin (not all coordinates straddling); with
    `complete` every combination of interval kinds appears at least once (dim 2: 121-25, dim 3 sampled to n_random
    plus one per straddle/infinite signature)."""
    out = []
    combos = list(itertools.product(KINDS, repeat=dim))
    if not complete or dim >= 3:
        rng.shuffle(combos)
        # keep one representative per coarse signature (neg/pos/straddle x finite/infinite) and fill up randomly
        seen, keep = set(), []
        for c in combos:
            sig = tuple((k in STRADDLING, "inf" in k or k == "whole_line", k.startswith("neg")) for k in c)
            if sig not in seen:
                seen.add(sig)
                keep.append(c)
        combos = keep + combos[:max(0, n_random - len(keep))]
    for c in combos:
        iv = [interval_of_kind(k, rng, pos_points, neg_points) for k in c]
        a = tuple(float(x[0]) for x in iv)
        b = tuple(float(x[1]) for x in iv)
        if all(straddles(x, y) for x, y in zip(a, b)):
            continue
        out.append((a, b, c))
    return out


# ----------------------------------------------------------------------------- Coq literals
def elit(x) -> str:
    x = float(x)
    if x == INF:
        return "PInf"
    if x == -INF:
        return "NInf"
    return f"(Fin {qlit(x)})"


def elist(xs) -> str:
    return lst([elit(x) for x in xs])


def idxlit(indices) -> str:
    if indices is None:
        return "None"
    return "(Some " + lst([f"{int(i)}%nat" for i in indices]) + ")"


def margins_lit(margins) -> str:
    """Coq literal  list (list (Q*Q*Q))  of step margins"""
    rows = []
    for m in margins:
        assert m[0] == "step"
        breaks = [Fraction(b) for b in m[1][0]]
        dens = [Fraction(d) for d in m[1][1]]
        rows.append(lst([f"({qlit(lo)}, {qlit(hi)}, {qlit(d)})" for lo, hi, d in zip(breaks, breaks[1:], dens)]))
    return lst(rows)


def finite(x) -> bool:
    return isinstance(x, (int, float, np.floating)) and math.isfinite(float(x))

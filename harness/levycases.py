"""Shared helpers of the real-analysis checks C09 / C10 (Levy-measure closed forms, exponents, drifts).

  * random, reproducible parameter sets of HEM / Merton / VG / CGMY (every activity branch of CGMY);
  * exact real literals for Coq (`Fraction(float)` written as an integer quotient);
  * a runner that compiles generated `Lemma case_i : Rabs (model - impl) <= tol. Proof. ... interval. Qed.`
    files in parallel (every coqc under `timeout`) and reports the lemmas the kernel did not accept;
  * the implementation-only oracle: `mpmath.quad` of x^n * nu(x) with the implementation's own density.
"""
from __future__ import annotations

import math
import re
from concurrent.futures import ThreadPoolExecutor
from fractions import Fraction

import mpmath as mp

from common import coq_eval_file

INF = float("inf")
INFV_DIGITS = 400  # the Coq stand-in for the float token `inf` is 10^400 (any number beyond every finite double works)


# ----------------------------------------------------------------------------- literals
def rlit(x) -> str:
    """exact real literal of a float / Fraction / int (R_scope)"""
    fr = Fraction(x)
    n, d = fr.numerator, fr.denominator
    if d == 1:
        return f"({n})" if n < 0 else f"{n}"
    return f"({n} / {d})"


def tol_lit(v: float, rel: float = 1e-9, ab: float = 1e-12) -> tuple[str, Fraction]:
    t = Fraction(rel).limit_denominator(10 ** 15) * max(Fraction(1), abs(Fraction(v))) + Fraction(ab).limit_denominator(10 ** 15)
    t = Fraction(math.ceil(t * 10 ** 15), 10 ** 15)
    return rlit(t), t


HEADER_COMMON = f"""From Coq Require Import Reals Lra Bool.
From Coquelicot Require Import Coquelicot.
From Interval Require Import Tactic.
Open Scope R_scope.
Definition INFV : R := 1{'0' * INFV_DIGITS}.
Lemma INFV_big : 1000000000000 < INFV. Proof. unfold INFV; lra. Qed.
Global Opaque INFV.
"""


# ----------------------------------------------------------------------------- parallel interval-case files
class Case:
    __slots__ = ("cid", "stmt", "proof", "info")

    def __init__(self, cid, stmt, proof, info=None):
        self.cid, self.stmt, self.proof, self.info = cid, stmt, proof, info


def _file_text(header, cases):
    lines = header.rstrip("\n").split("\n")
    start = {}
    for k, c in enumerate(cases):
        start[k] = len(lines) + 1
        lines.append(f"Lemma case_{k} : {c.stmt}.")
        lines.append(f"Proof. pose proof INFV_big as HINF. {c.proof} Qed.")
    return "\n".join(lines) + "\n", start


def _run_shard(prop, name, header, cases, timeout):
    """returns [(case, error text)] for the lemmas that did not compile (continues after a failing lemma)"""
    failed, todo, rnd = [], list(cases), 0
    while todo and rnd < 6:
        text, start = _file_text(header, todo)
        rc, out = coq_eval_file(prop, f"{name}_r{rnd}" if rnd else name, text, timeout=timeout)
        if rc == 0:
            return failed
        errs = [int(x) for x in re.findall(r'File "[^"]+", line (\d+), characters [\d-]+:\s*\n\s*Error', out)]
        ln = errs[-1] if errs else None
        if rc == 124 or ln is None:
            # timeout or unparsable output: every remaining lemma counts as not checked
            failed.extend((c, f"coqc rc={rc}: {out[-400:]}") for c in todo)
            return failed
        if ln < min(start.values()):
            failed.extend((c, f"the header of the case file does not compile: {out[-400:]}") for c in todo)
            return failed
        k = max(i for i, s in start.items() if s <= ln)
        failed.append((todo[k], out[-600:]))
        todo = todo[k + 1:]
        rnd += 1
    failed.extend((c, "not evaluated (too many failing lemmas in this shard)") for c in todo)
    return failed


def run_cases(prop, name, header, cases, jobs=12, timeout=600, min_per_file=4):
    """Compiles the case lemmas in `jobs` parallel coqc processes.  Returns (n_files, [(case, error)])."""
    if not cases:
        return 0, []
    nfiles = max(1, min(jobs, len(cases) // min_per_file or 1))
    shards = [cases[i::nfiles] for i in range(nfiles)]
    with ThreadPoolExecutor(max_workers=jobs) as ex:
        res = list(ex.map(lambda kv: _run_shard(prop, f"{name}_{kv[0]}", header, kv[1], timeout), enumerate(shards)))
    failed = [f for r in res for f in r]
    return nfiles, failed


# ----------------------------------------------------------------------------- models
def rnd(rng, lo, hi, nd=2):
    return round(rng.uniform(lo, hi), nd)


def hem_params(rng):
    return dict(sigma=rnd(rng, 0.0, 0.4), p=rnd(rng, 0.05, 0.95), eta1=rnd(rng, 1.5, 30, 1), eta2=rnd(rng, 0.5, 30, 1),
                intensity=rnd(rng, 0.1, 8))


def merton_params(rng):
    return dict(sigma=rnd(rng, 0.0, 0.4), mu_j=rnd(rng, 0.0, 0.5), sigma_j=rnd(rng, 0.05, 0.6), intensity=rnd(rng, 0.1, 5))


def vg_params(rng):
    return dict(sigma=rnd(rng, 0.08, 0.5), nu=rnd(rng, 0.05, 1.0), theta=rnd(rng, -0.4, 0.3))


def cgmy_params(rng, y=None):
    if y is None:
        y = rng.choice([-0.5, 0.0, 0.3, 1.0, 1.5, rnd(rng, -1.5, -0.05), rnd(rng, 0.05, 0.95), rnd(rng, 1.05, 1.9)])
    return dict(c=rnd(rng, 0.1, 3), g=rnd(rng, 1.5, 12, 1), m=rnd(rng, 1.5, 12, 1), y=y)


FIXED = {
    "hem": [dict(sigma=0.05, p=0.4, eta1=10.0, eta2=5.0, intensity=3.0)],
    "merton": [dict(sigma=0.1, mu_j=0.05, sigma_j=0.2, intensity=1.5), dict(sigma=0.0, mu_j=0.0, sigma_j=0.3, intensity=0.7)],
    "vg": [dict(sigma=0.12, nu=0.2, theta=-0.14), dict(sigma=0.3, nu=0.5, theta=0.0)],
    # G != M on purpose: with G == M every odd-order term of the exponent vanishes and representation defects are invisible
    "cgmy": [dict(c=1.0, g=4.0, m=6.0, y=y) for y in (-0.5, 0.0, 0.3, 1.0, 1.5)] + [dict(c=0.5, g=2.0, m=3.5, y=0.5)],
}


def build(kind, params):
    """(levy model, Levy measure) of the implementation"""
    if kind == "hem":
        from rpylib.model.levymodel.mixed.hem import HEMParameters, HEMModel
        m = HEMModel(HEMParameters(**params))
    elif kind == "merton":
        from rpylib.model.levymodel.mixed.merton import MertonParameters, MertonModel
        m = MertonModel(MertonParameters(**params))
    elif kind == "vg":
        from rpylib.model.levymodel.purejump.variancegamma import VGParameters, VarianceGammaModel
        m = VarianceGammaModel(VGParameters(**params))
    elif kind == "cgmy":
        from rpylib.model.levymodel.purejump.cgmy import CGMYParameters, CGMYModel
        m = CGMYModel(CGMYParameters(**params))
    else:
        raise ValueError(kind)
    return m, m.levy_triplet.nu


def build_exp(kind, params, spot, r, d):
    if kind == "hem":
        from rpylib.model.levymodel.mixed.hem import HEMParameters, ExponentialOfHEMModel
        return ExponentialOfHEMModel(spot, r, d, HEMParameters(**params))
    if kind == "merton":
        from rpylib.model.levymodel.mixed.merton import MertonParameters, ExponentialOfMertonModel
        return ExponentialOfMertonModel(spot, r, d, MertonParameters(**params))
    if kind == "vg":
        from rpylib.model.levymodel.purejump.variancegamma import VGParameters, ExponentialOfVarianceGammaModel
        return ExponentialOfVarianceGammaModel(spot, r, d, VGParameters(**params))
    if kind == "cgmy":
        from rpylib.model.levymodel.purejump.cgmy import CGMYParameters, ExponentialOfCGMYModel
        return ExponentialOfCGMYModel(spot, r, d, CGMYParameters(**params))
    if kind == "bs":
        from rpylib.model.levymodel.mixed.blackscholes import BlackScholesParameters, BlackScholesModel
        return BlackScholesModel(spot, r, d, BlackScholesParameters(**params))
    raise ValueError(kind)


def model_sets(rng, n_random):
    out = []
    for kind, gen in (("hem", hem_params), ("merton", merton_params), ("vg", vg_params), ("cgmy", cgmy_params)):
        for p in FIXED[kind]:
            out.append((kind, dict(p)))
        for _ in range(n_random):
            out.append((kind, gen(rng)))
    return out


def singular_order(kind, params):
    """nu(x) ~ |x|^-(order) at 0 (None: bounded density)"""
    if kind == "vg":
        return 1.0
    if kind == "cgmy":
        return 1.0 + params["y"]
    return None


def integral_is_finite(kind, params, a, b, n):
    """is int_a^b |x|^n nu(dx) finite?  (exponential / gaussian tails: always at infinity)"""
    so = singular_order(kind, params)
    if so is None or not (a <= 0 <= b) or a == b:
        return True
    return n - so > -1.0 + 1e-9


# ----------------------------------------------------------------------------- intervals
POOL = [0.01, 0.05, 0.1, 0.25, 0.5, 1.0, 1.5, 2.0, 3.0]


def _pt(rng):
    return rng.choice(POOL) if rng.random() < 0.5 else round(rng.uniform(0.005, 3.0), 3)


def interval(rng, kind):
    x, y = sorted((_pt(rng), _pt(rng)))
    if x == y:
        y = x + 0.125
    return {
        "pos": (x, y), "neg": (-y, -x), "straddle": (-x, y), "touch0-right": (0.0, y), "touch0-left": (-y, 0.0),
        "right-halfline": (x, INF), "left-halfline": (-INF, -x), "halfline-from0": (0.0, INF), "halfline-to0": (-INF, 0.0),
        "left-halfline-straddle": (-INF, x), "right-halfline-straddle": (-x, INF), "whole-line": (-INF, INF), "point": (x, x),
        "point-neg": (-x, -x), "point-zero": (0.0, 0.0),
    }[kind]


INTERVAL_KINDS = ["pos", "neg", "straddle", "touch0-right", "touch0-left", "right-halfline", "left-halfline", "halfline-from0",
                  "halfline-to0", "left-halfline-straddle", "right-halfline-straddle", "whole-line", "point", "point-neg", "point-zero"]


# ----------------------------------------------------------------------------- oracle: quadrature of the implementation's density
mp.mp.dps = 25


def sing_quad(f, c, k=24):
    """int_0^c f(x) dx for an integrand with an integrable algebraic singularity at 0 (|x|^-p, p < 1 - 2/k): the substitution
    x = t^k makes it smooth, so tanh-sinh keeps its accuracy (c may be negative: integrates over [c, 0] then)"""
    sgn = 1 if c > 0 else -1
    top = mp.mpf(abs(c)) ** (mp.mpf(1) / k)
    g = lambda t: f(sgn * t ** k) * k * t ** (k - 1)
    return mp.quad(g, [0, top / 2, top])


def quad_xn_nu(nu, a, b, n, extra=()):
    """mpmath quadrature of x^n * nu(x) over [a,b] using the implementation's own __call__ (split at 0, +-1 and `extra`;
    the two pieces adjacent to 0 are integrated after the substitution x = +-t^24: VG / CGMY densities are singular there)"""
    if a == b:
        return 0.0
    pts = sorted({p for p in (0.0, -1.0, 1.0, -8.0, 8.0) + tuple(extra) if a < p < b})
    pts = [a] + pts + [b]
    f = lambda x: (x ** n) * mp.mpf(float(nu(float(x)))) if abs(x) > mp.mpf("1e-100") else mp.mpf(0)
    tot = mp.mpf(0)
    for u, v in zip(pts[:-1], pts[1:]):
        if u == 0 and abs(v) != INF:
            tot += sing_quad(f, v)
        elif v == 0 and abs(u) != INF:
            tot += sing_quad(f, u)
        else:
            tot += mp.quad(f, [mp.mpf(p) if abs(p) != INF else (mp.inf if p > 0 else -mp.inf) for p in (u, v)])
    return float(tot)


def call_integral(nu, a, b, n, via):
    """evaluate the implementation; via in {'direct','xn'}"""
    if via == "xn":
        return nu.integrate_against_xn(a, b, n)
    return [nu.integrate, nu.integrate_against_x, nu.integrate_against_xx][n](a, b)


def close(x, ref, rel=5e-8, ab=1e-10):
    if x is None or isinstance(x, complex) or x != x:
        return False
    if abs(ref) == INF or abs(x) == INF:
        return x == ref
    return abs(x - ref) <= rel * max(abs(ref), abs(x)) + ab

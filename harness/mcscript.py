"""Scripted (duck-typed) processes / coupling processes / convergence criteria that drive the REAL
rpylib Monte-Carlo engines (multilevel `Engine.price`, `price_with_constant_mc_paths_and_level`,
standard `Engine.price`) through a prescribed history.  Shared by the checks of C05, C06, C07.

Nothing of rpylib is patched: the scripted objects are passed through the engines' public
constructor arguments (`coupling_process`, `process`, `ConvergenceCriteria(criteria=, compute_mc_paths=)`).
Every simulated sample carries a unique dyadic value, so every stored row is identifiable and all
products with dyadic df / notional are exact in double precision.
"""
from __future__ import annotations

import copy
from fractions import Fraction

import numpy as np


def _mp_counters():
    """per-level draw counters in shared memory (created at import, inherited by the forked pool workers of the engine's
    multi-process branch): every simulated path gets a unique (level, index) tag whichever process simulates it"""
    try:
        import multiprocess as _mp
    except ImportError:      # pragma: no cover
        import multiprocessing as _mp
    return [_mp.Value("i", 0) for _ in range(24)]


MP_COUNTERS = _mp_counters()


class Shared:
    """log shared by all deep copies of a scripted process (the engine deep-copies the process per level)"""

    def __init__(self):
        self.draws = {}          # level -> number of samples drawn
        self.events = []         # ("draw", level, n) | ("alloc", k, ...) | ("conv", j, ...) | ("next_level", level)
        self.alloc_calls = []    # (vl, cl) passed to compute_mc_paths
        self.conv_calls = []     # (alpha, ml) passed to criteria
        self.max_level_drawn = -1

        self.use_mp_counters = False   # multi-process runs: draw indices come from MP_COUNTERS (shared memory)
        self.tagged = True       # path managers carry the (epoch, level) tag pm_offset in their deterministic path
        self.epoch = -1          # index of the current pricing on this engine (Engine.initialisation starts a new one)
        self.history = []        # per finished pricing: dict(draws=..., events=..., max_level_drawn=...)

    def new_epoch(self):
        if self.epoch >= 0:
            self.history.append({"draws": self.draws, "events": self.events, "max_level_drawn": self.max_level_drawn})
        self.epoch += 1
        self.draws, self.events, self.alloc_calls, self.conv_calls, self.max_level_drawn = {}, [], [], [], -1
        if self.use_mp_counters:
            for c in MP_COUNTERS:
                c.value = 0

    def __deepcopy__(self, memo):
        return self


def pm_offset(epoch, level):
    """deterministic-path value at maturity carried by the path manager created in pricing `epoch` for `level`
    (fine, coarse): a stale or wrong path manager shows up in every stored row"""
    return (epoch / 2.0 + level / 16.0, epoch / 4.0 + level / 32.0)


class _Model:
    def __init__(self, dim=1):
        from rpylib.process.process import ProcessRepresentation
        self.process_representation = ProcessRepresentation.IDENDITY
        self._dim = dim

    def dimension_model(self):
        return self._dim

    def dimension(self):
        return self._dim


def _fine_process_class():
    from rpylib.process.markovchain.markovchainsde import MarkovChainSDE

    class ScriptedFine(MarkovChainSDE):
        """isinstance(.., MarkovChainSDE) so that the engine builds no COS density (no spot statistics)"""

        def __init__(self, model, df, shared):  # noqa (deliberately no super().__init__)
            from rpylib.process.process import ProcessRepresentation
            self.model = model
            self.process_representation = ProcessRepresentation.IDENDITY
            self._df = df
            self.shared = shared

        @property
        def deterministic_path(self):
            """a closure frozen at the time the engine asks for it (as the real coupling freezes spot and drift)"""
            off = pm_offset(self.shared.epoch, 0)[0] if self.shared.tagged else 0.0
            return lambda times: np.concatenate([np.zeros(len(times) - 1), [off]])

        def df(self, t):
            return self._df

        def initialisation(self, product, _=None):
            pass

        def one_simulation_cost(self, product):
            return 0.0

        def reset_one_simulation_cost(self):
            pass

        def pre_computation(self, mc_paths, product):
            pass

        def simulate_one_path(self):
            raise RuntimeError("not used")

    return ScriptedFine


class ScriptedCoupling:
    """CouplingProcess duck-type.  sample(level, n) -> (fine, coarse) raw path end values (floats),
    cost(level, drawn_so_far) -> float."""

    def __init__(self, sample, cost, df=1.0, shared=None):
        self.shared = shared or Shared()
        self.sample = sample
        self.cost = cost
        self.model = _Model()
        self.fine_process = _fine_process_class()(self.model, df, self.shared)
        self.level = 0

    # -- engine interface
    def initialisation(self, product, max_step_epsilon=None):
        self.shared.new_epoch()       # called once per Engine.initialisation, on the engine's own (level 0) process

    def pre_computation(self, mc_paths, product):
        pass

    def reset_one_simulation_cost(self):
        pass

    def one_simulation_cost(self, product):
        return self.cost(self.level, self.shared.draws.get(self.level, 0))

    def _draw(self):
        sh = self.shared
        if sh.use_mp_counters:           # possibly in a pool worker: only the shared-memory counter is meaningful
            c = MP_COUNTERS[self.level]
            with c.get_lock():
                n = c.value
                c.value = n + 1
            return self.sample(self.level, n)
        n = sh.draws.get(self.level, 0)
        sh.draws[self.level] = n + 1
        sh.events.append(("draw", self.level, n))
        sh.max_level_drawn = max(sh.max_level_drawn, self.level)
        return self.sample(self.level, n)

    def simulate_one_path(self):
        from rpylib.montecarlo.path import StochasticJumpPath
        f, _ = self._draw()
        return StochasticJumpPath(jump_times=np.array([0.0, 1.0]), diffusion_path=np.array([0.0, f]),
                                  jump_path=np.zeros(2))

    def simulate_one_path_with_coupling(self):
        from rpylib.montecarlo.path import StochasticJumpPath
        f, c = self._draw()
        return StochasticJumpPath(jump_times=np.array([0.0, 1.0]), diffusion_path=np.array([[0.0, f], [0.0, c]]),
                                  jump_path=np.zeros((2, 2)))

    def next_level(self, mc_paths, path_managers, product, max_step_epsilon=None):
        self.level += 1
        self.shared.events.append(("next_level", self.level))
        if path_managers is not None:
            pm = copy.deepcopy(path_managers[-1])
            pm.update(self.fine_process.process_representation)
            off = pm_offset(self.shared.epoch, self.level) if self.shared.tagged else (0.0, 0.0)
            pm.deterministic_path = lambda times: np.array([np.concatenate([np.zeros(len(times) - 1), [off[0]]]),
                                                            np.concatenate([np.zeros(len(times) - 1), [off[1]]])])
            path_managers.append(pm)


def scripted_criteria(alloc, conv, shared, default_conv=True):
    """ConvergenceCriteria whose answers are scripted.
    alloc: table (k-th compute_mc_paths call answers alloc[k], padded with 0 / truncated to the current number
           of levels; exhausted table answers 0 samples)  or  callable (k, n_levels, shared) -> list of ints;
    conv : table (j-th criteria call; exhausted -> default_conv)  or  callable (j, shared) -> bool.
    Every answer is recorded in shared.alloc_answers / shared.conv_answers (these are the oracle tables
    the Coq model replays)."""
    from rpylib.montecarlo.multilevel.criteria import ConvergenceCriteria
    st = {"k": 0, "j": 0}
    shared.alloc_answers = []
    shared.conv_answers = []
    shared.rmse_seen = []        # (callback, rmse) of every call: the engine must hand over the user's rmse

    def compute_mc_paths(rmse, vl, cl):
        k = st["k"]
        st["k"] += 1
        n = len(vl)
        if callable(alloc):
            row = [int(x) for x in alloc(k, n, shared)]
        else:
            row = list(alloc[k]) if k < len(alloc) else []
        row = (row + [0] * n)[:n]
        shared.alloc_calls.append((np.array(vl, dtype=float).copy(), np.array(cl, dtype=float).copy()))
        shared.rmse_seen.append(("compute_mc_paths", float(rmse)))
        shared.alloc_answers.append(list(row))
        shared.events.append(("alloc", k, tuple(row)))
        return np.array(row, dtype=int)

    def criteria(alpha, ml, rmse):
        j = st["j"]
        st["j"] += 1
        if callable(conv):
            ans = bool(conv(j, shared))
        else:
            ans = bool(conv[j]) if j < len(conv) else default_conv
        shared.conv_calls.append((alpha, np.array(ml, dtype=float).copy()))
        shared.rmse_seen.append(("criteria", float(rmse)))
        shared.conv_answers.append(ans)
        shared.events.append(("conv", j, ans))
        return ans

    return ConvergenceCriteria(criteria=criteria, compute_mc_paths=compute_mc_paths)


class WarningCatcher:
    """observes the engine's logging (the post-loop return logs 'Initial number of Monte-Carlo paths ...')"""

    def __enter__(self):
        import logging

        class H(logging.Handler):
            def __init__(self):
                super().__init__(level=logging.WARNING)
                self.messages = []

            def emit(self, record):
                self.messages.append(record.getMessage())

        self.h = H()
        self.logger = logging.getLogger()
        self.logger.addHandler(self.h)
        return self.h

    def __exit__(self, *a):
        self.logger.removeHandler(self.h)


def make_product(notional=1.0, dimension=1, fun=None):
    from rpylib.product.product import Product
    from rpylib.product.payoff import PayoffOnTheFly
    from rpylib.product.underlying import Spot

    class _Payoff(PayoffOnTheFly):
        def dimension(self):
            return dimension

    return Product(payoff_underlying=Spot(), payoff=_Payoff(fun or (lambda x: x)), maturity=1.0, notional=notional)


def make_control_variates(funs, prices, notionals=None):
    """controls = products on the same Spot underlying with payoff funs[k]; prices[k] = their given price"""
    from rpylib.product.product import ControlVariates
    notionals = notionals or [1.0] * len(funs)
    products = [make_product(notional=nk, fun=fk) for fk, nk in zip(funs, notionals)]
    return ControlVariates(products=products, prices=list(prices))


class ScriptedProcess:
    """standard-engine Process duck-type returning a known list of path end values (scalars)"""

    def __init__(self, values, df=1.0, dimension=1):
        self.values = list(values)
        self.model = _Model(dimension)
        from rpylib.process.process import ProcessRepresentation
        self.process_representation = ProcessRepresentation.IDENDITY
        self._df = df
        self.calls = 0
        self.pre = []

    def dimension(self):
        return self.model.dimension()

    def initialisation(self, product, max_step_epsilon=None):
        pass

    def deterministic_path(self, times):
        return np.zeros(len(times))

    def pre_computation(self, mc_paths, product):
        self.pre.append(mc_paths)

    def df(self, t):
        return self._df

    def simulate_one_path(self):
        from rpylib.montecarlo.path import StochasticJumpPath
        v = self.values[self.calls]
        self.calls += 1
        return StochasticJumpPath(jump_times=np.array([0.0, 1.0]), diffusion_path=np.array([0.0, v]),
                                  jump_path=np.zeros(2))


def fr(x) -> Fraction:
    return Fraction(float(x))

"""Drives the real multilevel engine through scripted histories (harness/mcscript.py) and evaluates,
on the implementation's outputs only, the predicates of C05 / C06.  Also builds the Coq literals with
which Model/Mlmc.v replays the same history (vm_compute correspondence)."""
from __future__ import annotations

import math
import random
import warnings
from fractions import Fraction

import numpy as np

from common import zlit, qlit, blit, lst, natlit
from mcscript import (Shared, ScriptedCoupling, scripted_criteria, make_product, make_control_variates,
                      WarningCatcher, pm_offset)

TOL = Fraction(1, 10 ** 9)


# ------------------------------------------------------------------ oracles (functions of the history spec)
def sample_fn(salt, big=False):
    def sample(l, n):
        tag = l * 4096 + n + 1                      # unique per (level, index), never 0
        f = tag / 1024.0 + ((n * 5 + l * 3 + salt) % 13) / 2.0   # spread, still unique within a level (n < 512)
        delta = ((n * 7 + l * 13 + salt) % 17) - 8
        return (f, f - delta / 8.0)

    def sample_big(l, n):                           # unique within a level for any n (multi-process runs with > 10 000 paths)
        f = (n + 1) / 1024.0 + 16.0 * l
        delta = ((n * 7 + l * 13 + salt) % 17) - 8
        return (f, f - delta / 8.0)
    return sample_big if big else sample


def cost_fn(ctab):
    return lambda l, n: ctab[l] + (n % 3) / 4.0


def raw_value(spec, l, n):
    """(fine, coarse) value of the path at maturity: scripted sample + the deterministic path of the path manager that
    belongs to this pricing (epoch) and level"""
    f, c = sample_fn(spec["salt"], spec.get("big", False))(l, n)
    of, oc = pm_offset(spec.get("epoch", 0), l)
    return (f + of, c + oc)


def payoff_component(x, j):
    """genuine vector payoff: component j of the payoff of underlying value x (component 0 = x)"""
    return (j + 1) * x + j / 4.0


def expected_row(spec, l, n, j=0):
    f, c = raw_value(spec, l, n)
    df, no = Fraction(spec["df"]), Fraction(spec["notional"])
    return (df * no * Fraction(payoff_component(f, j)), Fraction(0) if l == 0 else df * no * Fraction(payoff_component(c, j)))


# ------------------------------------------------------------------ history generation
def gen_spec(rng: random.Random, mode: str):
    L0 = rng.choice([0, 1, 1, 2, 2, 2, 3])
    Lmax = L0 + rng.choice([0, 1, 2, 2, 3, 4])
    if mode == "zero":
        N0 = 0
    elif mode == "pct":
        N0 = rng.choice([100, 101, 128, 150, 199, 200])
    else:
        N0 = rng.choice([1, 1, 2, 3, 4, 5, 6, 8])
    return {"kind": "adaptive", "mode": mode, "L0": L0, "Lmax": Lmax, "N0": N0,
            "df": rng.choice([1.0, 0.5, 0.25, 0.75]), "notional": rng.choice([1.0, 2.0, 0.5, 4.0]),
            "salt": rng.randrange(0, 17), "ctab": [rng.choice([0.5, 1.0, 2.0, 3.0, 4.0]) for _ in range(Lmax + 3)],
            "dim": rng.choice([1, 1, 1, 2, 3]), "seed": rng.randrange(1 << 30),
            "regress": rng.random() < 0.15,      # rates not given: the engine regresses alpha, beta, gamma (log2_regression)
            "kmax": rng.choice([1, 2, 3, 4, 5, 6, 8, 10, 12]), "pconv": rng.choice([0.0, 0.0, 0.2, 0.4, 0.8])}


def alloc_generator(spec):
    rng = random.Random(spec["seed"])
    mode = spec["mode"]

    def alloc(k, n, sh):
        if k >= spec["kmax"]:
            return [0] * n
        row = []
        satisfied = rng.random() < 0.45              # no level asks for more: the bias test is reached
        for l in range(n):
            cur = sh.draws.get(l, 0)
            u = rng.random()
            if satisfied and not (cur == 0 and l > spec["L0"]):
                row.append(max(0, cur - rng.randint(0, 1)) if mode != "pct" else cur + rng.choice([-2, 0, 0, 1]))
            elif cur == 0 and l > spec["L0"]:        # a level that has just been added
                row.append(rng.choice([0, 1, 1, 2, 3, 5, 7]))
            elif mode == "pct":
                row.append(cur + rng.choice([-3, 0, 0, 1, 1, 2, 3, 10]))
            elif u < 0.35:
                row.append(max(0, cur - rng.randint(0, 2)))
            elif u < 0.55:
                row.append(cur + 1)
            else:
                row.append(cur + rng.randint(1, 6))
        return row

    def conv(j, sh):
        if len(sh.alloc_answers) >= spec["kmax"]:     # allocation script exhausted: let the run end through the bias test
            return True
        return rng.random() < spec["pconv"]

    return alloc, conv


# ------------------------------------------------------------------ running the implementation
def vector_payoff(d):
    if d == 1:
        return lambda x: x
    return lambda x: np.array([payoff_component(x, j) for j in range(d)])


def run_engine_seq(specs, allocs=None, fixed=False, cv=None, rates=(1.0, 2.0, 1.0)):
    """prices every spec of the list, in order, on ONE multilevel Engine instance (one coupling process object); the
    configuration fields, the scripted oracles and the product of each pricing are those of its spec.
    Returns one obs dict per pricing, taken right after it."""
    from rpylib.montecarlo.multilevel.engine import Engine
    from rpylib.montecarlo.configuration import ConfigurationMultiLevel, ConvergenceRates
    sh = Shared()
    first = specs[0]
    cp = ScriptedCoupling(sample_fn(first["salt"]), cost_fn(first["ctab"]), df=first["df"], shared=sh)
    if first.get("regress"):
        rates = (None, None, None)
    conf = ConfigurationMultiLevel(convergence_rates=ConvergenceRates(*rates), convergence_criteria=None,
                                   initial_level=first["L0"], maximum_level=first["Lmax"], initial_mc_paths=first["N0"],
                                   nb_of_processes=1, seed=1, control_variates=cv)
    eng = Engine(conf, cp)
    out = []
    for e, spec in enumerate(specs):
        spec["epoch"] = e
        alloc, conv = allocs[e] if allocs else (None, None)
        if alloc is None:
            if "atab" in spec and spec["atab"] is not None:
                alloc, conv = spec["atab"], spec["vtab"]
            else:
                alloc, conv = alloc_generator(spec)
        conf.convergence_criteria = scripted_criteria(alloc, conv, sh)
        conf.initial_level, conf.maximum_level, conf.initial_mc_paths = spec["L0"], spec["Lmax"], spec["N0"]
        cp.sample, cp.cost = sample_fn(spec["salt"]), cost_fn(spec["ctab"])
        cp.fine_process._df = spec["df"]
        product = make_product(notional=spec["notional"], dimension=spec.get("dim", 1), fun=vector_payoff(spec.get("dim", 1)))
        obs = {"raised": None}
        out.append(obs)
        with WarningCatcher() as w, np.errstate(all="ignore"), warnings.catch_warnings():
            warnings.simplefilter("ignore")
            try:
                st = eng.price_with_constant_mc_paths_and_level(product) if fixed else eng.price(product, rmse=0.125)
            except (IndexError, ValueError, np.linalg.LinAlgError) as ex:
                obs["raised"] = f"{type(ex).__name__}: {ex}"
                obs["shared"] = sh
                break
        obs["fallthrough"] = any("Initial number of Monte-Carlo paths" in m for m in w.messages)
        with np.errstate(all="ignore"), warnings.catch_warnings():
            warnings.simplefilter("ignore")
            _observe(obs, st, sh)
    return out


def run_engine(spec, alloc=None, conv=None, fixed=False, cv=None, rates=(1.0, 2.0, 1.0)):
    """one pricing on a fresh engine; returns obs dict (everything observed on the real engine)."""
    return run_engine_seq([spec], allocs=[(alloc, conv)], fixed=fixed, cv=cv, rates=rates)[0]


def _observe(obs, st, sh):
    r = st.mlmc_results
    obs["st"], obs["shared"] = st, sh
    obs["Nl"] = [int(x) for x in r.Nl]
    obs["n_stat_levels"] = len(st.mc_statistics)
    obs["draws"] = [sh.draws.get(l, 0) for l in range(max(len(obs["Nl"]), obs["n_stat_levels"]))]
    obs["arrays"] = [np.array(m._payoff_statistics.stats) for m in st.mc_statistics]
    obs["fine"] = [np.array(st.simulation_payoff_with_fine_process(l, no_control_variates=True)) for l in range(obs["n_stat_levels"])]
    obs["coarse"] = [np.array(st.simulation_payoff_with_coarse_process(l, no_control_variates=True)) for l in range(obs["n_stat_levels"])]
    obs["price"] = float(st.price())
    obs["price_nocv"] = float(st.price(no_control_variates=True))
    obs["mc_stddev"] = float(np.sum(st.mc_stddev()))
    for name in ("ml", "vl", "cl", "mean_level_l", "var_level_l", "kurtosis"):
        obs[name] = [float(x) for x in getattr(r, name)]
    obs["cost"] = float(r.cost)
    obs["atab"], obs["vtab"] = sh.alloc_answers, sh.conv_answers
    obs["events"] = [e for e in sh.events if e[0] != "draw"]
    obs["max_level_drawn"] = sh.max_level_drawn
    obs["rmse_seen"] = list(getattr(sh, "rmse_seen", []))


def replay_payload(spec, obs, **extra):
    p = {k: v for k, v in spec.items()}
    p["atab"], p["vtab"] = obs.get("atab"), obs.get("vtab")
    if "Nl" in obs:
        p["observed"] = {"Nl": obs["Nl"], "paths_simulated": obs["draws"], "price": obs["price"],
                         "rows_fine_x1024": [[float(x) * 1024 for x in a] for a in obs["fine"]],
                         "events": [list(e) for e in obs["events"]]}
    p.update(extra)
    return p


# ------------------------------------------------------------------ C05 predicates on the implementation
def _mean(xs):
    return sum(xs, Fraction(0)) / len(xs) if xs else Fraction(0)


def _close(a: float, b: Fraction, tol=TOL):
    if isinstance(a, float) and (math.isnan(a) or math.isinf(a)):
        return False
    return abs(Fraction(a) - b) <= tol * max(1, abs(b))


def textbook_fields(rows):
    """rows: list of (fine, coarse) Fractions, non-empty"""
    d = [f - c for f, c in rows]
    f = [x for x, _ in rows]
    m = _mean(d)
    r2, r3, r4 = _mean([x ** 2 for x in d]), _mean([x ** 3 for x in d]), _mean([x ** 4 for x in d])
    return {"ml": abs(m), "vl": max(Fraction(0), r2 - m * m), "mean_level_l": _mean(f),
            "var_level_l": _mean([x * x for x in f]) - _mean(f) ** 2,
            "kurtosis": (r4 - 4 * r3 * m + 6 * r2 * m * m - 3 * m ** 4) / max(Fraction(1), r2 - m * m) ** 2}


def check_c05(spec, obs):
    """list of (what, details) violations of C05 visible in the implementation's outputs"""
    out = []
    Nl, draws = obs["Nl"], obs["draws"]
    if obs["n_stat_levels"] != len(Nl):
        out.append(("statistics hold a different number of levels than Nl", {"stat_levels": obs["n_stat_levels"], "Nl": Nl}))
    total = Fraction(0)
    for l in range(min(len(Nl), obs["n_stat_levels"])):
        arr = obs["arrays"][l]
        fine, coarse = obs["fine"][l], obs["coarse"][l]
        want = [expected_row(spec, l, n) for n in range(draws[l])]
        got = [(Fraction(float(a)), Fraction(float(b))) for a, b in zip(fine, coarse)]
        if Nl[l] != draws[l] or len(got) != draws[l]:
            phantom = Nl[l] == draws[l] + 1 and len(got) == Nl[l] and got[0] == (0, 0) and got[1:] == want
            out.append(("reported N_l differs from the number of paths simulated at the level (a row that is not a simulated sample is counted)"
                        if phantom else "reported N_l / stored rows differ from the number of paths simulated at the level",
                        {"level": l, "N_l": Nl[l], "paths_simulated": draws[l], "rows_stored": len(got),
                         "first_rows": [[float(a), float(b)] for a, b in got[:4]], **({"finding": "F-C05-1"} if phantom else {})}))
        elif got != want:
            i = next(i for i in range(len(got)) if got[i] != want[i])
            out.append(("a stored row is not the sample simulated for it (dropped / duplicated / overwritten / placeholder)",
                        {"level": l, "row": i, "stored": [float(x) for x in got[i]], "simulated": [float(x) for x in want[i]]}))
        # genuine vector payoff: every component of every row must be the payoff component of the simulated sample
        if arr.ndim == 3 and arr.shape[1] > 1 and arr.shape[0] == draws[l]:
            for j in range(1, arr.shape[1]):
                wj = [expected_row(spec, l, n, j) for n in range(draws[l])]
                gj = [(Fraction(float(a)), Fraction(float(b))) for a, b in arr[:, j, :]]
                if gj != wj:
                    i = next(i for i in range(len(gj)) if gj[i] != wj[i])
                    out.append(("vector payoff: a stored (fine, coarse) pair of a payoff component is not that component of the simulated sample",
                                {"level": l, "component": j, "row": i, "stored": [float(x) for x in gj[i]], "simulated": [float(x) for x in wj[i]]}))
                    break
        # where no path was simulated numpy has no statistics: the reported fields must be nan there (never a number)
        if draws[l] == 0 and Nl[l] == 0:
            bad = [name for name in ("ml", "vl", "cl", "mean_level_l", "var_level_l", "kurtosis") if not math.isnan(obs[name][l])]
            if bad:
                out.append(("a level without any simulated path reports a number instead of nan", {"level": l, "fields": bad}))
        if l == 0 and any(c != 0 for _, c in got):
            out.append(("coarse payoff not identically zero at level 0", {"level": 0}))
        # estimator and results from the rows that SHOULD be there
        if want:
            total += _mean([f - c for f, c in want])
            tb = textbook_fields(want)
            for name, val in tb.items():
                if not _close(obs[name][l], val):
                    out.append((f"mlmc_results.{name} is not the stated function of the simulated samples",
                                {"level": l, "reported": obs[name][l], "from_samples": float(val)}))
    # vector payoff: the price of EVERY component is asked for; the code reports component 0 only (F-C05-5)
    dim = spec.get("dim", 1)
    if dim > 1 and all(Nl[l] == draws[l] for l in range(min(len(Nl), obs["n_stat_levels"]))):
        comp = []
        for j in range(dim):
            t = Fraction(0)
            for l in range(min(len(Nl), obs["n_stat_levels"])):
                wj = [expected_row(spec, l, n, j) for n in range(draws[l])]
                if wj:
                    t += _mean([f - c for f, c in wj])
            comp.append(t)
        reported = np.atleast_1d(np.asarray(obs["st"].price(no_control_variates=True), dtype=float))
        if len(reported) != dim or any(not _close(float(reported[j]), comp[j]) for j in range(dim)):
            out.append(("vector payoff: price() / ml / vl report payoff component 0 only, the other components are dropped",
                        {"finding": "F-C05-5", "payoff_dim": dim, "reported_price": [float(v) for v in reported],
                         "per_component_estimators": [float(v) for v in comp]}))
    if not _close(obs["price_nocv"], total):
        out.append(("price() is not the sum over levels of the mean of (fine - coarse) over the simulated samples",
                    {"reported": obs["price_nocv"], "from_samples": float(total)}))
    # mc_stddev: sum over levels of unbiased stddev / sqrt(N)
    tot = 0.0
    for l in range(min(len(Nl), obs["n_stat_levels"])):
        want = [expected_row(spec, l, n) for n in range(draws[l])]
        d = [f - c for f, c in want]
        if len(d) >= 2:
            m = _mean(d)
            tot += math.sqrt(float(sum((x - m) ** 2 for x in d) / (len(d) - 1) / len(d)))
    if "cv" not in spec and not (abs(obs["mc_stddev"] - tot) <= 1e-9 * max(1.0, tot)) and all(n == dr for n, dr in zip(Nl, draws)):
        out.append(("mc_stddev() is not the sum over levels of the unbiased standard deviation / sqrt(N_l)",
                    {"reported": obs["mc_stddev"], "from_samples": tot}))
    return out


# ------------------------------------------------------------------ Coq literals
def qpair(p):
    return f"({qlit(p[0])}, {qlit(p[1])})"


def coq_inputs(spec, obs, fuel=80):
    """the oracle tables and parameters of one history as arguments of Model.Mlmc.run_tab (without phantom)"""
    nlev = max(len(obs["Nl"]), obs["n_stat_levels"], spec["L0"] + 1) + 1
    draws = obs["draws"] + [0] * nlev
    samples = lst([lst([qpair(raw_value(spec, l, n)) for n in range(draws[l] + 2)]) for l in range(nlev)])
    ctab = lst([qlit(c) for c in spec["ctab"]])
    atab = lst([lst([zlit(x) for x in row]) for row in obs["atab"]])
    vtab = lst([blit(b) for b in obs["vtab"]])
    return (f"{samples} {ctab} {atab} {vtab} {qlit(spec['df'])} {qlit(spec['notional'])} "
            f"{natlit(spec['Lmax'])} {natlit(fuel)} {natlit(spec['L0'])} {natlit(spec['N0'])}")


def _nz(obs, name):
    return [0.0 if obs["Nl"][l] == 0 or math.isnan(x) else x for l, x in enumerate(obs[name])]


def coq_expected_rows(obs):
    rows = lst([lst([qpair((float(a), float(b))) for a, b in zip(f, c)]) for f, c in zip(obs["fine"], obs["coarse"])])
    return f"({lst([zlit(n) for n in obs['Nl']])}, {lst([zlit(n) for n in obs['draws'][:len(obs['Nl'])]])}, {rows})"


def coq_expected_results(obs):
    fields = lst([lst([qlit(x) for x in _nz(obs, name)]) for name in ("ml", "vl", "cl", "mean_level_l", "var_level_l", "kurtosis")])
    return f"({qlit(obs['price_nocv'])}, {qlit(obs['cost'])}, {fields})"


def coq_pricing(spec, obs, fuel=80):
    """argument of Model.Mlmc.tab_pricing: RAW scripted samples (the model adds the deterministic path of the path manager
    it determines to be in use)"""
    nlev = max(len(obs["Nl"]), obs["n_stat_levels"], spec["L0"] + 1) + 1
    draws = obs["draws"] + [0] * nlev
    smp = sample_fn(spec["salt"])
    samples = lst([lst([qpair(smp(l, n)) for n in range(draws[l] + 2)]) for l in range(nlev)])
    ctab = lst([qlit(c) for c in spec["ctab"]])
    atab = lst([lst([zlit(x) for x in row]) for row in obs["atab"]])
    vtab = lst([blit(b) for b in obs["vtab"]])
    return (f"({samples}, {ctab}, {atab}, {vtab}, ({qlit(spec['df'])}, {qlit(spec['notional'])}), "
            f"({natlit(spec['Lmax'])}, {natlit(fuel)}, {natlit(spec['L0'])}, {natlit(spec['N0'])}))")

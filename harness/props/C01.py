"""C01 -- CTMC jump rates are the Levy-measure masses of the grid cells: correspondence + implementation oracle."""
import json
import random
from fractions import Fraction as Fr

import numpy as np

from common import qlit, natlit, lst, tup, coq_bad_indices, parallel_coq_bad, CoqError

PROP = "C01"
PROPERTY_FILE = "Properties/C01.v"
GEN_DEPS = ["GenC01Trunc", "GenTieChain", "GenTieChain2d", "GenC01ChainR", "GenC09Hem", "GenC09Merton", "GenC09Vg", "GenC09Trunc"]   # GenTieChain/GenTieChain2d (specs/TIE.py) + GenC01ChainR (specs/C01.py): loops regenerated from the source; GenC09*: closed forms the R chain is instantiated with
RULE = ("cases: TruncatedLevyMeasure.integrate(a,b) with [a,b] inside / outside / straddling / covering the truncation (clipping branch, "
        "exact); chains MarkovChainProcess(StepModel, INVERSION, grid) on dyadic grids built by make_grid / "
        "create_from_fixed_nb_of_points / CTMCCredit, 3..60 states per side, refined 0..4 times, step measures with 1..8 pieces whose "
        "support covers, exceeds or lies inside the grid (truncation active / zero-rate states); compared exactly: create_q_vector, "
        "compute_intensity_of_jumps, MarkovChainProcess.intensity_of_jumps, and (relative 2^-50) the inversion sampler's "
        "probability_to_jump_to_state for every state; RE-USE stream: one grid OBJECT used, refined in place, used again (1..3 times), "
        "directly and through a real CouplingMarkovChain.next_level, with INVERSION / HUFFMANNTREE / BINARYSEARCHTREE / "
        "BINARYSEARCHTREEADAPTED1D (exact q-vector and intensity per level; inversion probabilities and Huffman leaves vs the cell mass); "
        "copula chains in dimension 2 AND 3 on density-table Levy copulas through the real MarkovChainLevyCopula on grids with DIFFERENT "
        "axes (CTMCGrid on independently drawn admissible axes; the real CTMCCredit with a different level_a per name, symmetric or "
        "one-sided), fresh / refined before use / used-refined in place-used: intensity, the 3^d-1 boxes, LevyCopulaModel.mass of EVERY "
        "non-origin cell (cell from the grid's own n-d left_point/right_point/middle) exactly against Model/Chain.v / Model/Chain3d.v, "
        "sampler probability of every state; second stream: HEM/Merton/VG/CGMY on all six grid types (probability-step grids at level 0 "
        "AND, same object refined in place, level 1) against an independent quadrature of the model's density per cell (tolerance); wave 6: the ALIAS and TABLE rate paths "
        "(MarkovChainProcess(StepModel, ALIAS / TABLE, grid) on random dyadic / fixed-size grids refined 0..2 times): create_vec_jump_matrix's vector and the "
        "probability the sampler's OWN tables (alias J,q; table 256 slots + embedded alias) give every state, against Model/Factory.v vec_jump of "
        "the model's rate vector and intensity (Coq group jumpvec, tolerance 2^-40) and against the independent Fraction mass/intensity (oracle); stream hemR: MarkovChainProcess(HEMModel, "
        "INVERSION, CTMCGrid) on random dyadic axes (1..4 states per side, optionally refined), dyadic parameters: every entry of create_q_vector and "
        "intensity_of_jumps against the R model (generated create_q_vector / compute_intensity_of_jumps_1d over R, hem_integrate, truncated_interval) by one "
        "interval-arithmetic lemma each, |model - float| <= 1e-12.  "
        "Wave 7 (audit 4): in the 2-d/3-d table groups the per-state literal is no longer a harness recomputation: cell (a, b), value and probability are "
        "those of the sampler's OWN model.mass call inside probability_to_jump_to_state (wrapper around chain.model.mass); Coq compares every rate with "
        "the code-clamp model (Model/ChainNdClamp.v), the per-axis cell bounds with cell_lo / cell_hi_c, the probability with fl(rate/intensity) (2^-52). "
        "Table chains keep their support INSIDE the grid (truncation inactive: the table's integral is then the chain's mass); truncation ACTIVE is the new "
        "exact stream chain2d_trunc / chain3d_trunc: the library's DependentComponentsCopula / IndependentComponentsCopula on dyadic step margins whose "
        "support exceeds / equals / lies inside the grid, through the real MarkovChainLevyCopula, against chain_mass2/3 = generated mass_2d/mass_3d on the "
        "margins clipped to the axes (Proofs/C01_CopulaTrunc.v), oracle = independent Fraction formulas for both readings (copula of truncated margins; "
        "nu(cell)): a difference from nu(cell) is finding F-C01-1.  Stream chain3d_uneq: the public CTMCGrid with axes of UNEQUAL lengths "
        "((5,7,5), (7,5,5), random): rates, IndexErrors and (sum of rates == intensity) as observed against the code-clamp model (behaviour pinned; "
        "outside C01's quantifier: no constructor builds such grids).  "
        "TIE spot check (wave 8): the generated TIE definitions are spot-checked against the running Python on every run -- groups q_vector, "
        "intensity_1d, intensity_2d, intensity_2d_nd, dispatch_c1d, dispatch_nd2 of harness/tie_selftest.py (12 cases each, kind tie_spot): "
        "GenTieChain / GenTieChain2d definitions evaluated by vm_compute against create_q_vector, compute_intensity_of_jumps and "
        "left_point / right_point / middle / grid[...] called on real CTMCGrid and Coordinate objects (incl. two-axis grids of unequal lengths), exact.  "
        "non-trivial = distinct chain with >= 2 states on a side")
MODELLED = ["numpy arrays as lists of Q, np.zeros/enumerate loop of create_q_vector, itertools.product of the 3 intervals per dimension "
            "(dimension 1, 2, 3: intensity1 / intensity2 / intensity3, the 3^d-1 boxes in itertools.product order)",
            "LevyMeasure.integrate as an abstract additive non-negative interval function `mass` over Q (Section Measure); the "
            "concrete closed forms of HEM/Merton/VG are C09's business: composed over R since wave 6 (see below); the implementation's rates for "
            "HEM/Merton/VG/CGMY are exercised here with a tolerance (independent quadrature)",
            "copula chains: LevyCopulaModel.mass as an abstract box mass `mass2` / `mass3` additive per coordinate and non-negative on "
            "boxes avoiding the origin (Sections Measure2d / Measure3d); discharged (all boxes) for the harness's density tables "
            "(C01_table_mass3_is_a_measure, C01_table_chain_3d); for Clayton / real margins: oracle with tolerance only",
            "n-d right_point (wave 7, audit 4 X-d/D3): the implementation clamps EVERY axis with len(axes[0]) (spatial.py:93 FIXME).  Modelled AS THE CODE "
            "DOES in Model/ChainNdClamp.v (right_point_c / cell_hi_c / q_matrix2_c / q_tensor3_c; None = IndexError); the 2-d/3-d theorems are stated about "
            "these and carry the hypothesis `length ys = length xs` (`length zs = length xs`), under which the clamp is the axis' own (C01_code_clamp). "
            "Behaviour of the code on UNEQUAL lengths (public CTMCGrid(h, origin, axes) accepts them; no library constructor builds them; outside C01's "
            "quantifier, so recorded here and not as a violation): an axis LONGER than axes[0] has the cells of its indices >= len(axes[0]) - 1 collapsed "
            "onto xs[len(axes[0]) - 1], some of them REVERSED intervals for which LevyCopulaModel.mass returns a NEGATIVE value (signed table integral "
            "step_mass3s; the sampler's max(state_mass, 0) makes the probability 0) (mass lost: C01_unequal_lengths_refuted, lengths (5,7,5): /repo reports intensity 2.0, its sampler's rates sum to "
            "1.5); an axis SHORTER than axes[0] raises IndexError at its last index (lengths (7,5,5): 63 of 174 states).  compute_intensity_of_jumps only "
            "asks for the right neighbour of the origin and is unaffected.  Pinned on /repo by the exact group chain3d_uneq",
            "WHICH MEASURE a copula chain integrates (wave 7, audit 4 A4/D5): MarkovChainLevyCopula deep-copies the model and truncates every MARGIN to "
            "(axes[k][0], axes[k][-1]) keeping the copula: its rates are masses under nu~ = (copula, truncated margins), modelled by chain_mass2 / chain_mass3 "
            "(Proofs/C01_CopulaTrunc.v: C12's generated mass_2d / mass_3d on step margins clipped to the axes, library copulas Indep / Dep).  nu~ is NOT the "
            "restriction of the model's Levy measure nu to the grid box (tail integrals shifted by the truncated tail): DECISION -- C01's '(truncated) "
            "Levy-measure mass of the cell' means nu(cell) for a cell inside the box (the property's anchors: 'support the measure is restricted to'); the "
            "code violates that when a margin has mass outside its axis: finding F-C01-1 (KNOWN), C01_copula_rate_is_restricted_nu_refuted.  The density-table "
            "chains (step_mass2 / step_mass3 = the harness table's own integral) are driven with support inside the grid only, where both readings coincide",
            "n-d origin entry of the rate matrix: 0 by convention (the n-d code has no rate array and the sampler's state manager never proposes the origin)",
            "samplers other than INVERSION: only the rates they are built from (create_q_vector on the grid object) and, for Huffman, "
            "the leaf probabilities are observed here; their sampling law is C02's business",
            "wave 6 -- loops REGENERATED FROM THE SOURCE and linked by theorem: create_q_vector (np.zeros + enumerate loop + conditional store), "
            "compute_intensity_of_jumps for a 1-d and a 2-d model (itertools.product / next / block loop unrolled), CTMCGrid.left_point / right_point / "
            "middle are Gen/GenTieChain.v, Gen/GenTieChain2d.v (specs/TIE.py, loop plug-in); Proofs/Tie_Chain.v, Tie_Chain2d.v prove them equal to "
            "Model/Grid.v / Model/Chain.v (C01_gen_*_is_model) and C01_gen_chain_rates / C01_gen_sum_rates_is_intensity_2d state the chain theorems "
            "about the generated definitions.  Wave 8 (audit5a X-d): GenTieChain2d.compute_intensity_of_jumps_2d keeps h_left / h_right as the per-axis "
            "terms WRITTEN IN THE SPEC (the spec's reading); GenTieChain2d.compute_intensity_of_jumps_2d_nd builds them by applying the TRANSLATED "
            "CoordinateND variants of left_point / right_point (clamp len(axes[0]) on both axes) and the tuple variant of middle, i.e. what the code "
            "dispatches to on a two-axis grid: C01_gen_compute_intensity_of_jumps_2d_nd_is_model / C01_gen_sum_rates_is_intensity_2d_nd (axes of equal "
            "lengths).  The generated TIE definitions are spot-checked against the running Python on every run (correspond -> "
            "tie_selftest.selftest_spotchecks: real CTMCGrid / Coordinate objects, so the singledispatch, __init__ and caller-visible edits the "
            "translator cannot see are exercised)",
            "wave 6 -- the 1-d chain OVER THE REALS: Model/ChainR.v (twin of Model/Grid.v + Model/Chain.v over R), Gen/GenC01ChainR.v = the same four "
            "functions + compute_intensity_of_jumps (1-d) regenerated over R (specs/C01.py), equal to the hand model by theorem; the truncated measure "
            "is C09's truncated_integrate around the generated truncated_interval (incl. the a > b and aa == bb branches); `mass` is instantiated with "
            "the generated closed forms hem_integrate / merton_integrate / vg_integrate and the generated densities hem_nu / merton_nu / vg_nu",
            "wave 6 -- create_vec_jump_matrix as Model/Factory.v vec_jump (C02's model; R twin jump_vectorR in Model/ChainR.v); AliasMethod / "
            "TableMethod as C02's Model/Alias.v / Model/Table.v (composed read-only in Proofs/C01_Factory.v)"]
ASSUMPTIONS = ["mass a b = nu([a,b]) is additive and non-negative ON INTERVALS NOT CONTAINING 0 (finite for every Levy measure, also VG/CGMY) "
               "and respects == : hypotheses of Section Measure; discharged for the harness's step measures by "
               "C01_step_mass_is_a_measure; for HEM, Merton and VG (infinite activity) they are DISCHARGED over R by composition with C09 "
               "(C01_hem_chain_rates, C01_merton_chain_rates, C01_vg_chain_rates: no hypothesis on the mass left; parameters in their natural "
               "ranges, erf / exp1 as in Base/RSpecial.v, VG: the float-infinity sentinel INF beyond the truncation range); CGMY: not composed "
               "(C09's CGMY theorems are relative to an abstract incomplete-gamma function)",
               "mass2 / mass3 (LevyCopulaModel.mass of the chain's model_tilde) additive under a split of one coordinate interval, non-negative and "
               "==-respecting on boxes avoiding the origin: hypotheses of Sections Measure2d / Measure3d.  Additivity and == : DISCHARGED (wave 7) for the "
               "code's own mass -- the generated mass_2d / mass_3d on ANY tail integrals that are functions of the number (C01_copula_chain_sum_2d/_3d, "
               "composition with C19's box_mass lemmas), in particular for step margins with the library's Indep / Dep copula, truncation active or not "
               "(C01_step_copula_chain_sum_2d/_3d).  Non-negativity (2-increasing copula) stays a hypothesis (C12's business), checked per state by the "
               "oracle.  For 3-d density tables all three are discharged by C01_table_mass3_is_a_measure -- about the HARNESS's table integral, tied to "
               "LevyCopulaModel.mass per state by the exact groups with truncation inactive",
               "axes of a copula grid have EQUAL LENGTHS (every constructor; hypothesis of all 2-d/3-d theorems; needed: C01_unequal_lengths_refuted)",
               "grid.middle lies strictly inside a gap, middle(x,x)=x at the two (non-zero) end points and respects == (proved only for "
               "the arithmetic mean; for the probability-step grid checked by the oracle per state)"]
THEOREM_NOTES = {
    "number system": "Sections Measure / Measure2d / Measure3d are over Q with an abstract mass; wave 6 replays the 1-d theorems over R "
                     "(C01_chain_R: tiling, rates >= 0, sum = intensity; Leibniz equality, lra) and instantiates the mass with real closed forms "
                     "(C01_density_chain_rates for ANY density with a closed form on the origin-free sub-intervals of the truncation range; instances "
                     "HEM, Merton, VG via C09's is_RInt theorems about the generated definitions).  Dimension 2/3 are not replayed over R",
    "C01_hem_chain_rates": "full for the 1-d HEM chain with the arithmetic-mean middle: statements are about the GENERATED create_q_vector / "
                           "compute_intensity_of_jumps_1d / middle (over R), hem_nu, hem_integrate, truncated_interval; each non-origin rate is_RInt of "
                           "the density over the state's cell; rates >= 0; origin rate 0; sum = generated intensity = integral over [x_0,h_l] + [h_r,x_n]. "
                           "Not covered: the probability-step middle; floats (R is exact arithmetic)",
    "C01_alias_table_chain_law": "composition with C02 (alias_law, table_law): the hypotheses `nonneg p`, `qsum p == 1` of C02 are discharged for the "
                                 "factory's vector of any admissible chain with intensity > 0 (C01_factory_vector_is_distribution); TABLE: the idealised "
                                 "table_mass of C02_table_law (slot byte and alias uniform independent), not the exact 32-bit word count; over Q",
    "C01_gen_compute_intensity_of_jumps_2d_is_model": "THE SPEC'S READING (audit5a X-d): in GenTieChain2d.compute_intensity_of_jumps_2d the tuple-valued h_left / "
                                                      "h_right are the per-axis terms written in specs/TIE.py (static_values), not translated from "
                                                      "grid.left_point(CoordinateND) etc.; it holds for all xs, ys, o but says nothing about the dispatch. The statement "
                                                      "about what the code executes is C01_gen_compute_intensity_of_jumps_2d_nd_is_model",
    "C01_gen_compute_intensity_of_jumps_2d_nd_is_model": "h_left / h_right are applications of the TRANSLATED CoordinateND variants (left_point_nd2 / right_point_nd2, "
                                                         "clamp len(axes[0]) on both axes; middle_nd2); hypothesis length ys = length xs (via "
                                                         "Tie_Chain2d.clamp_agrees_same_length; clamp_agrees_inner would also do: origin not the last point of "
                                                         "either axis); needed: Tie_Chain2d.gen_compute_intensity_of_jumps_2d_nd_clamp_refuted (31/4 vs 15/2 on "
                                                         "lengths (3,5), origin on the last point of the first axis). The block loop is specialised to a 2-d model "
                                                         "(static_tests dimension_model() == 2); model.mass stays an abstract box mass",
    "C01_gen_sum_rates_is_intensity_2d": "2-d: only the intensity is regenerated from the source (GenTieChain2d); the per-cell rates of a copula chain are "
                                         "not computed by a loop in samplingfactory.py (the samplers call model.mass per cell) and stay the hand model q_matrix2",
    "C01_copula_rate_is_restricted_nu_refuted": "audit 4 A4/D5 decided: for copula chains the code's rate of a cell is the mass under the copula applied "
                                                "to the margins truncated to the axes (chain_mass2), which differs from the model's Levy-measure mass of the "
                                                "cell (nu_mass2) for cells INSIDE the grid box as soon as a margin has mass outside its axis; witness run on "
                                                "/repo (rate 0.5 vs 0, intensity 3 vs 1); recorded as F-C01-1 (status known).  What still holds for the code's "
                                                "measure is C01_copula_chain_sum_2d/_3d (rates exist and sum to the reported intensity, no additivity "
                                                "hypothesis); rates >= 0 needs the copula to be 2-increasing (hypothesis mass2_pos / mass3_pos)",
    "C01_unequal_lengths_refuted": "audit 4 X-d: the 2-d/3-d theorems are about the code's clamp (len(axes[0]) on every axis) and need equal lengths; the "
                                   "witnesses (sum of rates 3/2 < intensity 2 on (5,7,5); None = IndexError on (7,5,5)) are replayed on /repo by group "
                                   "chain3d_uneq.  Not a violation of C01 (no constructor builds such grids): recorded in MODELLED",
    "C01_table_mass3_is_a_measure": "about harness/c01_table3.TableN's integral step_mass3, not about LevyCopulaModel._mass_3d; the link is the per-state exact "
                                    "comparison of group chain3d (value returned by the library's mass to the sampler == step_mass3 of the code's cell), with "
                                    "truncation inactive.  C01_rates_nonneg_3d is conditional on mass3_pos, discharged for these tables only",
    "C01_sum_rates_is_intensity_2d": "proved for dimension 2 (any two admissible axes OF EQUAL LENGTHS sharing the origin index, rates = the code-clamp q_matrix2_c; rectangle mass additive per "
                                     "coordinate and non-negative on boxes avoiding the origin), with C01_cells_tile_2d and C01_rates_nonneg_2d; "
                                     "tied by the exact groups chain2d (equal axes) and chain2d_axes (different axes, CTMCCredit with different "
                                     "thresholds, grid objects refined in place) on density-table copulas",
    "C01_sum_rates_is_intensity_3d": "proved for dimension 3 (any three admissible axes OF EQUAL LENGTHS sharing the origin index, rates = the code-clamp q_tensor3_c; box mass "
                                     "additive per coordinate on boxes avoiding the origin), with C01_cells_tile_3d and C01_rates_nonneg_3d; "
                                     "C01_table_chain_3d is the instance with NO mass hypothesis left (3-d density tables, arithmetic-mean "
                                     "middle); tied by the exact group chain3d through the real MarkovChainLevyCopula / _mass_3d: since wave 7 the literal holds the "
                                     "sampler's own model.mass call (cell, value) and probability per state, not a harness recomputation; only the INVERSION sampler "
                                     "is driven in n-d (BINARYSEARCHTREEADAPTED's n-d rates are not observed here). Dimension > 3 (_mass_nd) is not modelled",
}
LEVEL_TEXT = ("Proof: 50 Coq theorems/examples (Q part closed under the global context; R part: the standard axioms of the Coq reals, classical "
              "logic, functional extensionality): for every admissible axis of any length, any middle function "
              "with the stated properties and any interval mass that is additive and non-negative away from the origin, the cells of the non-origin states tile "
              "[x_0,x_n] minus the central cell with shared end points and no overlap, every state lies in its cell, every rate is "
              ">= 0, and the sum of create_q_vector equals compute_intensity_of_jumps (telescoping); the truncated measure is the mass "
              "of the intersection and is again additive/non-negative, so the same holds for what MarkovChainProcess builds; the same "
              "three statements (tiling, non-negativity, sum of all rates = the 3^d-1 boxes) for the product grids of copula chains in "
              "dimension 2 and 3 on any admissible axes OF EQUAL LENGTHS sharing the origin index (the rates are modelled with the code's clamp "
              "len(axes[0]); on unequal lengths -- which no constructor builds -- the statement is REFUTED: C01_unequal_lengths_refuted), for any box mass "
              "additive per coordinate away from the origin, and with no mass hypothesis at all for 3-d density tables (the harness's table integral).  "
              "Wave 7: for copula chains the box mass is the chain's own (copula applied to the margins truncated to the axes); for it additivity is a "
              "theorem (composition with C12/C19: generated mass_2d / mass_3d on any tail integrals), so 'rates exist and sum to the reported intensity' "
              "holds with truncation active; but 'rate = Levy-measure mass nu(cell) of the model' is REFUTED when a margin has mass outside its axis "
              "(C01_copula_rate_is_restricted_nu_refuted, finding F-C01-1, known): the code integrates the copula of the truncated margins, not the "
              "restriction of nu.  Wave 6: (a) create_q_vector, compute_intensity_of_jumps (1-d, 2-d), "
              "left_point / right_point / middle are regenerated from the source on every run (loop plug-in) and proved equal to the hand models; the "
              "chain theorems are restated about the generated definitions (wave 8: the 2-d intensity also in the form whose h_left / h_right are the "
              "translated CoordinateND variants applied to the origin coordinate, for axes of equal lengths; the older 2-d lemma is the spec's reading); "
              "the generated TIE definitions are spot-checked against the running Python on every run; (b) the 1-d theorems are replayed over R and COMPOSED with C09: for "
              "HEM, Merton and VG (generated densities and closed forms) every rate of the generated rate vector IS the integral of the density "
              "over the state's cell, is >= 0, and the rates sum to the generated intensity -- no hypothesis on the mass is left; (c) composed "
              "with C02: the vector create_vec_jump_matrix hands to ALIAS / TABLE is a probability vector and both samplers give state k the "
              "probability mass(cell k)/intensity.  _truncated_interval is re-translated from the source on every run (Q and R).  Tied to /repo by "
              "exact vm_compute correspondence on dyadic step-measure chains (incl. grid objects refined in place, CouplingMarkovChain.next_level, "
              "non-INVERSION sampler paths, ALIAS / TABLE vectors and tables with tolerance 2^-40), on 2-d/3-d density-table copula chains with "
              "different axes of equal lengths (per state: the sampler's own model.mass call and probability; truncation inactive), on library-copula "
              "(Indep / Dep) step-margin chains with truncation ACTIVE, and on 3-d chains with axes of unequal lengths (code's clamp). Partial: rates >= 0 "
              "of copula chains is conditional on the non-negativity of the box mass (discharged for density tables only); CGMY and the real copulas (Clayton) are covered by the oracle with tolerance, not by theorems; the R model of "
              "the HEM chain is tied to /repo through the generated definitions AND by interval lemmas on the real MarkovChainProcess (every rate and the "
              "intensity within 1e-12); the Merton / VG R chains only through the generated definitions and C09's correspondence of the closed forms "
              "(their implementation rates are compared with an independent quadrature, tolerance); "
              "the probability-step middle is not a proved instance of `mid`.")
LEVEL_NOTE = ("Trusted: Coq kernel + vm_compute; py2coq and its loop plug-in; floats modelled as Q (exact on dyadic inputs) resp. R; the Section "
              "hypotheses on `mass` (discharged for step measures, and over R for HEM / Merton / VG by C09), `mass2`/`mass3` (C12) and `mid`; "
              "erf / exp1 as specified in Base/RSpecial.v.")
TECHNIQUE = ("Coq proof over Q (telescoping induction axis by axis, lra) inside Sections Measure / Measure2d / Measure3d, replayed over R and "
             "composed with C09 (Coquelicot is_RInt) and C02 (alias / table laws) + py2coq (truncation; loops of create_q_vector / "
             "compute_intensity_of_jumps over Q and R, each proved equal to its hand model) + exact vm_compute correspondence on StepMeasure "
             "chains and 2-d/3-d density-table copula chains")

def ps_lit(nu):
    return nu.coq()


def axis_lit(axis):
    return lst([qlit(float(x)) for x in axis])


def _dummy_product(kind="fixed"):
    from rpylib.product.payoff import PayoffDates

    class _Payoff:
        payoff_dates_type = PayoffDates.DETERMINISTIC if kind == "fixed" else None

    class _Product:
        payoff = _Payoff()
    return _Product()


def build_chain(model, grid):
    from rpylib.process.markovchain.markovchain import MarkovChainProcess
    from rpylib.distribution.sampling import SamplingMethod
    return MarkovChainProcess(model=model, method=SamplingMethod.INVERSION, grid=grid)


def independent_cells(axis, o):
    """cells recomputed from the axis with Fractions (arithmetic-mean middle); returns list of (lo, hi) or None at o"""
    ax = [Fr(float(x)) for x in axis]
    n = len(ax)
    cells = []
    for k in range(n):
        if k == o:
            cells.append(None)
            continue
        lo = (ax[max(0, k - 1)] + ax[k]) / 2
        hi = (ax[k] + ax[min(n - 1, k + 1)]) / 2
        cells.append((lo, hi))
    return ax, cells


def step_oracle(res, viol, nu, axis, o, q, lam, ctx):
    """independent recomputation (Fractions, no rpylib arithmetic) of what the property promises"""
    ax, cells = independent_cells(axis, o)
    l, r = ax[0], ax[-1]
    tot = Fr(0)
    for k, c in enumerate(cells):
        if c is None:
            if q[k] != 0:
                viol("rate of the origin state is not 0", **ctx)
            continue
        lo, hi = max(c[0], l), min(c[1], r)
        m = nu.moment_q(lo, hi, 0)
        tot += m
        if Fr(float(q[k])) != m:
            viol("rate of a state differs from the Levy mass of its cell", state=k, got=float(q[k]), want=str(m), **ctx)
            return
        if q[k] < 0:
            viol("negative rate", state=k, **ctx)
            return
        if not (c[0] <= ax[k] <= c[1]):
            viol("a state lies outside its cell", state=k, **ctx)
            return
    if Fr(float(lam)) != tot:
        viol("reported intensity differs from the sum of the rates", got=float(lam), want=str(tot), **ctx)
    hl, hr = (ax[o - 1] + ax[o]) / 2, (ax[o] + ax[o + 1]) / 2
    if tot != nu.moment_q(l, hl, 0) + nu.moment_q(hr, r, 0):
        viol("sum of the rates differs from the mass of the truncated support minus the central cell", **ctx)


def _tie_spot(res):
    """cross-cutting TIE layer (DESIGN 2.2a): the GENERATED GenTie* definitions of GEN_DEPS (just regenerated and compiled by the driver)
    against the RUNNING Python functions on real CTMCGrid / Coordinate objects, dyadic inputs, exact, one coqc (harness/tie_selftest.py)"""
    try:
        import tie_selftest
        out = tie_selftest.selftest_spotchecks([m for m in GEN_DEPS if m.startswith("GenTie")], res.seed, name=PROP)
    except Exception as e:  # noqa: BLE001 -- the implementation raised on a spot-check input, or the case file does not compile
        res.broke("correspondence TIE spot check", f"could not run: {type(e).__name__}: {str(e)[-1500:]}")
        return
    for g, (n, bad) in sorted(out.items()):
        for i in range(n):
            res.count(("tie_spot", g, res.seed, i), kind="tie_spot")
            res.bump("tie_spot", g)
        if bad:
            res.broke(f"correspondence TIE {g}", f"generated definition(s) of group {g} disagree with the running Python function on "
                                                 f"{len(bad)} of {n} spot-check cases: indices {bad[:10]} (build/TIE/{PROP}.v)")


def correspond(res):
    from rpylib.distribution.samplingfactory import create_q_vector, compute_intensity_of_jumps
    from stepmeasure import (StepModel, random_step_measure, random_dyadic_axis, make_grid, step_spec)
    from props.C13 import build_fixed, build_credit
    rng = random.Random(res.seed)
    thorough = res.tier == "thorough"
    _tie_spot(res)

    def viol(what, **kw):
        res.violation(what, dict(kw))

    q_cases, p_cases = [], []
    n_chains = 140 if not thorough else 1500
    for it in range(n_chains):
        src = rng.choice(["random", "random", "random", "fixed", "credit"])
        if src == "random":
            h = Fr(rng.choice([1, 1, 2, 3]), rng.choice([2, 4, 8]))
            big = rng.random() < 0.15
            nl, nr = (rng.randrange(20, 61), rng.randrange(20, 61)) if big else (rng.randrange(1, 9), rng.randrange(1, 9))
            axis, o = random_dyadic_axis(rng, nl, nr, h)
            grid = make_grid(axis, o, h)
        elif src == "fixed":
            h = Fr(rng.choice([1, 3]), rng.choice([2, 4, 8]))
            grid = build_fixed(float(h), rng.randrange(2, 40), 1)
        else:
            h = Fr(1, rng.choice([4, 8]))
            l, r = -rng.randrange(16, 48) / 8, rng.randrange(8, 48) / 8
            a = -rng.randrange(int(8 * h) + 2, int(-8 * l) - 1) / 8
            grid = build_credit(l, r, float(h), [a], False)
        levels = 0 if len(grid.axes[0]) > 41 else rng.choice([0, 0, 1, 1, 2, 3, 4]) if len(grid.axes[0]) <= 9 else rng.choice([0, 1, 2])
        for _ in range(levels):
            grid.refine()
        axis0 = [Fr(float(x)) for x in grid.axes[0]]
        supp = rng.choice(["cover", "cover", "exceed", "inside"])
        if supp == "inside":
            nu = random_step_measure(rng, axis0[1] if len(axis0) > 4 else axis0[0], axis0[-2] if len(axis0) > 4 else axis0[-1],
                                     bits=rng.choice([2, 3, 4]), cover=True)
        else:
            nu = random_step_measure(rng, axis0[0], axis0[-1], bits=rng.choice([2, 3, 4]), cover=True)
            if supp == "exceed":
                nu.breaks[0] -= Fr(rng.randrange(1, 9), 4)
                nu.breaks[-1] += Fr(rng.randrange(1, 9), 4)
        model = StepModel(nu, a=0.25, sigma=0.5)
        o = grid.origin_coordinate.value
        ctx = dict(kind="step", measure=step_spec(nu), axis=[float(x) for x in grid.axes[0]], o=o, h=float(grid.h))
        if nu.moment_q(axis0[0], (axis0[o - 1] + axis0[o]) / 2, 0) + nu.moment_q((axis0[o] + axis0[o + 1]) / 2, axis0[-1], 0) == 0:
            res.bump("support", "zero-intensity chain skipped (no state can be reached; the sampler constructor divides 0/0)")
            continue
        try:
            chain = build_chain(model, grid)
            q = create_q_vector(chain.model.levy_triplet.nu, grid)
            lam = chain.intensity_of_jumps
            lam2 = compute_intensity_of_jumps(model=chain.model, grid=grid)
        except Exception as e:  # noqa
            viol(f"building the chain raises {type(e).__name__}", reason=str(e)[:200], **ctx)
            continue
        n = len(grid.axes[0])
        res.count(("chain", tuple(ctx["axis"]), o, str(nu.pieces())), nontrivial=o >= 2 and n - o - 1 >= 2, kind=f"step chain ({src})")
        res.bump("levels", levels)
        res.bump("support", supp)
        res.bump("axis_len", n if n < 10 else (n // 10) * 10)
        res.bump("zero_rate_states", sum(1 for k in range(n) if k != o and q[k] == 0))
        if lam != lam2:
            viol("MarkovChainProcess.intensity_of_jumps differs from compute_intensity_of_jumps", **ctx)
        step_oracle(res, viol, nu, grid.axes[0], o, q, lam, ctx)
        q_cases.append(f"({ps_lit(nu)}, {axis_lit(grid.axes[0])}, {natlit(o)}, {lst([qlit(float(x)) for x in q])}, {qlit(float(lam))})")
        # inversion sampler's per-state probability (float division: relative tolerance 2^-50)
        if lam > 0 and n <= 41:
            prob = chain.sampling.probability_to_jump_to_state
            ps_ = []
            for k in range(n):
                if k != o:
                    p = float(prob(k - o))
                    ps_.append((k, p))
                    if abs(p * lam - q[k]) > 1e-12 * lam:
                        viol("inversion sampler's probability of a state is not rate/intensity", state=k, **ctx)
            p_cases.append(f"({ps_lit(nu)}, {axis_lit(grid.axes[0])}, {natlit(o)}, {qlit(float(lam))}, "
                           f"{lst([f'({natlit(k)}, {qlit(p)})' for k, p in ps_])})")

    # ---- one grid object: use -> refine in place -> use (directly and through CouplingMarkovChain.next_level), all sampler paths
    _reuse_stream_1d(res, rng, viol, q_cases, 30 if not thorough else 300)

    # ---- TruncatedLevyMeasure.integrate with the clipping branch active (a, b outside / straddling [l, r], b < l, r < a)
    from rpylib.model.levymodel.levymodel import TruncatedLevyMeasure
    clip_cases = []
    for it in range(120 if not thorough else 1200):
        l, r = -Fr(rng.randrange(1, 17), 4), Fr(rng.randrange(1, 17), 4)
        nu = random_step_measure(rng, l - Fr(rng.randrange(0, 9), 4), r + Fr(rng.randrange(0, 9), 4), bits=2, cover=True, max_pieces=5)
        t = TruncatedLevyMeasure(nu, (float(l), float(r)))
        kind = rng.choice(["inside", "left-out", "right-out", "straddle-l", "straddle-r", "cover", "touch"])
        span = r - l
        pick = {"inside": (l + span / 4, r - span / 4), "left-out": (l - 3, l - 1), "right-out": (r + 1, r + 2),
                "straddle-l": (l - 1, l + span / 2), "straddle-r": (r - span / 2, r + 2), "cover": (l - 2, r + 3), "touch": (l - 1, l)}[kind]
        a = pick[0] + Fr(rng.randrange(0, 4), 8)
        b = max(a, pick[1] - Fr(rng.randrange(0, 4), 8))
        got = t.integrate(float(a), float(b))
        aa, bb = t._truncated_interval(float(a), float(b))
        res.count(("clip", it, kind), nontrivial=(aa, bb) != (float(a), float(b)), kind="TruncatedLevyMeasure.integrate")
        res.bump("clip_kind", kind)
        res.bump("clip_changed_interval", (aa, bb) != (float(a), float(b)))
        want = nu.moment_q(min(max(a, l), r), max(min(b, r), l), 0) if min(max(a, l), r) < max(min(b, r), l) else Fr(0)
        if Fr(float(got)) != want:
            viol("TruncatedLevyMeasure.integrate is not the mass of the intersection with the truncation interval",
                 kind="clip", measure=step_spec(nu), l=float(l), r=float(r), a=float(a), b=float(b), got=float(got), want=float(want))
        clip_cases.append(f"({ps_lit(nu)}, {qlit(l)}, {qlit(r)}, {qlit(a)}, {qlit(b)}, {qlit(float(got))})")

    groups = [
        ("clip", "list (Q * Q * Q) * Q * Q * Q * Q * Q",
         "fun c => match c with (ps, l, r, a, b, e) => Qeq_bool (tmass (step_mass ps) l r a b) e end", clip_cases),
        ("qvec", "list (Q * Q * Q) * list Q * nat * list Q * Q",
         "fun c => match c with (ps, xs, o, q, lam) => qlist_eqb (chain_q_vector ps xs o) q && Qeq_bool (chain_intensity ps xs o) lam end", q_cases),
        ("prob", "list (Q * Q * Q) * list Q * nat * Q * list (nat * Q)",
         "fun c => match c with (ps, xs, o, lam, l) => forallb (fun kp => let m := prob_state amid (chain_mass ps xs) xs o lam (fst kp) in "
         "Qle_bool (Qabs (snd kp - m)) (m * (1 # 1125899906842624))) l end", p_cases),
    ]

    # ---- second stream: the real model families on all grid types, independent quadrature per cell
    _real_stream(res, rng, viol, 1 if not thorough else 4)
    _copula_stream(res, rng, viol)
    _param_pairs(res, rng, viol)
    _copula_3d(res, rng, viol)
    groups.append(_table_chain_group(res, rng, viol, 4 if not thorough else 30))
    groups.append(_table_chain_nd_group(res, rng, viol, 3, 4 if not thorough else 20))
    groups.append(_table_chain_nd_group(res, rng, viol, 2, 6 if not thorough else 40))
    groups.append(_alias_table_stream(res, rng, viol, 40 if not thorough else 400))
    # wave 7 (audit 4): axes of unequal lengths (the code's clamp len(axes[0]) pinned), truncation ACTIVE on copula chains (library copulas)
    import c01_w7
    rng7 = random.Random(res.seed + 77)
    groups.append(c01_w7.uneq_group(res, rng7, viol, 2 if not thorough else 10))
    groups.append(c01_w7.trunc_group(res, rng7, viol, 2, 7 if not thorough else 40))
    groups.append(c01_w7.trunc_group(res, rng7, viol, 3, 3 if not thorough else 12))
    _hem_R_stream(res, rng, viol, 4 if not thorough else 30)

    header = ("From Coq Require Import ZArith QArith Qabs List Bool.\nFrom RV Require Import Base.QB Base.ExtNum Model.Grid Gen.GenC01Trunc Model.Chain "
              "Model.Chain3d Model.ChainNdClamp Model.Bst Model.Factory Model.Copula Model.MassNd Proofs.C01_CopulaTrunc.\nOpen Scope Q_scope.\n" + c01_w7.COQ_DEFS)
    res.case_lemmas += len(groups)
    for grp in groups:
        gname, ty, chk, cases = grp[:4]
        shard = grp[4] if len(grp) > 4 else 60
        if not cases:
            res.broke(f"correspondence {gname}", "the generator produced no case for this group")
            continue
        bad, nshards = parallel_coq_bad(PROP, f"cases_{gname}", header, ty, chk, cases, shard=shard)
        if bad:
            res.broke(f"correspondence {gname}", f"model and implementation differ on {len(bad)} case(s), first: {cases[bad[0]][:1500]}")
        else:
            res.case_ok += 1


def _huffman_leaves(head):
    """leaf probabilities of the Huffman tree the factory built from create_q_vector / create_vec_jump_matrix: {state index: p}"""
    out, stack = {}, [head]
    while stack:
        nd = stack.pop()
        if nd.is_leaf:
            out[int(nd.state)] = float(nd.value)
        else:
            stack += [nd.left_node, nd.right_node]
    return out


def _reuse_stream_1d(res, rng, viol, q_cases, n_objects):
    """ONE grid object serves a chain, is refined IN PLACE, serves the next chain, ... (1..3 refinements): either directly
    (MarkovChainProcess on the same object after grid.refine()) or through a real CouplingMarkovChain whose next_level does the
    refinement (MLMC pattern), with the INVERSION sampler and with the non-INVERSION rate paths of create_sampling_method
    (HUFFMANNTREE, BINARYSEARCHTREE: create_q_vector -> create_vec_jump_matrix -> tree; BINARYSEARCHTREEADAPTED1D).  At every
    level: create_q_vector, compute_intensity_of_jumps, intensity_of_jumps -- exact, one Coq case (group qvec) per level, on
    the axis the grid object has at that level -- and the sampler's own per-state probability where it is observable
    (inversion: probability_to_jump_to_state; Huffman: the leaves of the tree) against the independent Fraction mass."""
    from rpylib.distribution.samplingfactory import create_q_vector, compute_intensity_of_jumps
    from rpylib.process.markovchain.markovchain import MarkovChainProcess
    from rpylib.distribution.sampling import SamplingMethod
    from stepmeasure import StepModel, random_step_measure, random_dyadic_axis, make_grid, step_spec
    from props.C03 import build_coupling_1d
    import warnings
    for it in range(n_objects):
        h = Fr(rng.choice([1, 1, 2, 3]), rng.choice([2, 4, 8]))
        axis, o = random_dyadic_axis(rng, rng.randrange(1, 6), rng.randrange(1, 6), h)
        grid = make_grid(axis, o, h)
        axis0 = [Fr(float(x)) for x in grid.axes[0]]
        nu = random_step_measure(rng, axis0[0], axis0[-1], bits=rng.choice([2, 3]), cover=True, zero_prob=0.0)
        model = StepModel(nu, a=0.25, sigma=0.5)
        how = rng.choice(["direct", "next_level"])
        method = rng.choice(["INVERSION", "INVERSION", "HUFFMANNTREE", "BINARYSEARCHTREE", "BINARYSEARCHTREEADAPTED1D"])
        n_ref = rng.choice([1, 2, 2, 3]) if len(axis0) <= 7 else rng.choice([1, 2])
        base = dict(kind="reuse", measure=step_spec(nu), axis0=[float(x) for x in axis0], o0=o, h0=float(h), how=how, method=method)
        coupling = None
        for lvl in range(n_ref + 1):
            ctx = dict(base, level=lvl)
            try:
                with warnings.catch_warnings():
                    warnings.simplefilter("ignore")
                    if how == "direct":
                        chain = MarkovChainProcess(model=model, method=SamplingMethod[method], grid=grid)
                    elif coupling is None:
                        coupling, pms, product = build_coupling_1d(model, grid, method)
                        chain = coupling.fine_process
                    else:
                        coupling.next_level(mc_paths=2, path_managers=pms, product=product)      # refines coupling.grid in place
                        chain = coupling.fine_process
                        if coupling.grid is not grid:
                            res.broke("reuse stream", "CouplingMarkovChain.next_level no longer refines the grid object it was given")
                    q = create_q_vector(chain.model.levy_triplet.nu, grid)
                    lam = chain.intensity_of_jumps
                    lam2 = compute_intensity_of_jumps(model=chain.model, grid=grid)
            except Exception as e:  # noqa
                viol(f"chain on a grid object refined in place raises {type(e).__name__}", reason=str(e)[:200], **ctx)
                break
            ax = grid.axes[0]
            n, oo = len(ax), grid.origin_coordinate.value
            ctx.update(axis=[float(x) for x in ax], o=oo, h=float(grid.h))
            res.count(("reuse", it, lvl, how, method), kind=f"grid object re-used after refine in place ({how}, {method})")
            res.bump("reuse_level", lvl)
            res.bump("reuse_how_method", f"{how}/{method}")
            if n != (len(axis0) - 1) * 2 ** lvl + 1 or oo != o * 2 ** lvl:
                viol("the grid object does not have the axis of its refinement level", **ctx)
                break
            if lam != lam2:
                viol("MarkovChainProcess.intensity_of_jumps differs from compute_intensity_of_jumps", **ctx)
            step_oracle(res, viol, nu, ax, oo, q, lam, ctx)
            q_cases.append(f"({ps_lit(nu)}, {axis_lit(ax)}, {natlit(oo)}, {lst([qlit(float(x)) for x in q])}, {qlit(float(lam))})")
            # the sampler's own per-state probability (computed by the sampler, on the grid object it was given)
            _, cells = independent_cells(ax, oo)
            l, r = Fr(float(ax[0])), Fr(float(ax[-1]))
            want = {k: float(nu.moment_q(max(c[0], l), min(c[1], r), 0)) for k, c in enumerate(cells) if c is not None}
            got = None
            if method == "INVERSION":
                got = {k: float(chain.sampling.probability_to_jump_to_state(k - oo)) for k in want}
            elif method == "HUFFMANNTREE":
                got = _huffman_leaves(chain.sampling.head)
                got = {k: got.get(k, 0.0) for k in want}
            if got is not None:
                for k in want:
                    if abs(got[k] * lam - want[k]) > 1e-12 * lam:
                        viol(f"{method} sampler's probability of a state is not (mass of the state's cell)/intensity on a grid object "
                             "refined in place", state=k, got=got[k] * float(lam), want=want[k], **ctx)
                        break
            if how == "direct" and lvl < n_ref:
                grid.refine()


def _alias_implied(J, q):
    """probability each index is returned by AliasMethod._draw_with_u for a uniform u: column x of width 1/K gives x with q[x], J[x] else"""
    K = len(q)
    out = [float(q[k]) for k in range(K)]
    for x in range(K):
        out[int(J[x])] += 1.0 - float(q[x])
    return [v / K for v in out]


def _alias_table_stream(res, rng, viol, n_chains):
    """wave 6 -- the ALIAS and TABLE rate paths of create_sampling_method: MarkovChainProcess(model, SamplingMethod.ALIAS / TABLE, grid)
    on dyadic step-measure chains (random dyadic axes, create_from_fixed_nb_of_points, grid objects refined 0..2 times):
    create_q_vector -> create_vec_jump_matrix -> AliasMethod / TableMethod.  Observed: create_vec_jump_matrix's vector (Coq group
    jumpvec: Model/Factory.v vec_jump of Model/Chain.v's rate vector and intensity, tolerance 2^-40 for the float division) and the
    probability each sampler's OWN tables give every state (alias: J, q; table: the 256 slots + the embedded alias), against the
    model's vector in the same Coq group and against the independent Fraction mass / intensity here (oracle)."""
    from rpylib.distribution.samplingfactory import create_q_vector, create_vec_jump_matrix
    from rpylib.process.markovchain.markovchain import MarkovChainProcess
    from rpylib.distribution.sampling import SamplingMethod
    from stepmeasure import StepModel, random_step_measure, random_dyadic_axis, make_grid, step_spec
    from props.C13 import build_fixed
    import warnings
    cases = []
    for it in range(n_chains):
        if rng.random() < 0.7:
            h = Fr(rng.choice([1, 1, 2, 3]), rng.choice([2, 4, 8]))
            axis, o = random_dyadic_axis(rng, rng.randrange(1, 9), rng.randrange(1, 9), h)
            grid = make_grid(axis, o, h)
            src = "random"
        else:
            h = Fr(rng.choice([1, 3]), rng.choice([2, 4, 8]))
            grid = build_fixed(float(h), rng.randrange(2, 24), 1)
            src = "fixed"
        levels = rng.choice([0, 0, 1, 2]) if len(grid.axes[0]) <= 13 else rng.choice([0, 1])
        for _ in range(levels):
            grid.refine()
        ax = grid.axes[0]
        axis0 = [Fr(float(x)) for x in ax]
        n, o = len(ax), grid.origin_coordinate.value
        supp = rng.choice(["cover", "cover", "inside"])
        lo, hi = (axis0[1], axis0[-2]) if supp == "inside" and n > 4 else (axis0[0], axis0[-1])
        nu = random_step_measure(rng, lo, hi, bits=rng.choice([2, 3]), cover=True)
        model = StepModel(nu, a=0.25, sigma=0.5)
        _, cells = independent_cells(ax, o)
        want_m = {k: nu.moment_q(max(c[0], axis0[0]), min(c[1], axis0[-1]), 0) for k, c in enumerate(cells) if c is not None}
        tot = sum(want_m.values())
        if tot == 0:
            res.bump("alias_table", "zero-intensity chain skipped")
            continue
        base = dict(kind="alias_table", measure=step_spec(nu), axis=[float(x) for x in ax], o=o, h=float(grid.h), levels=levels, src=src)
        per_method = {}
        pv = lam = None
        ok = True
        for method in ("ALIAS", "TABLE"):
            ctx = dict(base, method=method)
            try:
                with warnings.catch_warnings():
                    warnings.simplefilter("ignore")
                    chain = MarkovChainProcess(model=model, method=SamplingMethod[method], grid=grid)
                    q = create_q_vector(chain.model.levy_triplet.nu, grid)
                    lam = chain.intensity_of_jumps
                    pv = create_vec_jump_matrix(q_vector=q, init_state=grid.origin_coordinate, intensity_of_jumps=lam)
                    smp = chain.sampling
                    if method == "ALIAS":
                        probs = _alias_implied(smp.J, smp.q)
                    else:
                        Jt = [int(x) for x in smp.J]
                        inner = _alias_implied(smp.alias_method.J, smp.alias_method.q) if smp.alias_method is not None else [0.0] * n
                        rest = sum(1 for x in Jt if x < 0) / 256.0
                        if len(Jt) != 256:
                            viol("TableMethod built by the factory does not have 256 slots", slots=len(Jt), **ctx)
                        probs = [sum(1 for x in Jt if x == k) / 256.0 + rest * inner[k] for k in range(n)]
            except Exception as e:  # noqa
                viol(f"building the {method} chain raises {type(e).__name__}", reason=str(e)[:200], **ctx)
                ok = False
                break
            res.count(("alias_table", it, method), nontrivial=o >= 2 and n - o - 1 >= 2, kind=f"{method} rate path (step chain, {src})")
            res.bump("alias_table", f"{method}/levels={levels}")
            if Fr(float(lam)) != tot:
                viol("intensity_of_jumps is not the total mass of the cells of the non-origin states", got=float(lam), want=str(tot), **ctx)
            if pv[o] != 0.0 or abs(float(np.sum(pv)) - 1.0) > 1e-12 or min(pv) < 0:
                viol("create_vec_jump_matrix's vector is not a probability vector with zero origin entry", sum=float(np.sum(pv)), **ctx)
            for k in range(n):
                w = float(want_m[k] / tot) if k != o else 0.0
                if abs(probs[k] - w) > 1e-12:
                    viol(f"{method} sampler's own tables do not give a state the probability (mass of its cell)/intensity",
                         state=k, got=probs[k], want=w, **ctx)
                    break
            per_method[method] = probs
        if not ok or len(per_method) != 2:
            continue
        pl = lambda v: lst([f"({natlit(k)}, {qlit(float(x))})" for k, x in enumerate(v)])
        cases.append(f"({ps_lit(nu)}, {axis_lit(ax)}, {natlit(o)}, {qlit(float(lam))}, {lst([qlit(float(x)) for x in pv])}, "
                     f"{pl(per_method['ALIAS'])}, {pl(per_method['TABLE'])})")
    ty = "list (Q * Q * Q) * list Q * nat * Q * list Q * list (nat * Q) * list (nat * Q)"
    chk = ("fun c => match c with (ps, xs, o, lam, pv, ap, tp) => let p := vec_jump (chain_q_vector ps xs o) lam o in "
           "Qeq_bool lam (chain_intensity ps xs o) && Nat.eqb (length pv) (length p) && "
           "forallb (fun kp => Qle_bool (Qabs (snd kp - nth (fst kp) p 0)) (1 # 1099511627776)) "
           "(combine (seq 0 (length pv)) pv ++ ap ++ tp) end")
    return ("jumpvec", ty, chk, cases)


def _rlit(x):
    """exact real literal of a float / Fraction for a Coq R term"""
    f = Fr(x)
    return f"({f.numerator} / {f.denominator})" if f.denominator != 1 else f"({f.numerator})"


def _hem_R_stream(res, rng, viol, n_chains):
    """wave 6 -- the R model of the HEM chain (Model/ChainR.v + the GENERATED GenC01ChainR.create_q_vector / compute_intensity_of_jumps_1d,
    GenC09Hem.hem_integrate, GenC09Trunc.truncated_interval: the objects of C01_hem_chain_rates) against the implementation:
    MarkovChainProcess(HEMModel, INVERSION, CTMCGrid) on random dyadic axes (optionally refined once); every entry of
    create_q_vector(truncated HEM measure, grid) and intensity_of_jumps become one interval-arithmetic lemma
    |model - implementation's float| <= 1e-12 (Coq `interval`, 80 bits)."""
    from rpylib.distribution.samplingfactory import create_q_vector
    from rpylib.model.levymodel.mixed.hem import HEMModel, HEMParameters
    from common import coq_eval_file
    from stepmeasure import random_dyadic_axis, make_grid
    import warnings
    lemmas, n_l = [], 0
    for it in range(n_chains):
        h = Fr(rng.choice([1, 1, 3]), rng.choice([2, 4, 8]))
        axis, o = random_dyadic_axis(rng, rng.randrange(1, 5), rng.randrange(1, 5), h)
        grid = make_grid(axis, o, h)
        if rng.random() < 0.4:
            grid.refine()
        lam, p = Fr(rng.randrange(1, 13), 4), Fr(rng.randrange(1, 8), 8)
        e1, e2 = Fr(rng.randrange(5, 41), 4), Fr(rng.randrange(2, 41), 4)
        model = HEMModel(HEMParameters(sigma=0.2, p=float(p), eta1=float(e1), eta2=float(e2), intensity=float(lam)))
        ctx = dict(kind="hemR", axis=[float(x) for x in grid.axes[0]], lam=float(lam), p=float(p), eta1=float(e1), eta2=float(e2))
        try:
            with warnings.catch_warnings():
                warnings.simplefilter("ignore")
                chain = build_chain(model, grid)
                q = create_q_vector(chain.model.levy_triplet.nu, grid)
                lam_h = chain.intensity_of_jumps
        except Exception as e:  # noqa
            viol(f"building the HEM chain raises {type(e).__name__}", reason=str(e)[:200], **ctx)
            continue
        ax = [Fr(float(x)) for x in grid.axes[0]]
        n, o = len(ax), grid.origin_coordinate.value
        if min(q) < 0 or q[o] != 0 or abs(float(np.sum(q)) - lam_h) > 1e-12 * max(1.0, lam_h):
            viol("HEM chain: a rate is negative, the origin rate is not 0 or the rates do not sum to the intensity", **ctx)
        xs = "[" + "; ".join(_rlit(x) for x in ax) + "]"
        m = f"(truncated_integrate (hem_integrate 1000000 {_rlit(lam)} {_rlit(p)} {_rlit(e1)} {_rlit(e2)}) (headR xs) (lastR xs))"
        unf = "unfold xs, cell_loR, cell_hiR, h_leftR, h_rightR, left_pointR, right_pointR, GenC01ChainR.middle, amidR, nthR, headR, lastR; simpl"
        for k in range(n):
            if k == o:
                continue
            res.count(("hemR", it, k), kind="R model of the HEM chain vs implementation (interval lemma)")
            lemmas.append(
                f"Lemma case_{n_l} : let xs := {xs} in\n  Rabs (nthR (GenC01ChainR.create_q_vector {m} GenC01ChainR.middle xs (Z.of_nat {o})) {k}"
                f" - {_rlit(float(q[k]))}) <= 1 / 1000000000000.\nProof.\n  intros xs. rewrite genR_q_entry by (simpl; lia). {unf}.\n"
                f"  rewrite {'hem_rate_neg' if k < o else 'hem_rate_pos'} by lra. interval with (i_prec 80).\nQed.")
            n_l += 1
        res.count(("hemR", it, "intensity"), kind="R model of the HEM chain vs implementation (interval lemma)")
        lemmas.append(
            f"Lemma case_{n_l} : let xs := {xs} in\n  Rabs (GenC01ChainR.compute_intensity_of_jumps_1d {m} GenC01ChainR.middle xs (Z.of_nat {o})"
            f" - {_rlit(float(lam_h))}) <= 1 / 1000000000000.\nProof.\n  intros xs. rewrite genR_compute_intensity_of_jumps_1d_eq_model. unfold intensity1R. {unf}.\n"
            f"  rewrite hem_intensity_eval by lra. interval with (i_prec 80).\nQed.")
        n_l += 1
        res.bump("hemR_axis_len", n)
    header = ("From Coq Require Import ZArith Reals List Lia Lra.\nFrom Interval Require Import Tactic.\n"
              "From RV Require Import Base.RB Gen.GenC09Trunc Gen.GenC09Hem Model.LevyClosedForms Model.ChainR Gen.GenC01ChainR Proofs.C01_ChainR.\n"
              "Import ListNotations.\nOpen Scope R_scope.\n")
    res.case_lemmas += 1
    if not lemmas:
        res.broke("correspondence hemR", "the generator produced no case for this group")
        return
    rc, out = coq_eval_file(PROP, "cases_hemR", header + "\n".join(lemmas) + "\n", timeout=600)
    if rc != 0:
        res.broke("correspondence hemR", f"an interval lemma |R model - implementation| <= 1e-12 of the HEM chain fails ({n_l} lemmas): {out[-1500:]}")
    else:
        res.case_ok += 1


def _quad_mass(nu, lo, hi):
    import scipy.integrate
    pts = [p for p in (-1.0, -0.1, -0.01, 0.01, 0.1, 1.0) if lo < p < hi]
    val, err = scipy.integrate.quad(lambda x: float(nu(x)), lo, hi, points=pts or None, limit=200, epsabs=1e-13, epsrel=1e-11)
    return val


def _real_stream(res, rng, viol, scale):
    from rpylib.distribution.samplingfactory import create_q_vector
    from rpylib.grid.spatial import CTMCUniformGrid, CTMCGridGeometric, CTMCGridProbabilityStep, CTMCCredit
    from stepmeasure import real_model_specs, build_model
    import warnings
    for rep in range(scale):
        for spec in real_model_specs(rng):
            fam = spec["family"]
            model = build_model(spec)
            nu0 = model.levy_triplet.nu
            h = rng.choice([0.02, 0.05, 0.08])
            grids = []

            def add(name, f):
                try:
                    grids.append((name, f()))
                except ValueError as e:
                    from props.C13 import is_guard
                    if is_guard(e):
                        res.bump("real_grid_guard_ValueError", f"{fam}/{name}")
                    else:      # not one of the constructors' argument guards: an uncontrolled failure, reported
                        viol(f"grid constructor {name} raises an unexpected ValueError", kind="real-ctor", model=spec, grid=name, reason=str(e)[:160])
            add("uniform", lambda: CTMCUniformGrid(h=h, model=model))
            add("fixed", lambda: CTMCUniformGrid.create_from_fixed_nb_of_points(h=h, nb_of_points=rng.randrange(4, 40)))
            add("geometric", lambda: CTMCGridGeometric(h=h, model=model, nb_of_points_on_each_side=rng.randrange(2, 12)))
            add("bounds", lambda: CTMCGridGeometric.create_with_bounds(h=h, truncations=(-rng.uniform(0.3, 1.5), rng.uniform(0.3, 1.5)),
                                                                      dimension=1, nb_of_points_on_each_side=rng.randrange(2, 10)))
            from rpylib.grid.spatial import compute_truncation
            l = compute_truncation(model, h)[0]
            add("credit", lambda: CTMCCredit(h=h, level_a=float(rng.uniform(0.8 * l, -2 * h)), model=model))
            if fam in ("HEM", "MERTON", "VG") and rep == 0:
                add("probstep", lambda: CTMCGridProbabilityStep(h=0.05, model=model, minimum_probability_step=0.1))
            for gname, grid in grids:
                # probability-step grids ALWAYS at level 0 and, the same object refined in place, at level 1 (the refined grid's own
                # root-found middle, grid.h halved); the other grid types: one of {0}, {1} (refined before first use), {0, 1}
                plan = [0, 1] if gname == "probstep" else rng.choice([[0], [1], [0, 1]])
                cur = 0
                for lv in plan:
                    while cur < lv:
                        grid.refine()
                        cur += 1
                    res.bump("real_grid_level", f"{gname} level {lv}" + (" (same object, used at level 0 before)" if plan == [0, 1] and lv == 1 else ""))
                    ctx = dict(kind="real", model=spec, grid=gname, h=float(grid.h), axis=[float(x) for x in grid.axes[0]],
                               o=grid.origin_coordinate.value, levels=lv)
                    try:
                        with warnings.catch_warnings():
                            warnings.simplefilter("ignore")
                            chain = build_chain(model, grid)
                            q = create_q_vector(chain.model.levy_triplet.nu, grid)
                    except Exception as e:  # noqa
                        viol(f"building the chain raises {type(e).__name__}", reason=str(e)[:200], **ctx)
                        continue
                    lam = float(chain.intensity_of_jumps)
                    res.count(("real", fam, gname, ctx["h"], len(ctx["axis"]), rep), kind=f"{fam} on {gname}")
                    axis, o = grid.axes[0], ctx["o"]
                    n = len(axis)
                    if abs(float(np.sum(q)) - lam) > 1e-9 * max(lam, 1e-300):
                        viol("reported intensity differs from the sum of the rates (real model, 1e-9 relative)", got=lam, want=float(np.sum(q)), **ctx)
                    if np.any(q < 0):
                        viol("negative rate (real model)", **ctx)
                    # independent quadrature of the density on (at most 12) cells; ALL cells on probability-step grids, where the
                    # grid's own middle is not the arithmetic mid-point (sums telescope even with wrong mid-points: compare per state)
                    ks = [k for k in range(n) if k != o]
                    if len(ks) > 12 and gname != "probstep":
                        ks = sorted(rng.sample(ks, 10) + [ks[0], ks[-1]])
                    prob = chain.sampling.probability_to_jump_to_state
                    for k in ks:
                        lo = grid.middle(float(axis[max(0, k - 1)]), float(axis[k]))
                        hi = grid.middle(float(axis[k]), float(axis[min(n - 1, k + 1)]))
                        if not lo <= axis[k] <= hi:
                            viol("a state lies outside its cell (real model)", state=k, **ctx)
                            break
                        with warnings.catch_warnings():
                            warnings.simplefilter("ignore")
                            want = _quad_mass(nu0, lo, hi)
                        if abs(q[k] - want) > 1e-6 * max(abs(want), 1e-12) + 1e-10 * lam:
                            viol("rate of a state differs from the quadrature of the model's own density over its cell", state=k,
                                 got=float(q[k]), want=float(want), cell=[float(lo), float(hi)], **ctx)
                            break
                        with warnings.catch_warnings():
                            warnings.simplefilter("ignore")
                            pk = float(prob(k - o))
                        if abs(pk * lam - want) > 1e-6 * max(abs(want), 1e-12) + 1e-10 * lam:
                            viol("inversion sampler's probability of a state is not (mass of the state's own cell)/intensity", state=k,
                                 got=pk * lam, want=float(want), cell=[float(lo), float(hi)], **ctx)
                            break


def clayton_F(u, v, theta, eta):
    """independent implementation of the 2-d Clayton Levy copula"""
    if u == 0 or v == 0:
        return 0.0
    val = (abs(u) ** (-theta) + abs(v) ** (-theta)) ** (-1.0 / theta)
    return val * (eta if u * v >= 0 else -(1.0 - eta))


def independent_mass2(F, U, a, b):
    """mass of the rectangle [a1,b1]x[a2,b2] (not containing the origin) of the Levy measure with 2-d Levy copula F and
    marginal tail integrals U[k](x) = sgn(x) nu_k(I(x)); a rectangle straddling an axis is split by complement"""
    (a1, a2), (b1, b2) = a, b

    def quad_rect(x1, y1, x2, y2):          # no straddling: volume of the tail integral
        f = lambda s, t: F(U[0](s), U[1](t))
        return f(x1, x2) + f(y1, y2) - f(x1, y2) - f(y1, x2)
    inf = float("inf")
    if a1 < 0 < b1 and a2 < 0 < b2:
        raise ValueError("rectangle contains the origin")
    if a1 < 0 < b1:      # straddles the axis x1 = 0: margin 2 mass minus the two outer strips
        m2 = U[1](a2) - U[1](b2)
        return m2 - quad_rect(b1, inf, a2, b2) - quad_rect(-inf, a1, a2, b2)
    if a2 < 0 < b2:
        m1 = U[0](a1) - U[0](b1)
        return m1 - quad_rect(a1, b1, b2, inf) - quad_rect(a1, b1, -inf, a2)
    return quad_rect(a1, b1, a2, b2)


def _copula_stream(res, rng, viol, configs=None):
    """several LevyCopulaModel instances with different (random) margins alive in the same process; the rates of ALL are
    compared with an independent computation (own Clayton formula, own tail integrals of the margins truncated to the grid).
    configs (JSON-able, stored in every replay): [{margins: [step specs], nb: points, levels: refinements}], theta, eta."""
    from rpylib.process.markovchain.markovchainlevycopula import MarkovChainLevyCopula
    from rpylib.distribution.sampling import SamplingMethod
    from rpylib.grid.spatial import CTMCUniformGrid
    from stepmeasure import StepMeasure, step_spec, build_copula_model, build_model
    import itertools
    from stepmeasure import random_step_measure as _rsm
    if configs is None:
        def rnd_margin():
            m = _rsm(rng, Fr(-2), Fr(2), bits=1, cover=True, max_pieces=4, zero_prob=0.0)
            m.strict = False
            return step_spec(m)
        fixed = [step_spec(StepMeasure([Fr(-2), Fr(0), Fr(2)], [Fr(3, 2), Fr(3)], strict=False)),
                 step_spec(StepMeasure([Fr(-2), Fr(0), Fr(2)], [Fr(3), Fr(3, 4)], strict=False))]
        configs = {"theta": rng.choice([0.5, 0.75, 1.25, 2.0]), "eta": rng.choice([0.25, 0.5, 0.9]),
                   "chains": [{"margins": fixed, "nb": 6, "levels": 0},
                              {"margins": [rnd_margin(), rnd_margin()], "nb": rng.choice([4, 6]), "levels": rng.choice([0, 1])},
                              {"margins": [rnd_margin(), rnd_margin()], "nb": 4, "levels": 1}]}
    theta, eta = configs["theta"], configs["eta"]
    chains = []
    for cf in configs["chains"]:      # build all first, then evaluate (a cache shared across instances would mix them up)
        model = build_copula_model(cf["margins"], "clayton", theta=theta, eta=eta)
        grid = CTMCUniformGrid.create_from_fixed_nb_of_points(h=0.5, nb_of_points=cf["nb"], dimension=2)
        for _ in range(cf["levels"]):
            grid.refine()
        ms = [build_model(sp).levy_triplet.nu for sp in cf["margins"]]
        chains.append((ms, MarkovChainLevyCopula(levy_copula_model=model, grid=grid, method=SamplingMethod.INVERSION), grid))
    for which, (ms, chain, grid) in enumerate(chains):
        def tail(k):
            # the chain's model is "the same copula applied to the margins TRUNCATED to the grid's truncation [l_k, r_k]"
            # (model_tilde = deepcopy + truncate_levy_measure): U_k^t(x) = nu_k([x, r_k]) for x >= 0, -nu_k([l_k, x]) for x < 0
            nu = ms[k]
            l_k, r_k = (Fr(float(t)) for t in grid.truncations[k])

            def u(x):
                if x in (float("inf"), float("-inf")):
                    return 0.0
                xq = Fr(float(x))
                if xq >= 0:
                    return float(nu.moment_q(min(xq, r_k), r_k, 0)) if xq < r_k else 0.0
                return -float(nu.moment_q(l_k, max(xq, l_k), 0)) if xq > l_k else 0.0
            return u
        U = [tail(0), tail(1)]
        F = lambda u, v: clayton_F(u, v, theta, eta)
        ax = [float(x) for x in grid.axes[0]]
        n, o = len(ax), grid.origin_coordinate.value[0]
        lam = float(chain.intensity_of_jumps)
        tot = 0.0
        ctx = dict(kind="copula", instance=which, configs=configs, grid_points=len(grid.axes[0]))
        for i, j in itertools.product(range(n), repeat=2):
            if (i, j) == (o, o):
                continue
            lo = tuple(0.5 * (ax[max(0, k - 1)] + ax[k]) for k in (i, j))
            hi = tuple(0.5 * (ax[k] + ax[min(n - 1, k + 1)]) for k in (i, j))
            lo_t = tuple(max(x, ax[0]) for x in lo)
            hi_t = tuple(min(x, ax[-1]) for x in hi)
            want = independent_mass2(F, U, lo_t, hi_t)
            got = float(chain.model.mass(lo, hi))
            pk = float(chain.sampling.probability_to_jump_to_state((i - o, j - o))) * lam
            tot += got
            res.count(("copula-cell", which, i, j), kind="copula chain cell")
            if abs(got - want) > 1e-9 * (1 + lam) or abs(pk - max(want, 0.0)) > 1e-9 * (1 + lam):
                viol("copula chain: rate of a state differs from the independently computed mass of its cell", state=[i, j],
                     got=got, sampler=pk, want=want, **ctx)
                break
        else:
            if abs(tot - lam) > 1e-9 * (1 + lam):
                viol("copula chain: reported intensity differs from the sum of the cell masses", got=lam, want=tot, **ctx)


FAMILY_PARAMS = {
    "HEM": dict(sigma=0.1, p=0.6, eta1=25.0, eta2=40.0, intensity=5.0),
    "MERTON": dict(sigma=0.1, mu_j=0.01, sigma_j=0.05, intensity=5.0),
    "VG": dict(sigma=0.1, nu=0.02, theta=0.1),
    "CGMY": dict(c=0.05, g=10.0, m=8.0, y=0.5),
}
PERTURB = {"p": 0.35, "mu_j": 0.03, "theta": -0.05, "y": 1.2}     # others are scaled by 1.3


def _independent_intensity(model, grid):
    """mass of the truncated support minus the central cell, by quadrature of the model's own density"""
    ax = grid.axes[0]
    o = grid.origin_coordinate.value
    nu = model.levy_triplet.nu
    hl, hr = grid.middle(float(ax[o - 1]), 0.0), grid.middle(0.0, float(ax[o + 1]))
    return _quad_mass(nu, float(ax[0]), hl) + _quad_mass(nu, hr, float(ax[-1]))


def check_chain_intensity(viol, model, grid, ctx):
    from rpylib.distribution.samplingfactory import create_q_vector
    import warnings
    with warnings.catch_warnings():
        warnings.simplefilter("ignore")
        chain = build_chain(model, grid)
        q = create_q_vector(chain.model.levy_triplet.nu, grid)
        want = _independent_intensity(model, grid)
    lam = float(chain.intensity_of_jumps)
    if abs(float(np.sum(q)) - lam) > 1e-9 * max(lam, 1e-300):
        viol("reported intensity differs from the sum of the rates (second model of the same family on an equal grid)",
             got=lam, want=float(np.sum(q)), **ctx)
    elif abs(lam - want) > 1e-6 * max(abs(want), 1e-12):
        viol("reported intensity differs from the mass of the truncated support minus the central cell (quadrature of the density)",
             got=lam, want=float(want), **ctx)


def check_copula_intensity(viol, specs, grid, ctx):
    """copula chain: the reported intensity must be the sum of the masses of all non-origin cells of THIS model"""
    from rpylib.process.markovchain.markovchainlevycopula import MarkovChainLevyCopula
    from rpylib.distribution.sampling import SamplingMethod
    from stepmeasure import build_copula_model
    import itertools, warnings
    with warnings.catch_warnings():
        warnings.simplefilter("ignore")
        model = build_copula_model(specs, "clayton", theta=0.75, eta=0.25)
        chain = MarkovChainLevyCopula(levy_copula_model=model, grid=grid, method=SamplingMethod.INVERSION)
        ax = [float(x) for x in grid.axes[0]]
        n, o = len(ax), grid.origin_coordinate.value[0]
        tot = 0.0
        for i, j in itertools.product(range(n), repeat=2):
            if (i, j) != (o, o):
                lo = tuple(0.5 * (ax[max(0, k - 1)] + ax[k]) for k in (i, j))
                hi = tuple(0.5 * (ax[k] + ax[min(n - 1, k + 1)]) for k in (i, j))
                tot += float(chain.model.mass(lo, hi))
    lam = float(chain.intensity_of_jumps)
    if abs(tot - lam) > 1e-9 * (1 + lam):
        viol("copula chain: reported intensity differs from the sum of the cell masses (second model with the same family of margins on an equal grid)",
             got=lam, want=tot, **ctx)


def _param_pairs(res, rng, viol):
    """pairs of models of one family that differ in ONE parameter (every parameter in turn, also those a __repr__ might
    omit), built in the same interpreter on the SAME grid object and on EQUAL fixed-size grids, in both orders: each chain
    must report its own intensity (a value cached under a key that does not identify the model would leak)"""
    from rpylib.grid.spatial import CTMCUniformGrid
    for fam, base in FAMILY_PARAMS.items():
        for par in base:
            pert = dict(base)
            pert[par] = PERTURB.get(par, base[par] * 1.3)
            s0, s1 = {"family": fam, "kwargs": dict(base)}, {"family": fam, "kwargs": pert}
            shared = CTMCUniformGrid.create_from_fixed_nb_of_points(h=0.05, nb_of_points=12)
            for order, (sa, sb) in enumerate(((s0, s1), (s1, s0))):
                for k, sp in enumerate((sa, sb)):
                    grid = shared if order == 0 else CTMCUniformGrid.create_from_fixed_nb_of_points(h=0.05, nb_of_points=12)
                    ctx = dict(kind="pair", family=fam, parameter=par, model=sp, first=sa, second=sb, same_grid_object=(order == 0), position=k)
                    res.count(("pair", fam, par, order, k), kind=f"one-parameter pair {fam}")
                    res.bump("pair_parameter", f"{fam}.{par}")
                    try:
                        check_chain_intensity(viol, build_model_spec(sp), grid, ctx)
                    except Exception as e:  # noqa
                        viol(f"building the chain raises {type(e).__name__}", reason=str(e)[:200], **ctx)
            # copula chains whose margins are the two models, and the two swapped-parameter variants, on equal 2-d grids
            if fam in ("HEM", "CGMY") or par in ("sigma_j", "nu"):
                for specs2 in ([s0, s0], [s1, s1], [s0, s1], [s1, s0]):
                    g2 = CTMCUniformGrid.create_from_fixed_nb_of_points(h=0.05, nb_of_points=4, dimension=2)
                    ctx = dict(kind="pair-copula", family=fam, parameter=par, margins=specs2)
                    res.count(("pair-copula", fam, par, json.dumps(specs2, sort_keys=True)), kind=f"one-parameter pair copula {fam}")
                    try:
                        check_copula_intensity(viol, specs2, g2, ctx)
                    except Exception as e:  # noqa
                        viol(f"building the copula chain raises {type(e).__name__}", reason=str(e)[:200], **ctx)


def build_model_spec(sp):
    from stepmeasure import build_model
    return build_model(sp)


def _table_chain_group(res, rng, viol, n_tables):
    """copula chains on density-table Levy copulas (exact): compute_intensity_of_jumps and model.mass of every cell against
    Model/Chain.v intensity2 / q_matrix2 (the objects of C01_sum_rates_is_intensity_2d)"""
    from rpylib.process.markovchain.markovchainlevycopula import MarkovChainLevyCopula
    from rpylib.distribution.sampling import SamplingMethod
    from rpylib.distribution.samplingfactory import compute_intensity_of_jumps
    from rpylib.grid.spatial import CTMCGrid
    from stepmeasure import Table2, table_copula_model
    from props.C03 import random_table, WITNESS_TABLE
    import warnings
    cases = []
    tables = [Table2(WITNESS_TABLE)] + [random_table(rng, 2) for _ in range(n_tables)]
    for t_i, table in enumerate(tables):
        ax = rng.choice([[-2.0, -1.0, 0.0, 1.0, 2.0], [-2.0, -0.5, 0.0, 0.5, 2.0], [-2.0, -1.0, -0.5, 0.0, 0.5, 1.5, 2.0]])
        o = ax.index(0.0)
        grid = CTMCGrid(h=ax[o + 1], origin_coordinate=o, axes=[np.array(ax), np.array(ax)])
        if rng.random() < 0.4:
            grid.refine()
        xs = [float(x) for x in grid.axes[0]]
        o2 = grid.origin_coordinate.value[0]
        ctx = dict(kind="table-chain", table=[[str(v) for v in p] for p in table.pieces], axis=xs, o=o2)
        try:
            with warnings.catch_warnings():
                warnings.simplefilter("ignore")
                chain = MarkovChainLevyCopula(levy_copula_model=table_copula_model(table), grid=grid, method=SamplingMethod.INVERSION)
                lam = float(chain.intensity_of_jumps)
                lam2 = float(compute_intensity_of_jumps(model=chain.model, grid=grid))
                n = len(xs)
                mat = []
                for i in range(n):
                    row = []
                    for j in range(n):
                        if (i, j) == (o2, o2):
                            row.append(0.0)
                        else:
                            lo = tuple(0.5 * (xs[max(0, k - 1)] + xs[k]) for k in (i, j))
                            hi = tuple(0.5 * (xs[k] + xs[min(n - 1, k + 1)]) for k in (i, j))
                            row.append(float(chain.model.mass(lo, hi)))
                    mat.append(row)
        except Exception as e:  # noqa
            viol(f"building the table-copula chain raises {type(e).__name__}", reason=str(e)[:200], **ctx)
            continue
        res.count(("table-chain", t_i, tuple(xs)), kind="copula chain on a density table (exact)")
        tot = sum(Fr(v) for row in mat for v in row)
        # independent: the table's own mass of every cell
        for i in range(n):
            for j in range(n):
                if (i, j) != (o2, o2):
                    lo = tuple((Fr(xs[max(0, k - 1)]) + Fr(xs[k])) / 2 for k in (i, j))
                    hi = tuple((Fr(xs[k]) + Fr(xs[min(n - 1, k + 1)])) / 2 for k in (i, j))
                    if Fr(mat[i][j]) != table.mass_q(lo, hi) or mat[i][j] < 0:
                        viol("copula chain: rate of a state differs from the table's mass of its cell", state=[i, j], got=mat[i][j],
                             want=float(table.mass_q(lo, hi)), **ctx)
        if lam != lam2 or Fr(lam) != tot:
            viol("copula chain: reported intensity differs from the sum of the rates", got=lam, want=float(tot), **ctx)
        cases.append(f"({table.coq()}, {lst([qlit(x) for x in xs])}, {natlit(o2)}, {qlit(lam)}, "
                     f"{lst([lst([qlit(v) for v in row]) for row in mat])})")
    return ("chain2d", "list (Q * Q * Q * Q * Q) * list Q * nat * Q * list (list Q)",
            "fun c => match c with (ps, xs, o, lam, m) => Qeq_bool (intensity2 amid (step_mass2 ps) xs xs o) lam && "
            "qll_eqb (q_matrix2 amid (step_mass2 ps) xs xs o) m && Qeq_bool (qsum2 (q_matrix2 amid (step_mass2 ps) xs xs o)) lam end", cases)


def _table_chain_nd_group(res, rng, viol, dim, n_tables):
    """dimension 2 and 3, exact: copula chains on d-dimensional density-table Levy copulas (harness/c01_table3.py) built through the
    real MarkovChainLevyCopula on grids whose axes DIFFER (lengths equal, as the library's right_point needs; tables supported inside the grid, i.e.
    truncation INACTIVE -- truncation active and unequal lengths are the streams of harness/c01_w7.py): (i) CTMCGrid on
    axes drawn independently from a pool of admissible axes, (ii) the real CTMCCredit constructor with a DIFFERENT level_a per name
    (symmetric or not).  Each grid object is either refined before its first use, or USED, REFINED IN PLACE and USED AGAIN (the
    CouplingMarkovChain.next_level pattern) -- every use is a case.  Observed: intensity_of_jumps, compute_intensity_of_jumps (the
    3^d-1 boxes) and, for EVERY non-origin state, the sampler's own call LevyCopulaModel.mass(a, b) (_mass_2d / _mass_3d with all
    axis-straddling corrections) inside probability_to_jump_to_state -- (a, b) and the returned value recorded by a wrapper -- and the
    probability the closure returns.  Coq side: Model/Chain.v intensity2 / q_matrix2 resp. Model/Chain3d.v intensity3 /
    q_tensor3 on the (different) axes, and the admissibility of every axis (hypotheses of C01_sum_rates_is_intensity_2d/_3d)."""
    from rpylib.process.markovchain.markovchainlevycopula import MarkovChainLevyCopula
    from rpylib.distribution.sampling import SamplingMethod
    from rpylib.distribution.samplingfactory import compute_intensity_of_jumps
    from rpylib.grid.spatial import CTMCGrid
    from rpylib.grid.grid import Coordinates
    from c01_table3 import TableN, WITNESS_TABLE3, random_table3, table_copula_model_nd, AXES5, AXES7
    from c01_w7 import spy_rates, nd_case, TY2, TY3
    from props.C13 import build_credit
    from props.C03 import WITNESS_TABLE
    import itertools, warnings
    cases = []
    gname = f"chain{dim}d" if dim == 3 else "chain2d_axes"
    tables = [TableN(WITNESS_TABLE3 if dim == 3 else WITNESS_TABLE, dim)] + [random_table3(rng, 2, dim) for _ in range(n_tables)]

    def use(grid, table, model, ctx, tag):
        """one chain on the grid object in its present state: oracle + one Coq case"""
        axs = [[float(x) for x in a] for a in grid.axes]
        o2 = grid.origin_coordinate.value[0]
        n = len(axs[0])
        ctx = dict(ctx, axes=axs, o=o2, use=tag)
        try:
            with warnings.catch_warnings():
                warnings.simplefilter("ignore")
                chain = MarkovChainLevyCopula(levy_copula_model=model, grid=grid, method=SamplingMethod.INVERSION)
                lam = float(chain.intensity_of_jumps)
                lam2 = float(compute_intensity_of_jumps(model=chain.model, grid=grid))
                # wave 7 (audit 4, A4): NOT a harness recomputation any more -- the cell (a, b) and the value are those of the sampler's OWN
                # model.mass call inside probability_to_jump_to_state (recorded by a wrapper around chain.model.mass), the probability is
                # what the closure returned; all of them go into the Coq literal
                spied = spy_rates(chain, grid, dim)
                cells, rate = {}, {}
                for idx, e in spied.items():
                    if not (isinstance(e, tuple) and len(e) == 4):
                        viol(f"copula chain (d={dim}): the inversion sampler's probability_to_jump_to_state raises / calls model.mass more than once",
                             state=list(idx), got=str(e), **ctx)
                        return
                    a_s, b_s, v_s, pk = e
                    cells[idx] = (a_s, b_s, grid[Coordinates(list(idx))])
                    rate[idx] = v_s
                    if abs(pk * lam - max(v_s, 0.0)) > 1e-12 * lam:
                        viol(f"copula chain (d={dim}): inversion sampler's probability of a state is not (mass of the state's cell)/intensity",
                             state=list(idx), got=pk * lam, want=v_s, **ctx)
                        break
        except Exception as e:  # noqa
            viol(f"building the {dim}-d table-copula chain raises {type(e).__name__}", reason=str(e)[:200], **ctx)
            return
        res.count((gname, tag, json.dumps(ctx["table"]), tuple(map(tuple, axs))), kind=f"{dim}-d copula chain on a density table, unequal axes (exact)")
        res.bump(f"{gname}_states_per_axis", n)
        res.bump(f"{gname}_use", tag)
        res.bump(f"{gname}_grid", ctx["grid"] + ("" if ctx["grid"] != "CTMCCredit" else (" symmetric" if ctx["symmetric"] else " one-sided")))
        res.bump(f"{gname}_distinct_axes", len({tuple(a) for a in axs}))
        # oracle on the implementation: the table's own integral over the cell recomputed from EACH axis in Fractions
        tot = Fr(0)
        for idx, (lo, hi, val) in cells.items():
            got = rate[idx]
            tot += Fr(got)
            ilo = [(Fr(axs[d][max(0, k - 1)]) + Fr(axs[d][k])) / 2 for d, k in enumerate(idx)]
            ihi = [(Fr(axs[d][k]) + Fr(axs[d][min(len(axs[d]) - 1, k + 1)])) / 2 for d, k in enumerate(idx)]
            if got < 0:
                viol(f"copula chain (d={dim}): negative rate", state=list(idx), got=got, **ctx)
                break
            if not all(l <= Fr(float(v)) <= h for l, v, h in zip(ilo, val, ihi)) or \
                    [Fr(float(x)) for x in lo] != ilo or [Fr(float(x)) for x in hi] != ihi:
                viol(f"copula chain (d={dim}): the cell of a state is not [middle(left neighbour, x), middle(x, right neighbour)] on its own axes",
                     state=list(idx), cell=[list(map(float, lo)), list(map(float, hi))], **ctx)
                break
            if Fr(got) != table.mass_q(ilo, ihi):
                viol(f"copula chain (d={dim}): rate of a state differs from the table's mass of its cell", state=list(idx), got=got,
                     want=float(table.mass_q(ilo, ihi)), **ctx)
                break
        if lam != lam2 or Fr(lam) != tot:
            viol(f"copula chain (d={dim}): reported intensity differs from the sum of the rates", got=lam, want=float(tot), **ctx)

        got = nd_case(spied, axs, o2, lam, viol, ctx)
        if got is not None:
            cases.append(f"({table.coq()}, {got[0]})")

    for t_i, table in enumerate(tables):
        src = "credit" if t_i % 3 == 1 else "pool"
        if src == "credit":
            h = rng.choice([0.25, 0.125])
            sym = rng.random() < 0.6
            levels_a = rng.sample([-0.5, -0.75, -1.0, -1.25, -1.5], dim)
            grid = build_credit(-2.0, 2.0, h, levels_a, sym)
            ctx = dict(kind=f"table-chain{dim}d", grid="CTMCCredit", h=h, level_a=levels_a, symmetric=sym)
        else:
            pool = AXES5 if (t_i == 0 or dim == 3 and rng.random() < 0.6 or dim == 2 and rng.random() < 0.3) else AXES7
            axes = [list(a) for a in rng.sample(pool, min(dim, len(pool)))]
            o = axes[0].index(0.0)
            grid = CTMCGrid(h=axes[0][o + 1], origin_coordinate=o, axes=[np.array(a) for a in axes])
            ctx = dict(kind=f"table-chain{dim}d", grid="CTMCGrid")
        ctx["table"] = [[str(v) for v in p] for p in table.pieces]
        n0 = len(grid.axes[0])
        mode = rng.choice(["fresh", "use-refine-use", "refine-first"]) if (n0 <= 5 or dim == 2) else "fresh"
        if t_i == 0:
            mode = "use-refine-use"
        model = table_copula_model_nd(table)
        if mode == "refine-first":
            grid.refine()
            use(grid, table, model, ctx, "refined before first use")
        else:
            use(grid, table, model, ctx, "level 0")
            if mode == "use-refine-use":
                grid.refine()      # in place, after the grid object has served a chain (q cells / sampler probabilities computed)
                use(grid, table, table_copula_model_nd(table), ctx, "same grid object refined in place after use")
    # Coq side (harness/c01_w7.py COQ_DEFS chain2_chk / chain3_chk): admissibility of every axis, intensity, EVERY entry of the code-clamp
    # rate tensor (Model/ChainNdClamp.v) = the value model.mass returned to the sampler, the sampler's probability = fl(rate/intensity)
    # (2^-52 relative), the sampler's per-axis cell bounds = cell_lo / cell_hi_c, sum of the rates = intensity, no state raises
    if dim == 3:
        return (gname, f"list (Q * Q * Q * Q * Q * Q * Q) * {TY3}",
                "fun c => forallb (fun p => Qle_bool 0 (dens3 p)) (fst c) && chain3_chk (step_mass3 (fst c)) (snd c) && "
                "match snd c with (_, _, _, (se, tot)) => se && tot end", cases, 2)
    return (gname, f"list (Q * Q * Q * Q * Q) * {TY2}",
            "fun c => chain2_chk (step_mass2 (fst c)) (snd c) && match snd c with (_, _, _, (se, tot)) => se && tot end", cases, 4)


def clayton_F_nd(us, theta, eta):
    """independent implementation of the d-dimensional Clayton Levy copula (Tankov, formula (7))"""
    if any(u == 0 for u in us):
        return 0.0
    sgn = 1.0
    for u in us:
        sgn *= (1.0 if u > 0 else -1.0)
    val = 2.0 ** (2 - len(us)) * sum(abs(u) ** (-theta) for u in us) ** (-1.0 / theta)
    return val * (eta if sgn >= 0 else -(1.0 - eta))


def _copula_3d(res, rng, viol):
    """dimension 3: sum of the masses of all non-origin cells == reported intensity; every cell that straddles no axis is
    compared with an independent inclusion-exclusion of the Clayton copula over the tail integrals of the truncated margins"""
    from rpylib.process.markovchain.markovchainlevycopula import MarkovChainLevyCopula
    from rpylib.distribution.sampling import SamplingMethod
    from rpylib.grid.spatial import CTMCUniformGrid
    from stepmeasure import step_spec, build_copula_model, build_model
    from stepmeasure import random_step_measure as _rsm
    import itertools, warnings
    theta, eta = rng.choice([0.5, 1.25]), rng.choice([0.25, 0.6])
    specs = []
    for _ in range(3):
        m = _rsm(rng, Fr(-2), Fr(2), bits=1, cover=True, max_pieces=3, zero_prob=0.0)
        m.strict = False
        specs.append(step_spec(m))
    ctx = dict(kind="copula3d", margins=specs, theta=theta, eta=eta)
    try:
        with warnings.catch_warnings():
            warnings.simplefilter("ignore")
            model = build_copula_model(specs, "clayton", theta=theta, eta=eta)
            grid = CTMCUniformGrid.create_from_fixed_nb_of_points(h=0.5, nb_of_points=4, dimension=3)
            chain = MarkovChainLevyCopula(levy_copula_model=model, grid=grid, method=SamplingMethod.INVERSION)
            ms = [build_model(sp).levy_triplet.nu for sp in specs]
            ax = [float(x) for x in grid.axes[0]]
            n, o = len(ax), grid.origin_coordinate.value[0]
            l_r = [tuple(Fr(float(t)) for t in grid.truncations[k]) for k in range(3)]

            def U(k, x):
                nu, (lk, rk) = ms[k], l_r[k]
                xq = Fr(float(x))
                if xq >= 0:
                    return float(nu.moment_q(min(xq, rk), rk, 0)) if xq < rk else 0.0
                return -float(nu.moment_q(lk, max(xq, lk), 0)) if xq > lk else 0.0
            lam, tot = float(chain.intensity_of_jumps), 0.0
            for idx in itertools.product(range(n), repeat=3):
                if idx == (o, o, o):
                    continue
                lo = tuple(0.5 * (ax[max(0, k - 1)] + ax[k]) for k in idx)
                hi = tuple(0.5 * (ax[k] + ax[min(n - 1, k + 1)]) for k in idx)
                got = float(chain.model.mass(lo, hi))
                tot += got
                res.count(("copula3d", idx), kind="copula chain cell (d=3)")
                if got < -1e-12:
                    viol("copula chain (d=3): negative rate", state=list(idx), got=got, **ctx)
                    return
                if all(i != o for i in idx):        # the cell straddles no axis: inclusion-exclusion over its 8 corners
                    lo_t = [max(x, ax[0]) for x in lo]
                    hi_t = [min(x, ax[-1]) for x in hi]
                    want = 0.0
                    for pick in itertools.product((0, 1), repeat=3):
                        corner = [hi_t[k] if pick[k] else lo_t[k] for k in range(3)]
                        want += (-1) ** sum(pick) * clayton_F_nd([U(k, corner[k]) for k in range(3)], theta, eta)
                    if abs(got - want) > 1e-9 * (1 + lam):
                        viol("copula chain (d=3): rate of a state differs from the independently computed mass of its cell",
                             state=list(idx), got=got, want=want, **ctx)
                        return
            if abs(tot - lam) > 1e-9 * (1 + lam):
                viol("copula chain (d=3): reported intensity differs from the sum of the cell masses", got=lam, want=tot, **ctx)
    except Exception as e:  # noqa
        viol(f"building the 3-d copula chain raises {type(e).__name__}", reason=str(e)[:200], **ctx)


def matches_known(v, match):
    """wave 7: the only recorded finding of C01 is F-C01-1 (copula chain with truncation active integrates the copula of the TRUNCATED margins);
    the violation is accepted only after the real chain has been re-run from the replay (harness/c01_w7.py matches_known_trunc)"""
    import c01_w7
    return c01_w7.matches_known_trunc(v, match)


def search(res):
    rng = random.Random(res.seed + 7)

    def viol(what, **kw):
        res.violation(what, dict(kw))
    _real_stream(res, rng, viol, 2)


def replay(path):
    data = json.load(open(path))
    print(json.dumps(data, indent=1)[:3000])
    from rpylib.distribution.samplingfactory import create_q_vector
    from stepmeasure import build_model, make_grid
    if data.get("kind") in ("pair", "pair-copula"):
        out = []
        _param_pairs(type("R", (), {"count": lambda *a, **kw: None, "bump": lambda *a, **kw: None})(), random.Random(0),
                     lambda what, **kw: out.append((what, kw.get("family"), kw.get("parameter"), kw.get("got"), kw.get("want"))))
        out = [o for o in out if o[1] == data.get("family") and o[2] == data.get("parameter")]
        print("still fails:" if out else "no failure on replay", out[:3])
        return 1 if out else 0
    if data.get("kind") == "copula":
        out = []
        _copula_stream(type("R", (), {"count": lambda *a, **kw: None})(), random.Random(0),
                       lambda what, **kw: out.append((what, kw.get("state"), kw.get("got"), kw.get("want"))), configs=data.get("configs"))
        print("still fails:" if out else "no failure on replay", out[:3])
        return 1 if out else 0
    if str(data.get("kind", "")).startswith("copula-trunc"):
        # wave 7: copula chain with truncation active (F-C01-1): re-run the real MarkovChainLevyCopula, both readings in Fractions
        import c01_w7
        ev = c01_w7.trunc_evaluate(data["margins"], data["cop"], data["axes"], data["refine"])
        print("intensity", ev["lam"], "truncation active:", ev["active"], "sum of rates == intensity:", ev["sum_ok"])
        print("rate != mass under copula(truncated margins):", ev["bad_T"][:3])
        print("rate != nu(cell) [F-C01-1]:", len(ev["diff_R"]), "cells, first:", ev["diff_R"][:3])
        bad = bool(ev["bad_T"] or ev["diff_R"] or not ev["sum_ok"] or ev["negative"] or ev["raised"])
        print("still fails" if bad else "no failure on replay")
        return 1 if bad else 0
    if data.get("kind") == "alias_table":
        # wave 6: the ALIAS / TABLE rate path on the recorded (already refined) axis
        from rpylib.distribution.samplingfactory import create_vec_jump_matrix
        from rpylib.process.markovchain.markovchain import MarkovChainProcess
        from rpylib.distribution.sampling import SamplingMethod
        model = build_model(data["measure"])
        nu = model.levy_triplet.nu
        axis, o, method = data["axis"], data["o"], data["method"]
        grid = make_grid([Fr(x) for x in axis], o, Fr(data["h"]))
        chain = MarkovChainProcess(model=model, method=SamplingMethod[method], grid=grid)
        q = create_q_vector(chain.model.levy_triplet.nu, grid)
        lam = chain.intensity_of_jumps
        pv = create_vec_jump_matrix(q_vector=q, init_state=grid.origin_coordinate, intensity_of_jumps=lam)
        smp, n = chain.sampling, len(axis)
        if method == "ALIAS":
            probs = _alias_implied(smp.J, smp.q)
        else:
            Jt = [int(x) for x in smp.J]
            inner = _alias_implied(smp.alias_method.J, smp.alias_method.q) if smp.alias_method is not None else [0.0] * n
            rest = sum(1 for x in Jt if x < 0) / 256.0
            probs = [sum(1 for x in Jt if x == k) / 256.0 + rest * inner[k] for k in range(n)]
        ax, cells = independent_cells(axis, o)
        want = {k: nu.moment_q(max(c[0], ax[0]), min(c[1], ax[-1]), 0) for k, c in enumerate(cells) if c is not None}
        tot = sum(want.values())
        out = []
        if Fr(float(lam)) != tot:
            out.append(f"intensity {lam} != total cell mass {float(tot)}")
        if pv[o] != 0.0 or abs(float(np.sum(pv)) - 1.0) > 1e-12 or min(pv) < 0:
            out.append(f"create_vec_jump_matrix's vector is not a probability vector: sum {float(np.sum(pv))}")
        out += [f"state {k}: {method} tables give {probs[k]}, mass/intensity = {float(want[k] / tot) if k != o else 0.0}" for k in range(n)
                if abs(probs[k] - (float(want[k] / tot) if k != o else 0.0)) > 1e-12]
        print("still fails:" if out else "no failure on replay", out[:5])
        return 1 if out else 0
    if data.get("kind") not in ("step", "real"):
        print("replay: re-run ./check C01")
        return 1
    model = build_model(data["measure"] if data["kind"] == "step" else data["model"])
    axis = data["axis"]
    grid = make_grid([Fr(x) for x in axis], data["o"], Fr(data["h"]))
    chain = build_chain(model, grid)
    q = create_q_vector(chain.model.levy_triplet.nu, grid)
    print("q =", q.tolist(), "sum =", float(np.sum(q)), "intensity_of_jumps =", chain.intensity_of_jumps)
    out = []
    if data["kind"] == "step":
        step_oracle(None, lambda what, **kw: out.append(what), model.levy_triplet.nu, grid.axes[0], data["o"], q, chain.intensity_of_jumps, {})
    else:
        nu0 = model.levy_triplet.nu
        n, o = len(axis), data["o"]
        for k in range(n):
            if k == o:
                continue
            lo, hi = 0.5 * (axis[max(0, k - 1)] + axis[k]), 0.5 * (axis[k] + axis[min(n - 1, k + 1)])
            want = _quad_mass(nu0, lo, hi)
            if abs(q[k] - want) > 1e-6 * max(abs(want), 1e-12) + 1e-10 * chain.intensity_of_jumps:
                out.append(f"state {k}: rate {q[k]} vs quadrature {want}")
        if abs(float(np.sum(q)) - chain.intensity_of_jumps) > 1e-9 * chain.intensity_of_jumps:
            out.append("sum of rates != intensity")
    print("still fails:" if out else "no failure on replay", out[:5])
    return 1 if out else 0
